package main

import (
	"fmt"
	"go/ast"
	"go/parser"
	"go/token"
	"path/filepath"
	"sort"
	"strings"
)

// genEnvLocks walks every method of *Env in env/*.go in statement order, tracks which mode of
// e.rwMutex is held, and records each access to the shared tables e.values / e.types.
func genEnvLocks() (string, error) {
	fset := token.NewFileSet()
	type access struct {
		Method, Field, Kind, Mode string
		Line                      int
	}
	var accs []access
	var regions []string // method: sequence of regions, e.g. "SetValue: W"
	// calls made while e.rwMutex is held: "Method|class:callee|d" (d = 1 when the region is closed by a deferred unlock)
	var held []string
	files, _ := filepath.Glob(filepath.Join(repo, "env", "*.go"))
	sort.Strings(files)
	for _, fn := range files {
		if strings.HasSuffix(fn, "_test.go") {
			continue
		}
		f, err := parser.ParseFile(fset, fn, nil, 0)
		if err != nil {
			return "", err
		}
		pkgNames := map[string]bool{}
		for _, im := range f.Imports {
			nm := strings.Trim(im.Path.Value, "\"")
			if i := strings.LastIndex(nm, "/"); i >= 0 {
				nm = nm[i+1:]
			}
			if im.Name != nil {
				nm = im.Name.Name
			}
			pkgNames[nm] = true
		}
		for _, d := range f.Decls {
			fd, ok := d.(*ast.FuncDecl)
			if !ok || fd.Recv == nil || fd.Body == nil || len(fd.Recv.List) != 1 || len(fd.Recv.List[0].Names) != 1 {
				continue
			}
			recv := fd.Recv.List[0].Names[0].Name
			mode := "none"
			deferred := ""
			var seq []string
			isMutexCall := func(e ast.Expr) (string, bool) {
				ce, ok := e.(*ast.CallExpr)
				if !ok {
					return "", false
				}
				se, ok := ce.Fun.(*ast.SelectorExpr)
				if !ok {
					return "", false
				}
				inner, ok := se.X.(*ast.SelectorExpr)
				if !ok || inner.Sel.Name != "rwMutex" {
					return "", false
				}
				if id, ok := inner.X.(*ast.Ident); !ok || id.Name != recv {
					return "", false
				}
				return se.Sel.Name, true
			}
			tableOf := func(e ast.Expr) (string, bool) {
				se, ok := e.(*ast.SelectorExpr)
				if !ok {
					return "", false
				}
				if id, ok := se.X.(*ast.Ident); !ok || id.Name != recv {
					return "", false
				}
				if se.Sel.Name == "values" || se.Sel.Name == "types" || se.Sel.Name == "externalLookup" {
					return se.Sel.Name, true
				}
				return "", false
			}
			var ferr error
			record := func(field, kind string, pos token.Pos) {
				accs = append(accs, access{fd.Name.Name, field, kind, mode, fset.Position(pos).Line})
			}
			// visit expressions for reads / writes of the tables
			var visitExpr func(e ast.Node, write bool)
			visitExpr = func(n ast.Node, write bool) {
				ast.Inspect(n, func(x ast.Node) bool {
					switch y := x.(type) {
					case *ast.CallExpr:
						if mode != "none" {
							cls := ""
							switch fn := y.Fun.(type) {
							case *ast.Ident:
								switch fn.Name {
								case "len", "make", "delete", "cap", "append", "new", "string", "int", "int64":
								default:
									cls = "func:" + fn.Name
								}
							case *ast.SelectorExpr:
								rx := exprString(fn.X)
								switch {
								case pkgNames[rx]:
									cls = "pkg:" + rx + "." + fn.Sel.Name
								case rx == recv+".parent":
									cls = "up:" + fn.Sel.Name
								case rx == recv+".externalLookup":
									cls = "external:" + fn.Sel.Name
								case rx == recv+".rwMutex":
									cls = "" // the region's own lock operations
								case rx == recv:
									cls = "self:" + fn.Sel.Name
								case strings.HasSuffix(rx, ".rwMutex"):
									cls = "lock-other:" + fn.Sel.Name
								default:
									cls = "other:" + rx + "." + fn.Sel.Name
								}
							default:
								cls = "dynamic"
							}
							if cls != "" {
								d := "0"
								if deferred != "" {
									d = "1"
								}
								held = append(held, fd.Name.Name+"|"+cls+"|"+d)
							}
						}
					case *ast.SelectorExpr:
						if t, ok := tableOf(y); ok {
							k := "read"
							if write {
								k = "write"
							}
							record(t, k, y.Pos())
							return false
						}
					case *ast.FuncLit:
						return false
					}
					return true
				})
			}
			var walk func(stmts []ast.Stmt)
			walk = func(stmts []ast.Stmt) {
				for _, st := range stmts {
					switch s := st.(type) {
					case *ast.ExprStmt:
						if m, ok := isMutexCall(s.X); ok {
							switch m {
							case "Lock":
								mode = "W"
								seq = append(seq, "W")
							case "RLock":
								mode = "R"
								seq = append(seq, "R")
							case "Unlock", "RUnlock":
								mode = "none"
							}
							continue
						}
						if ce, ok := s.X.(*ast.CallExpr); ok {
							if id, ok := ce.Fun.(*ast.Ident); ok && id.Name == "delete" && len(ce.Args) == 2 {
								visitExpr(ce.Args[0], true)
								continue
							}
						}
						visitExpr(s.X, false)
					case *ast.DeferStmt:
						if m, ok := isMutexCall(s.Call); ok {
							deferred = m
							continue
						}
						ferr = fmt.Errorf("%s: unsupported defer", fd.Name.Name)
					case *ast.AssignStmt:
						for _, l := range s.Lhs {
							// e.values[k] = v  or  e.values = make(...)
							if ix, ok := l.(*ast.IndexExpr); ok {
								visitExpr(ix.X, true)
								visitExpr(ix.Index, false)
							} else if _, ok := tableOf(l); ok {
								visitExpr(l, true)
							} else {
								visitExpr(l, false)
							}
						}
						for _, r := range s.Rhs {
							visitExpr(r, false)
						}
					case *ast.IfStmt:
						if s.Init != nil {
							walk([]ast.Stmt{s.Init})
						}
						visitExpr(s.Cond, false)
						saved := mode
						walk(s.Body.List)
						after := mode
						mode = saved
						if s.Else != nil {
							if b, ok := s.Else.(*ast.BlockStmt); ok {
								walk(b.List)
							} else {
								walk([]ast.Stmt{s.Else})
							}
						}
						// a branch that returns does not merge; otherwise both must agree
						_ = after
					case *ast.ForStmt:
						if s.Init != nil {
							walk([]ast.Stmt{s.Init})
						}
						if s.Cond != nil {
							visitExpr(s.Cond, false)
						}
						walk(s.Body.List)
					case *ast.RangeStmt:
						visitExpr(s.X, false)
						walk(s.Body.List)
					case *ast.ReturnStmt:
						for _, r := range s.Results {
							visitExpr(r, false)
						}
					case *ast.DeclStmt, *ast.BranchStmt, *ast.IncDecStmt:
					case *ast.BlockStmt:
						walk(s.List)
					default:
						ferr = fmt.Errorf("%s: unsupported statement %T at line %d", fd.Name.Name, st, fset.Position(st.Pos()).Line)
					}
				}
			}
			walk(fd.Body.List)
			if ferr != nil {
				return "", ferr
			}
			_ = deferred
			if len(seq) > 0 {
				regions = append(regions, fd.Name.Name+": "+strings.Join(seq, " "))
			}
		}
	}
	sort.Slice(accs, func(i, j int) bool {
		if accs[i].Method != accs[j].Method {
			return accs[i].Method < accs[j].Method
		}
		return accs[i].Line < accs[j].Line
	})
	sort.Strings(regions)
	var b strings.Builder
	b.WriteString("-- GENERATED by /verif/tools/cmd/extract from /repo/env/*.go (lock regions of *Env methods). Do not edit.\n")
	b.WriteString("namespace Anko.Gen\n\n")
	b.WriteString("inductive LockMode where\n  | none | R | W\n  deriving DecidableEq, Repr\n\n")
	b.WriteString("structure TableAccess where\n  method : String\n  field : String     -- values / types\n  isWrite : Bool\n  mode : LockMode    -- mode of e.rwMutex held at the access\n  deriving DecidableEq, Repr\n\n")
	b.WriteString("def envAccesses : List TableAccess := [\n")
	for i, a := range accs {
		if i > 0 {
			b.WriteString(",\n")
		}
		fmt.Fprintf(&b, "  ⟨%s, %s, %v, .%s⟩", leanStr(a.Method), leanStr(a.Field), a.Kind == "write", a.Mode)
	}
	b.WriteString("\n]\n\n")
	b.WriteString("/-- per method: the sequence of lock acquisitions (R = RLock, W = Lock) -/\n")
	b.WriteString("def envRegions : List String := " + leanStrList(regions) + "\n\n")
	sort.Strings(held)
	var heldU []string
	for i, h := range held {
		if i == 0 || held[i-1] != h {
			heldU = append(heldU, h)
		}
	}
	b.WriteString("/-- calls made while the scope's lock is held: (method, class:callee, region closed by a deferred unlock).\n")
	b.WriteString("classes: up = on e.parent, external = on e.externalLookup, self = on e itself, lock-other = another scope's mutex,\n")
	b.WriteString("other = a method of some other value, pkg = a package function, func = a plain function, dynamic = a computed callee -/\n")
	b.WriteString("def heldCalls : List (String × String × Bool) := [")
	for i, h := range heldU {
		parts := strings.Split(h, "|")
		if i > 0 {
			b.WriteString(",")
		}
		fmt.Fprintf(&b, "\n  (%s, %s, %v)", leanStr(parts[0]), leanStr(parts[1]), parts[2] == "1")
	}
	b.WriteString("\n]\n\nend Anko.Gen\n")
	return b.String(), nil
}

