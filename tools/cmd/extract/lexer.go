package main

import (
	"fmt"
	"go/ast"
	"go/parser"
	"go/token"
	"path/filepath"
	"strconv"
	"strings"
)

// genLexer translates the table-like parts of parser/lexer.go: the keyword table (opName, in source order), the character
// class predicates (isDigit, isHex, isBinary, isBlank, isEOL, isLetter - bodies that are boolean combinations of comparisons of the
// rune with literals, translated expression by expression; anything else is an extraction error) and the operator switch of
// Scan (for every first character: the second characters that make a two-character operator and the operator's spelling;
// the cases with other statements in them are listed as special; the single-character token list).
func genLexer() (string, error) {
	fset := token.NewFileSet()
	f, err := parser.ParseFile(fset, filepath.Join(repo, "parser", "lexer.go"), nil, 0)
	if err != nil {
		return "", err
	}
	var keywords []string
	classes := map[string]string{}
	var classOrder []string
	type alt struct {
		second string
		lit    string
	}
	type entry struct {
		first string
		alts  []alt
	}
	var table []entry
	var special []string
	var singles []string
	runeLit := func(e ast.Expr) (int64, bool) {
		switch x := e.(type) {
		case *ast.BasicLit:
			if x.Kind == token.CHAR {
				s, err := strconv.Unquote(x.Value)
				if err != nil || len([]rune(s)) != 1 {
					return 0, false
				}
				return int64([]rune(s)[0]), true
			}
			if x.Kind == token.INT {
				v, err := strconv.ParseInt(x.Value, 0, 64)
				return v, err == nil
			}
		case *ast.UnaryExpr:
			if x.Op == token.SUB {
				if v, ok := runeLitInner(x.X); ok {
					return -v, true
				}
			}
		case *ast.Ident:
			if x.Name == "EOF" {
				return -1, true
			}
		}
		return 0, false
	}
	var tr func(e ast.Expr, param string) (string, error)
	tr = func(e ast.Expr, param string) (string, error) {
		switch x := e.(type) {
		case *ast.ParenExpr:
			s, err := tr(x.X, param)
			return "(" + s + ")", err
		case *ast.BinaryExpr:
			switch x.Op {
			case token.LOR, token.LAND:
				l, err := tr(x.X, param)
				if err != nil {
					return "", err
				}
				r, err := tr(x.Y, param)
				if err != nil {
					return "", err
				}
				op := "||"
				if x.Op == token.LAND {
					op = "&&"
				}
				return "(" + l + " " + op + " " + r + ")", nil
			case token.EQL, token.LEQ, token.GEQ, token.LSS, token.GTR, token.NEQ:
				side := func(y ast.Expr) (string, error) {
					if id, ok := y.(*ast.Ident); ok && id.Name == param {
						return "ch", nil
					}
					if v, ok := runeLit(y); ok {
						if v < 0 {
							return fmt.Sprintf("(%d)", v), nil
						}
						return fmt.Sprint(v), nil
					}
					return "", fmt.Errorf("operand %s", exprString(y))
				}
				l, err := side(x.X)
				if err != nil {
					return "", err
				}
				r, err := side(x.Y)
				if err != nil {
					return "", err
				}
				op := map[token.Token]string{token.EQL: "==", token.LEQ: "≤", token.GEQ: "≥", token.LSS: "<", token.GTR: ">", token.NEQ: "!="}[x.Op]
				if op == "==" || op == "!=" {
					return "(" + l + " " + op + " " + r + ")", nil
				}
				return "decide (" + l + " " + op + " " + r + ")", nil
			}
		case *ast.CallExpr:
			if exprString(x.Fun) == "unicode.IsLetter" && len(x.Args) == 1 {
				if id, ok := x.Args[0].(*ast.Ident); ok && id.Name == param {
					return "unicodeIsLetter ch", nil
				}
			}
		}
		return "", fmt.Errorf("unsupported expression %s", exprString(e))
	}
	for _, d := range f.Decls {
		switch x := d.(type) {
		case *ast.GenDecl:
			for _, sp := range x.Specs {
				vs, ok := sp.(*ast.ValueSpec)
				if !ok || len(vs.Names) != 1 || vs.Names[0].Name != "opName" || len(vs.Values) != 1 {
					continue
				}
				cl, ok := vs.Values[0].(*ast.CompositeLit)
				if !ok {
					return "", fmt.Errorf("opName is not a composite literal")
				}
				for _, el := range cl.Elts {
					kv, ok := el.(*ast.KeyValueExpr)
					if !ok {
						return "", fmt.Errorf("opName entry")
					}
					bl, ok := kv.Key.(*ast.BasicLit)
					if !ok || bl.Kind != token.STRING {
						return "", fmt.Errorf("opName key")
					}
					s, _ := strconv.Unquote(bl.Value)
					keywords = append(keywords, s)
				}
			}
		case *ast.FuncDecl:
			name := x.Name.Name
			if x.Recv == nil && strings.HasPrefix(name, "is") && x.Type.Params != nil && len(x.Type.Params.List) == 1 && len(x.Type.Params.List[0].Names) == 1 {
				if len(x.Body.List) != 1 {
					return "", fmt.Errorf("%s: body is not a single return", name)
				}
				rs, ok := x.Body.List[0].(*ast.ReturnStmt)
				if !ok || len(rs.Results) != 1 {
					return "", fmt.Errorf("%s: body is not a single return", name)
				}
				s, err := tr(rs.Results[0], x.Type.Params.List[0].Names[0].Name)
				if err != nil {
					return "", fmt.Errorf("%s: %v", name, err)
				}
				classes[name] = s
				classOrder = append(classOrder, name)
			}
			if x.Recv != nil && name == "Scan" {
				// find `switch ch { ... }` (the one with case '!')
				ast.Inspect(x.Body, func(n ast.Node) bool {
					sw, ok := n.(*ast.SwitchStmt)
					if !ok {
						return true
					}
					if id, ok := sw.Tag.(*ast.Ident); !ok || id.Name != "ch" {
						return true
					}
					for _, c := range sw.Body.List {
						cc := c.(*ast.CaseClause)
						if len(cc.List) == 0 {
							continue // default
						}
						if len(cc.List) > 1 {
							for _, e := range cc.List {
								if v, ok := runeLit(e); ok && v >= 0 {
									singles = append(singles, string(rune(v)))
								}
							}
							continue
						}
						v, ok := runeLit(cc.List[0])
						if !ok || v < 0 {
							continue // EOF
						}
						first := string(rune(v))
						// regular shape: s.next(); switch s.peek() { case 'Y': tok = T; lit = "XY" ... default: ... }
						var inner *ast.SwitchStmt
						regular := len(cc.Body) == 2
						if regular {
							inner, regular = cc.Body[1].(*ast.SwitchStmt)
						}
						if !regular {
							special = append(special, first)
							// still collect the plain two-character alternatives of a special case
							for _, st := range cc.Body {
								if sw2, ok := st.(*ast.SwitchStmt); ok {
									inner = sw2
								}
							}
						}
						if inner == nil {
							continue
						}
						en := entry{first: first}
						irregular := false
						for _, ic := range inner.Body.List {
							icc := ic.(*ast.CaseClause)
							if len(icc.List) != 1 {
								continue
							}
							sv, ok := runeLit(icc.List[0])
							if !ok {
								continue
							}
							if len(icc.Body) == 2 {
								a1, ok1 := icc.Body[0].(*ast.AssignStmt)
								a2, ok2 := icc.Body[1].(*ast.AssignStmt)
								if ok1 && ok2 && exprString(a1.Lhs[0]) == "tok" && exprString(a2.Lhs[0]) == "lit" {
									if bl, ok := a2.Rhs[0].(*ast.BasicLit); ok && bl.Kind == token.STRING {
										lit, _ := strconv.Unquote(bl.Value)
										en.alts = append(en.alts, alt{string(rune(sv)), lit})
										continue
									}
								}
							}
							irregular = true
						}
						if irregular && regular {
							special = append(special, first)
						}
						table = append(table, en)
					}
					return false
				})
			}
		}
	}
	if len(keywords) == 0 || len(table) == 0 || len(classOrder) < 5 {
		return "", fmt.Errorf("lexer.go: keyword table, character classes or operator switch not found")
	}
	var b strings.Builder
	b.WriteString("-- GENERATED by /verif/tools/cmd/extract from /repo/parser/lexer.go (keyword table, character classes, operator switch). Do not edit.\n")
	b.WriteString("namespace Anko.Gen.Lexer\n\n")
	b.WriteString("/-- the keys of opName, in source order -/\n")
	b.WriteString("def keywords : List String := " + leanStrList(keywords) + "\n\n")
	b.WriteString("/-- character classes, translated expression by expression; `ch` is the rune as an integer (EOF = -1) -/\n")
	for _, n := range classOrder {
		if strings.Contains(classes[n], "unicodeIsLetter") {
			fmt.Fprintf(&b, "def %s (unicodeIsLetter : Int → Bool) (ch : Int) : Bool := %s\n", n, classes[n])
		} else {
			fmt.Fprintf(&b, "def %s (ch : Int) : Bool := %s\n", n, classes[n])
		}
	}
	b.WriteString("\n/-- Scan's operator switch: first character, then (second character, operator spelling) for the plain two-character operators -/\n")
	b.WriteString("def twoCharOps : List (Char × List (Char × String)) := [")
	for i, en := range table {
		if i > 0 {
			b.WriteString(",")
		}
		fmt.Fprintf(&b, "\n  (%s, [", leanChar(en.first))
		for j, a := range en.alts {
			if j > 0 {
				b.WriteString(", ")
			}
			fmt.Fprintf(&b, "(%s, %s)", leanChar(a.second), leanStr(a.lit))
		}
		b.WriteString("])")
	}
	b.WriteString("\n]\n\n")
	b.WriteString("/-- first characters whose case has more in it than the plain alternatives (`= <-`, comments, `...`) -/\n")
	b.WriteString("def specialFirstChars : List Char := [" + joinMap(special, leanChar) + "]\n\n")
	b.WriteString("/-- the characters that are tokens by themselves -/\n")
	b.WriteString("def singleCharTokens : List Char := [" + joinMap(singles, leanChar) + "]\n\n")
	b.WriteString("end Anko.Gen.Lexer\n")
	return b.String(), nil
}

func runeLitInner(e ast.Expr) (int64, bool) {
	if x, ok := e.(*ast.BasicLit); ok && x.Kind == token.INT {
		v, err := strconv.ParseInt(x.Value, 0, 64)
		return v, err == nil
	}
	return 0, false
}

func leanChar(s string) string {
	r := []rune(s)[0]
	switch r {
	case '\n':
		return "'\\n'"
	case '\'':
		return "'\\''"
	case '\\':
		return "'\\\\'"
	}
	return "'" + string(r) + "'"
}

func joinMap(xs []string, f func(string) string) string {
	out := make([]string, len(xs))
	for i, x := range xs {
		out[i] = f(x)
	}
	return strings.Join(out, ", ")
}
