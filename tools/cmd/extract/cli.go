package main

import (
	"fmt"
	"go/ast"
	"go/parser"
	"go/token"
	"path/filepath"
	"strconv"
	"strings"
)

// genCli extracts the exit-code decision structure of runNonInteractive and the
// environment preparation of setupEnv / the package imports of anko.go.
func genCli() (string, error) {
	fset := token.NewFileSet()
	f, err := parser.ParseFile(fset, filepath.Join(repo, "anko.go"), nil, 0)
	if err != nil {
		return "", err
	}
	importsPackages := false
	for _, im := range f.Imports {
		p, _ := strconv.Unquote(im.Path.Value)
		if p == "github.com/mattn/anko/packages" {
			importsPackages = true
		}
	}
	var run, setup, mainFn *ast.FuncDecl
	for _, d := range f.Decls {
		if fd, ok := d.(*ast.FuncDecl); ok {
			switch fd.Name.Name {
			case "runNonInteractive":
				run = fd
			case "setupEnv":
				setup = fd
			case "main":
				mainFn = fd
			}
		}
	}
	if run == nil || setup == nil || mainFn == nil {
		return "", fmt.Errorf("anko.go: runNonInteractive / setupEnv / main not found")
	}
	intLit := func(e ast.Expr) (int, bool) {
		bl, ok := e.(*ast.BasicLit)
		if !ok || bl.Kind != token.INT {
			return 0, false
		}
		n, err := strconv.Atoi(bl.Value)
		return n, err == nil
	}
	countPrints := func(stmts []ast.Stmt) int {
		n := 0
		for _, s := range stmts {
			ast.Inspect(s, func(x ast.Node) bool {
				if ce, ok := x.(*ast.CallExpr); ok {
					if se, ok := ce.Fun.(*ast.SelectorExpr); ok && strings.HasPrefix(se.Sel.Name, "Print") || ok && strings.HasPrefix(se.Sel.Name, "Fprint") {
						n++
					}
				}
				return true
			})
		}
		return n
	}
	// errReturn recognises `if err != nil { <prints>; return K }`
	errReturn := func(s ast.Stmt) (k, prints int, ok bool) {
		is, isIf := s.(*ast.IfStmt)
		if !isIf || is.Else != nil {
			return
		}
		be, isBin := is.Cond.(*ast.BinaryExpr)
		if !isBin || be.Op != token.NEQ {
			return
		}
		if x, isId := be.X.(*ast.Ident); !isId || x.Name != "err" {
			return
		}
		if y, isId := be.Y.(*ast.Ident); !isId || y.Name != "nil" {
			return
		}
		if len(is.Body.List) == 0 {
			return
		}
		rs, isRet := is.Body.List[len(is.Body.List)-1].(*ast.ReturnStmt)
		if !isRet || len(rs.Results) != 1 {
			return
		}
		k, ok = intLit(rs.Results[0])
		prints = countPrints(is.Body.List[:len(is.Body.List)-1])
		return
	}
	callsNamed := func(s ast.Stmt, sel string) bool {
		found := false
		ast.Inspect(s, func(x ast.Node) bool {
			if ce, ok := x.(*ast.CallExpr); ok {
				if se, ok := ce.Fun.(*ast.SelectorExpr); ok && se.Sel.Name == sel {
					found = true
				}
			}
			return true
		})
		return found
	}
	body := run.Body.List
	// shape: var source; if flagExecute != "" {source = flagExecute} else { read; if err != nil {..return}; source = ... }; _, err := vm.Execute(e, nil, source); if err != nil {...return}; return K
	var readK, readPrints, execK, execPrints, okK = -1, -1, -1, -1, -1
	okPrints := 0
	stage := 0 // 0 before Execute, 1 after Execute call
	sawExecute := false
	executeUsesE := false
	for _, s := range body {
		switch st := s.(type) {
		case *ast.IfStmt:
			if k, p, ok := errReturn(st); ok {
				if stage == 1 && execK < 0 {
					execK, execPrints = k, p
					continue
				}
				return "", fmt.Errorf("runNonInteractive: unexpected error return before vm.Execute")
			}
			// the source-selection if/else
			if st.Else == nil {
				return "", fmt.Errorf("runNonInteractive: unrecognised if statement at %s", fset.Position(st.Pos()))
			}
			eb, ok := st.Else.(*ast.BlockStmt)
			if !ok {
				return "", fmt.Errorf("runNonInteractive: else branch is not a block")
			}
			if countPrints(st.Body.List) != 0 {
				okPrints += countPrints(st.Body.List)
			}
			sawRead := false
			for _, es := range eb.List {
				if callsNamed(es, "ReadFile") {
					sawRead = true
					continue
				}
				if k, p, ok := errReturn(es); ok && sawRead && readK < 0 {
					readK, readPrints = k, p
					continue
				}
				okPrints += countPrints([]ast.Stmt{es})
			}
			if !sawRead {
				return "", fmt.Errorf("runNonInteractive: file branch does not call ReadFile")
			}
		case *ast.AssignStmt:
			if callsNamed(st, "Execute") {
				sawExecute = true
				stage = 1
				ce := st.Rhs[0].(*ast.CallExpr)
				if len(ce.Args) == 3 {
					if id, ok := ce.Args[0].(*ast.Ident); ok && id.Name == "e" {
						executeUsesE = true
					}
				}
			} else {
				okPrints += countPrints([]ast.Stmt{st})
			}
		case *ast.ReturnStmt:
			if len(st.Results) == 1 {
				if k, ok := intLit(st.Results[0]); ok {
					okK = k
				}
			}
		case *ast.DeclStmt:
		default:
			okPrints += countPrints([]ast.Stmt{s})
		}
	}
	if !sawExecute || readK < 0 || execK < 0 || okK < 0 {
		return "", fmt.Errorf("runNonInteractive: could not find ReadFile-error return, Execute-error return and final return (got %d %d %d)", readK, execK, okK)
	}
	// setupEnv: e = env.NewEnv(); e.Define("args", args); core.Import(e)
	definesArgs, importsCore := false, false
	ast.Inspect(setup.Body, func(x ast.Node) bool {
		if ce, ok := x.(*ast.CallExpr); ok {
			if se, ok := ce.Fun.(*ast.SelectorExpr); ok {
				if se.Sel.Name == "Define" && len(ce.Args) == 2 {
					if bl, ok := ce.Args[0].(*ast.BasicLit); ok && bl.Value == `"args"` {
						if id, ok := ce.Args[1].(*ast.Ident); ok && id.Name == "args" {
							definesArgs = true
						}
					}
				}
				if se.Sel.Name == "Import" {
					if x, ok := se.X.(*ast.Ident); ok && x.Name == "core" {
						importsCore = true
					}
				}
			}
		}
		return true
	})
	// main: os.Exit(exitCode) where exitCode = runNonInteractive()
	exitsWithCode := false
	ast.Inspect(mainFn.Body, func(x ast.Node) bool {
		if ce, ok := x.(*ast.CallExpr); ok {
			if se, ok := ce.Fun.(*ast.SelectorExpr); ok && se.Sel.Name == "Exit" && len(ce.Args) == 1 {
				if id, ok := ce.Args[0].(*ast.Ident); ok && id.Name == "exitCode" {
					exitsWithCode = true
				}
			}
		}
		return true
	})
	assignsRun := false
	ast.Inspect(mainFn.Body, func(x ast.Node) bool {
		if as, ok := x.(*ast.AssignStmt); ok && len(as.Lhs) == 1 && len(as.Rhs) == 1 {
			if id, ok := as.Lhs[0].(*ast.Ident); ok && id.Name == "exitCode" {
				if ce, ok := as.Rhs[0].(*ast.CallExpr); ok {
					if fn, ok := ce.Fun.(*ast.Ident); ok && fn.Name == "runNonInteractive" {
						assignsRun = true
					}
				}
			}
		}
		return true
	})
	var b strings.Builder
	b.WriteString("-- GENERATED by /verif/tools/cmd/extract from /repo/anko.go. Do not edit.\n")
	b.WriteString("namespace Anko.Gen.Cli\n\n")
	fmt.Fprintf(&b, "/-- exit status returned when the script file cannot be read, and diagnostic lines printed -/\ndef exitReadErr : Nat := %d\ndef diagReadErr : Nat := %d\n", readK, readPrints)
	fmt.Fprintf(&b, "/-- exit status returned when vm.Execute returns an error (parse or run), and diagnostic lines printed -/\ndef exitExecErr : Nat := %d\ndef diagExecErr : Nat := %d\n", execK, execPrints)
	fmt.Fprintf(&b, "/-- exit status on success, and lines the tool itself prints on the success path -/\ndef exitOk : Nat := %d\ndef diagOk : Nat := %d\n", okK, okPrints)
	fmt.Fprintf(&b, "def executeUsesPreparedEnv : Bool := %v\n", executeUsesE)
	fmt.Fprintf(&b, "def setupDefinesArgs : Bool := %v\ndef setupImportsCore : Bool := %v\ndef importsBundledPackages : Bool := %v\n", definesArgs, importsCore, importsPackages)
	fmt.Fprintf(&b, "def mainExitsWithRunResult : Bool := %v\n", exitsWithCode && assignsRun)
	b.WriteString("\nend Anko.Gen.Cli\n")
	return b.String(), nil
}
