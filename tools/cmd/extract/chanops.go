package main

import (
	"fmt"
	"go/ast"
	"go/parser"
	"go/token"
	"os"
	"path/filepath"
	"sort"
	"strings"
)

// genChanOps lists every place where the interpreter (vm/*.go, non-test) can block on a channel:
//   - reflect.Select calls, with whether the case list they are given starts with a receive from
//     runInfo.ctx.Done() (the cancellation case),
//   - blocking reflect.Value channel methods (Send / Recv) - there must be none,
//   - native channel operations outside a select that has a default or a ctx.Done() case,
//   - the loop / statement polls (select { case <-runInfo.ctx.Done(): ...; default: }).
func genChanOps() (string, error) {
	fset := token.NewFileSet()
	files, err := filepath.Glob(filepath.Join(repo, "vm", "*.go"))
	if err != nil {
		return "", err
	}
	sort.Strings(files)
	type sel struct {
		fn    string
		first bool
	}
	var selects []sel
	var bare, native, polls []string
	isCtxDone := func(e ast.Expr) bool {
		// runInfo.ctx.Done()
		ce, ok := e.(*ast.CallExpr)
		if !ok || len(ce.Args) != 0 {
			return false
		}
		se, ok := ce.Fun.(*ast.SelectorExpr)
		if !ok || se.Sel.Name != "Done" {
			return false
		}
		in, ok := se.X.(*ast.SelectorExpr)
		if !ok || in.Sel.Name != "ctx" {
			return false
		}
		id, ok := in.X.(*ast.Ident)
		return ok && id.Name == "runInfo"
	}
	for _, path := range files {
		if strings.HasSuffix(path, "_test.go") {
			continue
		}
		src, err := os.ReadFile(path)
		if err != nil {
			return "", err
		}
		f, err := parser.ParseFile(fset, path, src, 0)
		if err != nil {
			return "", err
		}
		for _, d := range f.Decls {
			fd, ok := d.(*ast.FuncDecl)
			if !ok || fd.Body == nil {
				continue
			}
			fn := fd.Name.Name
			// composite literals assigned to `cases` in this function, in order
			firstOK := map[string]bool{}
			ast.Inspect(fd.Body, func(n ast.Node) bool {
				as, ok := n.(*ast.AssignStmt)
				if !ok || len(as.Lhs) != 1 || len(as.Rhs) != 1 {
					return true
				}
				id, ok := as.Lhs[0].(*ast.Ident)
				cl, ok2 := as.Rhs[0].(*ast.CompositeLit)
				if !ok || !ok2 || len(cl.Elts) == 0 {
					return true
				}
				first, ok := cl.Elts[0].(*ast.CompositeLit)
				if !ok {
					firstOK[id.Name] = false
					return true
				}
				dirRecv, chanCtx := false, false
				for _, el := range first.Elts {
					kv, ok := el.(*ast.KeyValueExpr)
					if !ok {
						continue
					}
					k, _ := kv.Key.(*ast.Ident)
					if k == nil {
						continue
					}
					switch k.Name {
					case "Dir":
						if se, ok := kv.Value.(*ast.SelectorExpr); ok && se.Sel.Name == "SelectRecv" {
							dirRecv = true
						}
					case "Chan":
						if ce, ok := kv.Value.(*ast.CallExpr); ok && len(ce.Args) == 1 {
							if se, ok := ce.Fun.(*ast.SelectorExpr); ok && se.Sel.Name == "ValueOf" && isCtxDone(ce.Args[0]) {
								chanCtx = true
							}
						}
					}
				}
				firstOK[id.Name] = dirRecv && chanCtx
				return true
			})
			// walk with a stack to know the enclosing select clauses
			var visit func(n ast.Node, guarded bool)
			visit = func(n ast.Node, guarded bool) {
				if n == nil {
					return
				}
				switch x := n.(type) {
				case *ast.SelectStmt:
					hasDefault, hasCtx := false, false
					for _, c := range x.Body.List {
						cc := c.(*ast.CommClause)
						if cc.Comm == nil {
							hasDefault = true
							continue
						}
						if es, ok := cc.Comm.(*ast.ExprStmt); ok {
							if ue, ok := es.X.(*ast.UnaryExpr); ok && ue.Op == token.ARROW && isCtxDone(ue.X) {
								hasCtx = true
							}
						}
					}
					if hasCtx && hasDefault && len(x.Body.List) == 2 {
						polls = append(polls, fn)
					} else if !hasCtx && !hasDefault {
						native = append(native, fn+":select-without-ctx")
					}
					for _, c := range x.Body.List {
						cc := c.(*ast.CommClause)
						for _, s := range cc.Body {
							visit(s, false)
						}
					}
					return
				case *ast.SendStmt:
					if !guarded {
						native = append(native, fn+":send")
					}
				case *ast.UnaryExpr:
					if x.Op == token.ARROW && !guarded {
						native = append(native, fn+":recv")
					}
				case *ast.RangeStmt:
					// ranging over a channel cannot be told apart syntactically; the interpreter ranges over slices/maps only
				case *ast.CallExpr:
					if se, ok := x.Fun.(*ast.SelectorExpr); ok {
						switch se.Sel.Name {
						case "Send", "Recv", "TrySend", "TryRecv":
							bare = append(bare, fn+":"+se.Sel.Name)
						case "Select":
							if id, ok := se.X.(*ast.Ident); ok && id.Name == "reflect" {
								okFirst := false
								if len(x.Args) == 1 {
									if a, ok := x.Args[0].(*ast.Ident); ok {
										okFirst = firstOK[a.Name]
									}
								}
								selects = append(selects, sel{fn, okFirst})
							}
						}
					}
				case *ast.FuncLit:
					// function literals (goroutine bodies) are walked as part of the function
				}
				ast.Inspect(n, func(c ast.Node) bool {
					if c == n {
						return true
					}
					if c != nil {
						visit(c, false)
					}
					return false
				})
			}
			visit(fd.Body, false)
		}
	}
	var b strings.Builder
	b.WriteString("-- GENERATED by /verif/tools/cmd/extract (chanops.go) from vm/*.go; do not edit\n")
	b.WriteString("namespace Anko.Gen.ChanOps\n")
	b.WriteString("/-- reflect.Select calls: (function, its case list starts with a receive from runInfo.ctx.Done()) -/\n")
	b.WriteString("def selects : List (String × Bool) := [")
	for i, s := range selects {
		if i > 0 {
			b.WriteString(", ")
		}
		fmt.Fprintf(&b, "(%s, %v)", leanStr(s.fn), s.first)
	}
	b.WriteString("]\n")
	b.WriteString("/-- blocking reflect.Value channel methods called directly (function:method) -/\n")
	b.WriteString("def bareReflectOps : List String := " + leanStrList(bare) + "\n")
	b.WriteString("/-- native Go channel operations outside a select with ctx.Done() or default -/\n")
	b.WriteString("def nativeBlockingOps : List String := " + leanStrList(native) + "\n")
	b.WriteString("/-- functions containing a non-blocking poll `select { case <-runInfo.ctx.Done(): ...; default: }` -/\n")
	b.WriteString("def polls : List String := " + leanStrList(polls) + "\n")
	b.WriteString("end Anko.Gen.ChanOps\n")
	return b.String(), nil
}
