package main

import (
	"bytes"
	"fmt"
	"go/ast"
	"go/parser"
	"go/printer"
	"go/token"
	"path/filepath"
	"strings"
)

// genOperators writes down what every arm of the operator switches of vm/vmOperator.go does once both operands have been
// evaluated: for each `case "<op>":` of `switch operator.Operator` in invokeAddOperator, invokeMultiplyOperator and
// invokeComparisonOperator every leaf statement (assignments to the result, returns, defers) in source order, prefixed by the
// conditions (if / else / inner switch clauses) it stands under. lhsV is written L, runInfo.rv is written R. The facts are
// compared with a table written by hand next to the model's operator functions (Props/C05): a fast path, a different
// conversion, another Go operator, a changed guard or a new early return shows as a difference.
func genOperators() (string, error) {
	fset := token.NewFileSet()
	f, err := parser.ParseFile(fset, filepath.Join(repo, "vm", "vmOperator.go"), nil, 0)
	if err != nil {
		return "", err
	}
	text := func(n ast.Node) string {
		var b bytes.Buffer
		_ = printer.Fprint(&b, fset, n)
		s := strings.Join(strings.Fields(b.String()), " ")
		s = strings.ReplaceAll(s, "runInfo.rv", "R")
		s = strings.ReplaceAll(s, "lhsV", "L")
		s = strings.ReplaceAll(s, "runInfo.err", "E")
		s = strings.ReplaceAll(s, "reflect.", "")
		return s
	}
	type arm struct {
		fn, op, what string
		line         int
	}
	var arms []arm
	want := map[string]bool{"invokeAddOperator": false, "invokeMultiplyOperator": false, "invokeComparisonOperator": false}
	for _, d := range f.Decls {
		fd, ok := d.(*ast.FuncDecl)
		if !ok || fd.Body == nil {
			continue
		}
		if _, ok := want[fd.Name.Name]; !ok {
			continue
		}
		var sw *ast.SwitchStmt
		for _, s := range fd.Body.List {
			if x, ok := s.(*ast.SwitchStmt); ok && x.Tag != nil && text(x.Tag) == "operator.Operator" {
				if sw != nil {
					return "", fmt.Errorf("%s: two switches over operator.Operator", fd.Name.Name)
				}
				sw = x
			}
		}
		if sw == nil {
			return "", fmt.Errorf("%s: no switch over operator.Operator at the top level of the body", fd.Name.Name)
		}
		want[fd.Name.Name] = true
		// what happens between the evaluation of the operands and the switch belongs to every arm
		var walk func(op string, guards []string, stmts []ast.Stmt)
		emit := func(op string, guards []string, what string, n ast.Node) {
			gs := make([]string, len(guards))
			for i, x := range guards {
				gs[i] = x
				if len(guards) > 1 && (strings.Contains(x, " || ") || strings.Contains(x, " && ")) && !strings.HasPrefix(x, "!(") {
					gs[i] = "(" + x + ")"
				}
			}
			g := strings.Join(gs, " && ")
			if g != "" {
				g += " => "
			}
			arms = append(arms, arm{fd.Name.Name, op, g + what, fset.Position(n.Pos()).Line})
		}
		walk = func(op string, guards []string, stmts []ast.Stmt) {
			for _, s := range stmts {
				switch x := s.(type) {
				case *ast.IfStmt:
					if x.Init != nil {
						emit(op, guards, text(x.Init), x)
					}
					c := text(x.Cond)
					walk(op, append(append([]string{}, guards...), c), x.Body.List)
					switch e := x.Else.(type) {
					case nil:
					case *ast.BlockStmt:
						walk(op, append(append([]string{}, guards...), "!("+c+")"), e.List)
					default:
						walk(op, append(append([]string{}, guards...), "!("+c+")"), []ast.Stmt{e})
					}
				case *ast.SwitchStmt:
					tag := "true"
					if x.Tag != nil {
						tag = text(x.Tag)
					}
					if x.Init != nil {
						emit(op, guards, text(x.Init), x)
					}
					for _, c := range x.Body.List {
						cc := c.(*ast.CaseClause)
						g := tag + " default"
						if cc.List != nil {
							var vs []string
							for _, v := range cc.List {
								vs = append(vs, text(v))
							}
							g = tag + " in {" + strings.Join(vs, ", ") + "}"
						}
						if len(cc.Body) == 0 {
							emit(op, append(append([]string{}, guards...), g), "(nothing)", cc)
						}
						walk(op, append(append([]string{}, guards...), g), cc.Body)
					}
				case *ast.BlockStmt:
					walk(op, guards, x.List)
				default:
					emit(op, guards, text(s), s)
				}
			}
		}
		for _, s := range fd.Body.List {
			if s == ast.Stmt(sw) {
				break
			}
			walk("(before)", nil, []ast.Stmt{s})
		}
		for _, c := range sw.Body.List {
			cc := c.(*ast.CaseClause)
			op := "default"
			if cc.List != nil {
				var vs []string
				for _, v := range cc.List {
					lit, ok := v.(*ast.BasicLit)
					if !ok || lit.Kind != token.STRING {
						return "", fmt.Errorf("%s: case value %s is not a string literal", fd.Name.Name, text(v))
					}
					vs = append(vs, strings.Trim(lit.Value, "\""))
				}
				op = strings.Join(vs, ",")
			}
			walk(op, nil, cc.Body)
		}
		// statements before the switch (the evaluation of the operands) and after it run for every arm that does not return
		after := false
		for _, s := range fd.Body.List {
			if s == ast.Stmt(sw) {
				after = true
				continue
			}
			if after {
				walk("(after)", nil, []ast.Stmt{s})
			}
		}
	}
	for fn, seen := range want {
		if !seen {
			return "", fmt.Errorf("function %s not found in vm/vmOperator.go", fn)
		}
	}
	var b strings.Builder
	b.WriteString("-- GENERATED by /verif/tools/cmd/extract from /repo/vm/vmOperator.go (what every arm of the operator switches does). Do not edit.\n")
	b.WriteString("namespace Anko.Gen.Operators\n\n")
	b.WriteString("/-- (function, operator, \"conditions => statement\") for every leaf statement of every arm, in source order; L = lhsV (the\nleft operand, unwrapped and unaliased), R = runInfo.rv (the right operand, unwrapped), E = runInfo.err -/\n")
	b.WriteString("def arms : List (String × String × String) := [\n")
	for i, a := range arms {
		sep := ","
		if i == len(arms)-1 {
			sep = ""
		}
		fmt.Fprintf(&b, "  (%s, %s, %s)%s  -- line %d\n", leanStr(a.fn), leanStr(a.op), leanStr(a.what), sep, a.line)
	}
	b.WriteString("]\n\nend Anko.Gen.Operators\n")
	return b.String(), nil
}
