package main

import (
	"fmt"
	"go/ast"
	"go/parser"
	"go/token"
	"os"
	"path/filepath"
	"sort"
	"strconv"
	"strings"
)

type pkgEntry struct {
	Table    string // "value" or "type"
	Package  string // key of env.Packages / env.PackageTypes
	Key      string
	PkgIdent string // Go package identifier used in the bound expression ("" = local symbol)
	Sel      string // selected (or local) identifier
	File     string
	Depth    int // pointer indirections of the registered type relative to the named symbol: & counts +1, .Elem() and * count -1
}

// ptrDepth counts the pointer indirections an entry expression adds to the symbol it names.
func ptrDepth(e ast.Expr) int {
	switch x := e.(type) {
	case *ast.CallExpr:
		if se, ok := x.Fun.(*ast.SelectorExpr); ok {
			if se.Sel.Name == "Elem" {
				return ptrDepth(se.X) - 1
			}
			if id, ok := se.X.(*ast.Ident); ok && id.Name == "reflect" && len(x.Args) == 1 {
				return ptrDepth(x.Args[0])
			}
		}
		if pe, ok := x.Fun.(*ast.ParenExpr); ok && len(x.Args) == 1 {
			// conversion (*T)(nil)
			return ptrDepth(pe.X)
		}
		return 0
	case *ast.UnaryExpr:
		if x.Op == token.AND {
			return ptrDepth(x.X) + 1
		}
		return ptrDepth(x.X)
	case *ast.StarExpr:
		// a type expression *T (inside a conversion) adds one, a dereference removes one; only the former occurs in tables
		return ptrDepth(x.X) + 1
	case *ast.ParenExpr:
		return ptrDepth(x.X)
	}
	return 0
}

// coreSelector finds the symbol an entry binds: pkg.Sel possibly wrapped in &, {}, (0), .Elem().
func coreSelector(e ast.Expr) (pkg, sel string, ok bool) {
	switch x := e.(type) {
	case *ast.SelectorExpr:
		if id, isId := x.X.(*ast.Ident); isId {
			return id.Name, x.Sel.Name, true
		}
		return coreSelector(x.X)
	case *ast.Ident:
		return "", x.Name, true
	case *ast.UnaryExpr:
		return coreSelector(x.X)
	case *ast.CompositeLit:
		return coreSelector(x.Type)
	case *ast.CallExpr:
		// conversion T(0) or method call x.Elem()
		return coreSelector(x.Fun)
	case *ast.ParenExpr:
		return coreSelector(x.X)
	case *ast.StarExpr:
		return coreSelector(x.X)
	}
	return "", "", false
}

func readPackages() ([]pkgEntry, map[string]map[string]string, error) {
	dir := filepath.Join(repo, "packages")
	files, err := os.ReadDir(dir)
	if err != nil {
		return nil, nil, err
	}
	fset := token.NewFileSet()
	var entries []pkgEntry
	imports := map[string]map[string]string{} // file -> ident -> import path
	tableOf := func(e ast.Expr) (table, pkg string, ok bool) {
		// env.Packages["p"] or env.PackageTypes["p"]
		ix, isIx := e.(*ast.IndexExpr)
		if !isIx {
			return
		}
		se, isSel := ix.X.(*ast.SelectorExpr)
		if !isSel {
			return
		}
		if id, isId := se.X.(*ast.Ident); !isId || id.Name != "env" {
			return
		}
		bl, isLit := ix.Index.(*ast.BasicLit)
		if !isLit {
			return
		}
		p, _ := strconv.Unquote(bl.Value)
		switch se.Sel.Name {
		case "Packages":
			return "value", p, true
		case "PackageTypes":
			return "type", p, true
		}
		return
	}
	var bound func(e ast.Expr, want string) (ast.Expr, bool)
	bound = func(e ast.Expr, want string) (ast.Expr, bool) {
		// reflect.ValueOf(X) / reflect.TypeOf(X) possibly followed by .Elem()
		ce, ok := e.(*ast.CallExpr)
		if !ok {
			return nil, false
		}
		se, ok := ce.Fun.(*ast.SelectorExpr)
		if !ok {
			return nil, false
		}
		if se.Sel.Name == "Elem" {
			return bound(se.X, want)
		}
		if id, ok := se.X.(*ast.Ident); !ok || id.Name != "reflect" {
			return nil, false
		}
		if len(ce.Args) != 1 {
			return nil, false
		}
		return ce.Args[0], true
	}
	for _, fi := range files {
		if !strings.HasSuffix(fi.Name(), ".go") || strings.HasSuffix(fi.Name(), "_test.go") {
			continue
		}
		f, err := parser.ParseFile(fset, filepath.Join(dir, fi.Name()), nil, 0)
		if err != nil {
			return nil, nil, err
		}
		im := map[string]string{}
		for _, is := range f.Imports {
			p, _ := strconv.Unquote(is.Path.Value)
			name := p[strings.LastIndex(p, "/")+1:]
			if is.Name != nil {
				name = is.Name.Name
			}
			im[name] = p
		}
		imports[fi.Name()] = im
		var ferr error
		ast.Inspect(f, func(n ast.Node) bool {
			as, ok := n.(*ast.AssignStmt)
			if !ok || len(as.Lhs) != 1 || len(as.Rhs) != 1 {
				return true
			}
			// env.Packages["p"] = map[string]reflect.Value{...}
			if table, pkg, ok := tableOf(as.Lhs[0]); ok {
				cl, ok := as.Rhs[0].(*ast.CompositeLit)
				if !ok {
					ferr = fmt.Errorf("%s: table %s is not assigned a composite literal", fi.Name(), pkg)
					return false
				}
				for _, el := range cl.Elts {
					kv, ok := el.(*ast.KeyValueExpr)
					if !ok {
						ferr = fmt.Errorf("%s: non key-value element in table %s", fi.Name(), pkg)
						return false
					}
					kl, ok := kv.Key.(*ast.BasicLit)
					if !ok {
						ferr = fmt.Errorf("%s: non-literal key in table %s", fi.Name(), pkg)
						return false
					}
					key, _ := strconv.Unquote(kl.Value)
					x, ok := bound(kv.Value, table)
					if !ok {
						ferr = fmt.Errorf("%s: entry %s.%s is not reflect.ValueOf/TypeOf(...)", fi.Name(), pkg, key)
						return false
					}
					pi, sel, ok := coreSelector(x)
					if !ok {
						ferr = fmt.Errorf("%s: entry %s.%s binds an unrecognised expression", fi.Name(), pkg, key)
						return false
					}
					entries = append(entries, pkgEntry{table, pkg, key, pi, sel, fi.Name(), ptrDepth(kv.Value)})
				}
				return false
			}
			// env.Packages["p"]["Key"] = reflect.ValueOf(X)
			if ix, ok := as.Lhs[0].(*ast.IndexExpr); ok {
				if table, pkg, ok := tableOf(ix.X); ok {
					kl, ok := ix.Index.(*ast.BasicLit)
					if !ok {
						ferr = fmt.Errorf("%s: non-literal key in table %s", fi.Name(), pkg)
						return false
					}
					key, _ := strconv.Unquote(kl.Value)
					x, ok := bound(as.Rhs[0], table)
					if !ok {
						ferr = fmt.Errorf("%s: entry %s.%s is not reflect.ValueOf/TypeOf(...)", fi.Name(), pkg, key)
						return false
					}
					pi, sel, ok := coreSelector(x)
					if !ok {
						ferr = fmt.Errorf("%s: entry %s.%s binds an unrecognised expression", fi.Name(), pkg, key)
						return false
					}
					entries = append(entries, pkgEntry{table, pkg, key, pi, sel, fi.Name(), ptrDepth(as.Rhs[0])})
				}
			}
			return true
		})
		if ferr != nil {
			return nil, nil, ferr
		}
	}
	sort.Slice(entries, func(i, j int) bool {
		a, b := entries[i], entries[j]
		if a.Package != b.Package {
			return a.Package < b.Package
		}
		if a.Table != b.Table {
			return a.Table < b.Table
		}
		if a.Key != b.Key {
			return a.Key < b.Key
		}
		return a.File < b.File
	})
	return entries, imports, nil
}

func genPackages() (string, error) {
	entries, imports, err := readPackages()
	if err != nil {
		return "", err
	}
	if len(entries) < 100 {
		return "", fmt.Errorf("only %d package table entries found", len(entries))
	}
	var b strings.Builder
	b.WriteString("-- GENERATED by /verif/tools/cmd/extract from /repo/packages/*.go. Do not edit.\n")
	b.WriteString("namespace Anko.Gen\n\n")
	b.WriteString("structure PkgEntry where\n  isType : Bool\n  pkg : String        -- name offered to import()\n  key : String        -- name the symbol is listed under\n  importPath : String -- Go import path of the package identifier used (\"\" = symbol local to packages/)\n  sel : String        -- Go symbol bound\n  deriving Repr, DecidableEq\n\n")
	b.WriteString("def packageEntries : List PkgEntry := [\n")
	for i, e := range entries {
		ip := ""
		if e.PkgIdent != "" {
			ip = imports[e.File][e.PkgIdent]
			if ip == "" {
				return "", fmt.Errorf("%s: identifier %s of entry %s.%s is not an imported package", e.File, e.PkgIdent, e.Package, e.Key)
			}
		}
		if i > 0 {
			b.WriteString(",\n")
		}
		fmt.Fprintf(&b, "  ⟨%v, %s, %s, %s, %s⟩", e.Table == "type", leanStr(e.Package), leanStr(e.Key), leanStr(ip), leanStr(e.Sel))
	}
	b.WriteString("\n]\n\n")
	b.WriteString("/-- (package, key, pointer indirections the registered type adds to the named Go type) for every type entry -/\n")
	b.WriteString("def packageTypeDepths : List (String × String × Int) := [\n")
	first := true
	for _, e := range entries {
		if e.Table != "type" {
			continue
		}
		if !first {
			b.WriteString(",\n")
		}
		first = false
		fmt.Fprintf(&b, "  (%s, %s, %d)", leanStr(e.Package), leanStr(e.Key), e.Depth)
	}
	b.WriteString("\n]\n\nend Anko.Gen\n")
	return b.String(), nil
}
