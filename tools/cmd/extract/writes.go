package main

import (
	"fmt"
	"go/ast"
	"go/importer"
	"go/parser"
	"go/token"
	"go/types"
	"os"
	"path/filepath"
	"sort"
	"strings"
)

// genAstWrites type-checks vm/, env/ and parser/lexer.go and lists
//   - every assignment (or SetPosition call) whose target is a field of an ast node that was not
//     allocated in the same function, and
//   - every assignment to a package-level variable outside init functions and declarations.
func genAstWrites() (string, error) {
	cwd, _ := os.Getwd()
	if err := os.Chdir(repo); err != nil {
		return "", err
	}
	defer os.Chdir(cwd)
	fset := token.NewFileSet()
	imp := importer.ForCompiler(fset, "source", nil)
	type pkgSpec struct {
		dir   string
		path  string
		files []string // nil = all non-test .go files
	}
	pkgs := []pkgSpec{
		{"vm", "github.com/mattn/anko/vm", nil},
		{"env", "github.com/mattn/anko/env", nil},
		{"parser", "github.com/mattn/anko/parser", nil},
	}
	var astWrites, globalWrites []string
	for _, ps := range pkgs {
		entries, err := os.ReadDir(filepath.Join(repo, ps.dir))
		if err != nil {
			return "", err
		}
		var files []*ast.File
		realName := map[*ast.File]string{}
		for _, e := range entries {
			n := e.Name()
			if !strings.HasSuffix(n, ".go") || strings.HasSuffix(n, "_test.go") || strings.Contains(n, "NotGo1") {
				continue
			}
			f, err := parser.ParseFile(fset, filepath.Join(repo, ps.dir, n), nil, 0)
			if err != nil {
				return "", err
			}
			files = append(files, f)
			realName[f] = n
		}
		info := &types.Info{Types: map[ast.Expr]types.TypeAndValue{}, Uses: map[*ast.Ident]types.Object{}, Defs: map[*ast.Ident]types.Object{}}
		conf := types.Config{Importer: imp, Error: func(error) {}}
		pkg, _ := conf.Check(ps.path, fset, files, info)
		if pkg == nil {
			return "", fmt.Errorf("type-checking %s failed", ps.path)
		}
		isAstNode := func(t types.Type) bool {
			if t == nil {
				return false
			}
			if p, ok := t.(*types.Pointer); ok {
				t = p.Elem()
			}
			n, ok := t.(*types.Named)
			if !ok || n.Obj().Pkg() == nil {
				return false
			}
			if n.Obj().Pkg().Path() != "github.com/mattn/anko/ast" {
				return false
			}
			if n.Obj().Name() == "Token" || n.Obj().Name() == "Position" {
				return false // lexer token / plain position value, not part of a tree
			}
			// interfaces ast.Expr / ast.Stmt / ast.Operator count as nodes too
			return true
		}
		for _, f := range files {
			if ps.dir == "parser" && realName[f] == "parser.go" {
				continue // goyacc output: the parser builds the tree, it does not execute it
			}
			for _, d := range f.Decls {
				fd, ok := d.(*ast.FuncDecl)
				if !ok || fd.Body == nil {
					continue
				}
				// locals allocated here by &ast.T{...}
				local := map[types.Object]bool{}
				localExprs := map[string]bool{}
				ast.Inspect(fd.Body, func(n ast.Node) bool {
					as, ok := n.(*ast.AssignStmt)
					if !ok {
						return true
					}
					for i, lhs := range as.Lhs {
						if _, isId := lhs.(*ast.Ident); !isId && i < len(as.Rhs) {
							if ue, ok := as.Rhs[i].(*ast.UnaryExpr); ok && ue.Op == token.AND {
								if _, ok := ue.X.(*ast.CompositeLit); ok {
									localExprs[exprString(lhs)] = true
								}
							}
						}
						id, ok := lhs.(*ast.Ident)
						if !ok || i >= len(as.Rhs) {
							continue
						}
						if ue, ok := as.Rhs[i].(*ast.UnaryExpr); ok && ue.Op == token.AND {
							if _, ok := ue.X.(*ast.CompositeLit); ok {
								if obj := info.Defs[id]; obj != nil {
									local[obj] = true
								} else if obj := info.Uses[id]; obj != nil {
									local[obj] = true
								}
							}
						}
					}
					return true
				})
				rootObj := func(e ast.Expr) types.Object {
					for {
						switch x := e.(type) {
						case *ast.SelectorExpr:
							e = x.X
						case *ast.IndexExpr:
							e = x.X
						case *ast.StarExpr:
							e = x.X
						case *ast.ParenExpr:
							e = x.X
						case *ast.TypeAssertExpr:
							e = x.X
						case *ast.Ident:
							if o := info.Uses[x]; o != nil {
								return o
							}
							return info.Defs[x]
						default:
							return nil
						}
					}
				}
				// does the path from the root to the assigned field pass through an ast node?
				touchesAst := func(e ast.Expr) bool {
					for {
						switch x := e.(type) {
						case *ast.SelectorExpr:
							if tv, ok := info.Types[x.X]; ok && isAstNode(tv.Type) {
								return true
							}
							e = x.X
						case *ast.IndexExpr:
							e = x.X
						case *ast.StarExpr:
							e = x.X
						case *ast.ParenExpr:
							e = x.X
						default:
							return false
						}
					}
				}
				where := func(n ast.Node) string {
					p := fset.Position(n.Pos())
					return fmt.Sprintf("%s/%s:%s", ps.dir, filepath.Base(p.Filename), fd.Name.Name)
				}
				ast.Inspect(fd.Body, func(n ast.Node) bool {
					switch x := n.(type) {
					case *ast.AssignStmt:
						for _, lhs := range x.Lhs {
							if _, isIdent := lhs.(*ast.Ident); !isIdent && touchesAst(lhs) {
								if o := rootObj(lhs); o == nil || !local[o] {
									astWrites = append(astWrites, where(x)+" assigns "+exprString(lhs))
								}
							}
							// package-level variable targets
							if o := rootObj(lhs); o != nil {
								if v, ok := o.(*types.Var); ok && !v.IsField() && v.Parent() == pkg.Scope() && fd.Name.Name != "init" {
									globalWrites = append(globalWrites, where(x)+" writes "+v.Name())
								}
							}
						}
					case *ast.IncDecStmt:
						if o := rootObj(x.X); o != nil {
							if v, ok := o.(*types.Var); ok && !v.IsField() && v.Parent() == pkg.Scope() && fd.Name.Name != "init" {
								globalWrites = append(globalWrites, where(x)+" writes "+v.Name())
							}
						}
					case *ast.CallExpr:
						if se, ok := x.Fun.(*ast.SelectorExpr); ok && se.Sel.Name == "SetPosition" {
							if tv, ok := info.Types[se.X]; ok && isAstNode(tv.Type) {
								if o := rootObj(se.X); (o == nil || !local[o]) && !localExprs[exprString(se.X)] {
									// a node freshly allocated in this function (x := &ast.T{} or r.f = &ast.T{}) may be positioned
									astWrites = append(astWrites, where(x)+" calls SetPosition on "+exprString(se.X))
								}
							}
						}
					}
					return true
				})
			}
		}
	}
	sort.Strings(astWrites)
	sort.Strings(globalWrites)
	var b strings.Builder
	b.WriteString("-- GENERATED by /verif/tools/cmd/extract (go/types over vm/, env/, parser/lexer.go). Do not edit.\n")
	b.WriteString("namespace Anko.Gen\n\n")
	b.WriteString("/-- writes to fields of AST nodes that were not allocated in the writing function -/\n")
	b.WriteString("def astWrites : List String := " + leanStrList(astWrites) + "\n\n")
	b.WriteString("/-- writes to package-level variables outside init functions -/\n")
	b.WriteString("def globalWrites : List String := " + leanStrList(globalWrites) + "\n\n")
	b.WriteString("end Anko.Gen\n")
	return b.String(), nil
}

func exprString(e ast.Expr) string {
	switch x := e.(type) {
	case *ast.Ident:
		return x.Name
	case *ast.SelectorExpr:
		return exprString(x.X) + "." + x.Sel.Name
	case *ast.IndexExpr:
		return exprString(x.X) + "[...]"
	case *ast.StarExpr:
		return "*" + exprString(x.X)
	case *ast.ParenExpr:
		return "(" + exprString(x.X) + ")"
	case *ast.TypeAssertExpr:
		return exprString(x.X) + ".(T)"
	case *ast.CallExpr:
		return exprString(x.Fun) + "(...)"
	}
	return fmt.Sprintf("%T", e)
}
