package main

import (
	"fmt"
	"go/ast"
	"go/parser"
	"go/token"
	"os"
	"path/filepath"
	"sort"
	"strings"
)

// The second generation of literal flow tables: every function of the interpreter, the scanner, the builtins and the
// command-line tool that the hand-written model mirrors and that no earlier Gen module pins, leaf statement by leaf
// statement with the conditions each stands under (guardedLeaves), grouped by the property whose model mirrors them.
// The tables are compared (`decide +kernel`) with the ones kept in lean/Anko/Props/*FlowTable.lean.

func vmRename(s string) string {
	s = strings.ReplaceAll(s, "runInfo.err", "E")
	s = strings.ReplaceAll(s, "runInfo.rv", "R")
	s = strings.ReplaceAll(s, "runInfo.", "ri.")
	s = strings.ReplaceAll(s, "reflect.", "")
	return s
}

func plainRename(s string) string { return strings.ReplaceAll(s, "reflect.", "") }

type flowGroup struct {
	name   string
	doc    string
	files  []string
	fns    []string
	rename func(string) string
}

var flowGroups = []flowGroup{
	{"ExprFlow", "how expressions evaluate their operands: the dispatcher of invokeExpr (identifiers, literals, parentheses, function literals, operators) and the forms with several operands - list and map literals, ?:, ??, assignment expressions, in, and the short-circuit operators && and ||",
		[]string{"vm/vmExpr.go", "vm/vmOperator.go"},
		[]string{"invokeExpr", "invokeArrayExpr", "invokeMapExpr", "invokeTernaryOpExpr", "invokeNilCoalescingOpExpr", "invokeLetsExpr", "invokeIncludeExpr", "invokeBinaryOperator"}, vmRename},
	{"ContFlow", "the container paths: index, slice, len, member and make expressions, every assignment target (vm/vmLetExpr.go), the map / append / hashability helpers, delete and the two-value map read",
		[]string{"vm/vmExpr.go", "vm/vmLetExpr.go", "vm/vm.go", "vm/vmStmt.go"},
		[]string{"invokeItemExpr", "invokeSliceExpr", "invokeLenExpr", "invokeMemberExpr", "invokeMakeExpr",
			"invokeLetExpr", "invokeLetMemberExpr", "invokeLetItemExpr", "invokeLetItemSlice", "invokeLetItemMap", "invokeLetItemString", "invokeLetSliceExpr", "invokeLetDerefExpr",
			"getMapIndex", "appendSlice", "isHashable", "hashableTypeString", "runDeleteStmt", "runLetMapItemStmt"}, vmRename},
	{"ProvFlow", "where a value is opened (interface, pointer) or copied out of its slot: unary operators, dereference, address-of, unalias, containerOperand, isNil",
		[]string{"vm/vmExpr.go", "vm/vm.go"},
		[]string{"invokeUnaryExpr", "invokeDerefExpr", "invokeAddrExpr", "unalias", "containerOperand", "isNil"}, vmRename},
	{"ConvFlow", "the conversion of a value to a Go type at the boundary (vm/vmConvertToX.go, convertMap)",
		[]string{"vm/vmConvertToX.go", "vm/vmConvertToXGo112.go"},
		[]string{"reflectValueSlicetoInterfaceSlice", "convertReflectValueToType", "convertSliceOrArray", "convertVMFunctionToType", "convertMap"}, vmRename},
	{"BindFlow", "where bindings and scopes are made: function literals (funcExpr), module, var and assignment statements",
		[]string{"vm/vmExprFunction.go", "vm/vmStmt.go"},
		[]string{"funcExpr", "checkIfRunVMFunction", "runModuleStmt", "runVarStmt", "runLetsStmt"}, vmRename},
	{"ToXFlow", "the conversions of the numeric tower (vm/vmToX.go) and the kind helpers of vm/vm.go",
		[]string{"vm/vmToX.go", "vm/vm.go", "vm/vmOperator.go"},
		[]string{"toString", "toBool", "tryToBool", "toFloat64", "tryToFloat64", "toInt64", "tryToInt64", "toInt", "tryToInt",
			"numToString", "isIntKind", "precedenceOfKinds", "float64Value", "sliceOfArray", "invokeOperator"}, vmRename},
	{"CoreFlow", "the builtins of core/core.go and core/toX.go (keys, range, typeOf, kindOf, defined, load, print*, the toX family)",
		[]string{"core/core.go", "core/toX.go"},
		[]string{"Import", "ImportToX", "toSlice"}, plainRename},
	{"RunFlow", "the entry points (Execute, ExecuteContext, Run, RunContext), recoverFunc and the construction of types and values (makeType, getTypeFromEnv, makeValue, make(type ...))",
		[]string{"vm/vmStmt.go", "vm/vm.go", "vm/vmExpr.go"},
		[]string{"Execute", "ExecuteContext", "Run", "RunContext", "recoverFunc", "makeType", "getTypeFromEnv", "makeValue", "invokeMakeTypeExpr", "newError", "newStringError"}, vmRename},
	{"ChanFlow", "the channel forms: receive / send expression, send and receive statements, close",
		[]string{"vm/vmExpr.go", "vm/vmStmt.go"},
		[]string{"invokeChanExpr", "runChanStmt", "runCloseStmt"}, vmRename},
	{"SingleStmtFlow", "the statement dispatcher (expression statements, throw, break / continue, go) and the statements around an invocation's end: return, defer, the call of a deferred function",
		[]string{"vm/vmStmt.go"},
		[]string{"runSingleStmt", "runReturnStmt", "runDeferStmt", "callDeferredFunc"}, vmRename},
	{"ImportFlow", "import(...): where the package tables are read and what is bound",
		[]string{"vm/vmExpr.go"},
		[]string{"invokeImportExpr"}, vmRename},
	{"LexFlow", "every function of the scanner and the parser's entry points (parser/lexer.go)",
		[]string{"parser/lexer.go"},
		[]string{"Init", "Scan", "peek", "peekPlus", "next", "current", "set", "back", "reachEOF", "pos", "skipBlank", "scanIdentifier", "scanNumber", "scanRawString", "scanString",
			"Lex", "Lexer.Error", "Parse", "ParseSrc", "toNumber", "stringToValue"}, plainRename},
	{"CliFlow", "every function of the command-line tool (anko.go)",
		[]string{"anko.go"},
		[]string{"main", "parseFlags", "setupEnv", "runNonInteractive", "runInteractive"}, plainRename},
}

func genFlowGroup(g flowGroup) func() (string, error) {
	return func() (string, error) {
		return leafTable(g.name, "(function, \"conditions => statement\") for every leaf statement, in source order; E = runInfo.err, R = runInfo.rv, ri.<field> the other fields: "+g.doc,
			g.files, g.fns, g.rename)
	}
}

// genGrammar: every production of parser/parser.go.y with its semantic action, and the %type / %token / %union declarations,
// as (left-hand side, "right-hand side => action") rows in source order. (The precedence declarations are Gen/Prec; that the
// committed parser.go is goyacc's output for this file is Gen/ParserGen.)
func genGrammar() (string, error) {
	yb, err := os.ReadFile(filepath.Join(repo, "parser", "parser.go.y"))
	if err != nil {
		return "", err
	}
	lines := strings.Split(string(yb), "\n")
	first, second := -1, -1
	for i, l := range lines {
		if strings.TrimSpace(l) == "%%" {
			if first < 0 {
				first = i
			} else if second < 0 {
				second = i
			}
		}
	}
	if first < 0 || second < 0 {
		return "", fmt.Errorf("parser.go.y: the two %%%% separators were not found")
	}
	squash := func(s string) string { return strings.Join(strings.Fields(s), " ") }
	var rows [][2]string
	for _, l := range lines[:first] {
		t := strings.TrimSpace(l)
		if strings.HasPrefix(t, "%type") || strings.HasPrefix(t, "%token") {
			rows = append(rows, [2]string{"%", squash(t)})
		}
	}
	// brace depth of a line outside quotes
	depthOf := func(l string) int {
		d := 0
		var q rune
		esc := false
		for _, c := range l {
			if q != 0 {
				if esc {
					esc = false
				} else if c == '\\' {
					esc = true
				} else if c == q {
					q = 0
				}
				continue
			}
			switch c {
			case '"', '\'', '`':
				q = c
			case '{':
				d++
			case '}':
				d--
			}
		}
		return d
	}
	lhs := ""
	var rhs []string
	var action []string
	depth := 0
	haveAlt := false
	flush := func() {
		if lhs != "" && haveAlt {
			rows = append(rows, [2]string{lhs, squash(strings.Join(rhs, " ")) + " => " + squash(strings.Join(action, " "))})
		}
		rhs, action, haveAlt = nil, nil, false
	}
	for _, l := range lines[first+1 : second] {
		t := strings.TrimSpace(l)
		if depth > 0 {
			action = append(action, t)
			depth += depthOf(l)
			continue
		}
		if t == "" {
			continue
		}
		if t == "{" {
			depth = 1
			action = append(action, t)
			haveAlt = true
			continue
		}
		if !strings.HasPrefix(l, "\t") && !strings.HasPrefix(l, " ") && strings.HasSuffix(t, ":") {
			flush()
			lhs = strings.TrimSpace(strings.TrimSuffix(t, ":"))
			continue
		}
		if strings.HasPrefix(t, "|") {
			flush()
			t = strings.TrimSpace(strings.TrimPrefix(t, "|"))
		}
		if lhs == "" {
			return "", fmt.Errorf("parser.go.y: text outside a rule: %q", t)
		}
		haveAlt = true
		rhs = append(rhs, t)
	}
	flush()
	if depth != 0 {
		return "", fmt.Errorf("parser.go.y: unbalanced action braces")
	}
	var b strings.Builder
	b.WriteString("-- GENERATED by /verif/tools/cmd/extract from parser/parser.go.y. Do not edit.\nnamespace Anko.Gen.Grammar\n\n")
	b.WriteString("/-- (left-hand side, \"right-hand side => action\") for every production, in source order; \"%\" rows are the %type / %token declarations -/\n")
	b.WriteString("def leaves : List (String × String) := [\n")
	var rs []string
	for _, r := range rows {
		rs = append(rs, fmt.Sprintf("  (%s, %s)", leanStr(r[0]), leanStr(r[1])))
	}
	b.WriteString(strings.Join(rs, ",\n"))
	b.WriteString("\n]\n\nend Anko.Gen.Grammar\n")
	return b.String(), nil
}

// genInventory: every top-level declaration (func / method, var, const, type) of every non-test Go file of the packages the
// properties are anchored in, as (package directory, file, "kind name") rows sorted by file and position. A function, table or
// file ADDED anywhere in these packages - code that no flow table can pin because it did not exist when the tables were
// audited - breaks the inventory tie of the package by name.
func genInventory() (string, error) {
	dirs := []string{".", "ast", "ast/astutil", "core", "env", "parser", "vm", "packages"}
	fset := token.NewFileSet()
	type row struct{ dir, file, what string }
	var rows []row
	for _, d := range dirs {
		ents, err := os.ReadDir(filepath.Join(repo, d))
		if err != nil {
			return "", err
		}
		var names []string
		for _, e := range ents {
			n := e.Name()
			if e.IsDir() || !strings.HasSuffix(n, ".go") || strings.HasSuffix(n, "_test.go") {
				continue
			}
			if d == "parser" && n == "parser.go" {
				continue // goyacc's output: pinned through Gen/ParserGen and Gen/Grammar
			}
			names = append(names, n)
		}
		sort.Strings(names)
		for _, n := range names {
			f, err := parser.ParseFile(fset, filepath.Join(repo, d, n), nil, 0)
			if err != nil {
				return "", err
			}
			if d == "packages" {
				// the package tables are Gen/Packages; here only which files exist and what else they declare besides init
				rows = append(rows, row{d, n, "file"})
			}
			for _, decl := range f.Decls {
				switch x := decl.(type) {
				case *ast.FuncDecl:
					name := x.Name.Name
					if x.Recv != nil && len(x.Recv.List) == 1 {
						rt := x.Recv.List[0].Type
						if st, ok := rt.(*ast.StarExpr); ok {
							rt = st.X
						}
						if id, ok := rt.(*ast.Ident); ok {
							name = id.Name + "." + name
						}
					}
					if d == "packages" && name == "init" {
						continue
					}
					rows = append(rows, row{d, n, "func " + name})
				case *ast.GenDecl:
					kind := x.Tok.String()
					if kind == "import" {
						continue
					}
					for _, sp := range x.Specs {
						switch s := sp.(type) {
						case *ast.ValueSpec:
							for _, id := range s.Names {
								rows = append(rows, row{d, n, kind + " " + id.Name})
							}
						case *ast.TypeSpec:
							what := "type " + s.Name.Name
							if st, ok := s.Type.(*ast.StructType); ok {
								// the fields are part of the declaration - also for the node types of ast/ (Gen/AstSchema lists their CHILD slots only; a
								// scratch field added to a node, a cache, would otherwise go unnoticed)
								var fs []string
								for _, fl := range st.Fields.List {
									if len(fl.Names) == 0 {
										fs = append(fs, "(embedded)")
									}
									for _, id := range fl.Names {
										fs = append(fs, id.Name)
									}
								}
								what += " {" + strings.Join(fs, ", ") + "}"
							}
							rows = append(rows, row{d, n, what})
						}
					}
				}
			}
		}
	}
	var b strings.Builder
	b.WriteString("-- GENERATED by /verif/tools/cmd/extract from the Go files of /repo (top-level declarations). Do not edit.\nnamespace Anko.Gen.Inventory\n\n")
	b.WriteString("/-- (package directory, file, \"kind name\") for every top-level declaration of every non-test Go file, by package, file and position -/\n")
	b.WriteString("def decls : List (String × String × String) := [\n")
	var rs []string
	for _, r := range rows {
		rs = append(rs, fmt.Sprintf("  (%s, %s, %s)", leanStr(r.dir), leanStr(r.file), leanStr(r.what)))
	}
	b.WriteString(strings.Join(rs, ",\n"))
	b.WriteString("\n]\n\nend Anko.Gen.Inventory\n")
	return b.String(), nil
}
