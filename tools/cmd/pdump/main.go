package main

import (
	"fmt"
	"os"

	"github.com/mattn/anko/parser"
	"veriftools/internal/astser"
)

func main() {
	for _, src := range os.Args[1:] {
		s, err := parser.ParseSrc(src)
		fmt.Printf("%q\n  err=%v\n  %s\n", src, err, astser.Dump(s, 0))
	}
}
