package main

import (
	"context"
	"fmt"
	"os"
	"path/filepath"

	"github.com/mattn/anko/core"
	"github.com/mattn/anko/env"
	"github.com/mattn/anko/parser"
	"github.com/mattn/anko/vm"
)

// isolationLater: what an EARLIER run did to things outside every environment - the context it ran under, the process's
// working directory - does not show in later runs of the same tree in fresh environments.
func isolationLater(o *Out) {
	fail := func(key, input, detail string) {
		o.Fail(Failure{Oracle: "runs-share-no-hidden-state", Key: key, Input: input, Detail: detail})
	}
	// (1) a library environment filled by a run whose context is cancelled once that run is over; later runs (live context,
	// child environment, one parsed tree) hand the library's functions to Go code that calls them back
	func() {
		base := env.NewEnv()
		_ = base.Define("apply", func(f func(int64) int64, x int64) int64 { return f(x) })
		_ = base.Define("each", func(xs []interface{}, f func(interface{}) interface{}) []interface{} {
			var out []interface{}
			for _, x := range xs {
				out = append(out, f(x))
			}
			return out
		})
		ctx1, cancel1 := context.WithCancel(context.Background())
		lib := "inc = func(x) { return x + 1 }\nfunc twice(x) { return x * 2 }\nmk = func() { return func(v) { return v + 100 } }\nadd100 = mk()"
		if _, err := vm.ExecuteContext(ctx1, base, nil, lib); err != nil {
			fail("isolation-template", lib, err.Error())
			cancel1()
			return
		}
		for _, src := range []string{"apply(inc, 41)", "each([1, 2], twice)", "apply(add100, 1)", "inc(1) + twice(2)"} {
			tree, err := parser.ParseSrc(src)
			if err != nil {
				fail("isolation-template", src, err.Error())
				continue
			}
			run := func() string {
				ctx, cancel := context.WithCancel(context.Background())
				defer cancel()
				v, err := vm.RunContext(ctx, base.NewEnv(), nil, tree)
				return fmt.Sprintf("value %v error %v", v, err)
			}
			before := run()
			cancel1() // the defining run is long over: its context ends (the usual `defer cancel()`)
			after := run()
			o.Sum.Evaluations += 2
			o.Sum.Hist["later-run:defining-context-cancelled"]++
			if before != after {
				fail("later-run-differs:context-of-the-defining-run", lib+"\n--- (the context of that run is cancelled after it has returned) then, same tree, fresh child environment, live context ---\n"+src,
					fmt.Sprintf("before the cancellation: %s; afterwards: %s", before, after))
			}
		}
		cancel1()
	}()
	// (2) the process's working directory after a `load` that fails while the loaded file runs
	func() {
		dir, err := os.MkdirTemp("", "verif-load")
		if err != nil {
			return
		}
		defer os.RemoveAll(dir)
		old, err := os.Getwd()
		if err != nil {
			return
		}
		defer func() { _ = os.Chdir(old) }()
		_ = os.MkdirAll(filepath.Join(dir, "lib", "sub"), 0o755)
		_ = os.WriteFile(filepath.Join(dir, "lib", "answer.ank"), []byte("41 + 1"), 0o644)
		_ = os.WriteFile(filepath.Join(dir, "lib", "bad.ank"), []byte("x = 1\nthrow \"failing file\""), 0o644)
		_ = os.WriteFile(filepath.Join(dir, "lib", "sub", "rt.ank"), []byte("[1][5]"), 0o644)
		_ = os.WriteFile(filepath.Join(dir, "lib", "syntax.ank"), []byte("x = = 1"), 0o644)
		if os.Chdir(dir) != nil {
			return
		}
		tree, err := parser.ParseSrc("load(\"lib/answer.ank\")")
		if err != nil {
			return
		}
		run := func() string {
			e := env.NewEnv()
			core.Import(e)
			v, err := vm.Run(e, nil, tree)
			wd, _ := os.Getwd()
			rel, _ := filepath.Rel(dir, wd)
			return fmt.Sprintf("value %v error %v (working directory: %s)", v, err, rel)
		}
		before := run()
		for _, bad := range []string{"load(\"lib/bad.ank\")", "load(\"lib/sub/rt.ank\")", "load(\"lib/syntax.ank\")", "load(\"lib/missing.ank\")", "try {\nload(\"lib/bad.ank\")\n} catch e {\n}"} {
			e := env.NewEnv()
			core.Import(e)
			_, _ = vm.Execute(e, nil, bad)
			after := run()
			o.Sum.Evaluations += 2
			o.Sum.Hist["later-run:failed-load"]++
			if after != before {
				fail("later-run-differs:failed-load", bad+"\n--- then, fresh environment, same tree ---\nload(\"lib/answer.ank\")", fmt.Sprintf("before: %s; afterwards: %s", before, after))
				_ = os.Chdir(dir)
			}
		}
	}()
}

// isolationCopies: a deep copy of a scope that is not the outermost one (a child scope, a module, a block below them) is an
// environment of its own for GLOBAL definitions too: what the host - or a run - defines globally through the copy lands in
// the copy's own outermost scope and nowhere in the environment it was copied from, and the other way round.
func isolationCopies(o *Out) {
	root := env.NewEnv()
	_ = root.Define("g0", int64(0))
	child := root.NewEnv()
	mod, _ := root.NewModule("m")
	block := child.NewEnv()
	for name, src := range map[string]*env.Env{"a child scope": child, "a module": mod, "a block below a child scope": block} {
		dc := src.DeepCopy()
		under := dc.NewEnv()
		var msgs []string
		_ = dc.DefineGlobal("leakV", int64(1))
		_ = under.DefineGlobal("leakU", int64(2))
		_ = dc.DefineGlobalType("LeakT", int64(0))
		_ = src.DefineGlobal("origOnly", int64(3))
		if v, err := root.Get("leakV"); err == nil {
			msgs = append(msgs, fmt.Sprint("DefineGlobal on the copy is visible in the original environment: leakV = ", v))
		}
		if v, err := root.Get("leakU"); err == nil {
			msgs = append(msgs, fmt.Sprint("DefineGlobal on a scope opened under the copy is visible in the original environment: leakU = ", v))
		}
		if _, err := root.Type("LeakT"); err == nil {
			msgs = append(msgs, "DefineGlobalType on the copy is visible in the original environment")
		}
		if v, err := dc.Get("leakV"); err != nil || v != int64(1) {
			msgs = append(msgs, fmt.Sprint("the copy does not see its own global definition: ", v, " ", err))
		}
		if v, err := under.Get("leakU"); err != nil || v != int64(2) {
			msgs = append(msgs, fmt.Sprint("the scope under the copy does not see its own global definition: ", v, " ", err))
		}
		if _, err := dc.Get("origOnly"); err == nil {
			msgs = append(msgs, "a global definition made in the original after the copy was taken is visible in the copy")
		}
		o.Sum.Evaluations++
		o.Sum.Hist["deep-copy-global-definitions"]++
		root.Delete("origOnly")
		for _, m := range msgs {
			o.Fail(Failure{Oracle: "environments-isolated", Key: "env-leak:deepcopy-global", Input: "root > child > block, root > module m; dc = DeepCopy of " + name + "; dc.DefineGlobal(leakV), dc.NewEnv().DefineGlobal(leakU), dc.DefineGlobalType(LeakT), original.DefineGlobal(origOnly)", Detail: m})
		}
	}
}
