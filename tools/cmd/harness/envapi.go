package main

import (
	"fmt"
	"math/rand"
	"reflect"
	"runtime"
	"sort"
	"strings"
	"sync"
	"time"

	"github.com/mattn/anko/env"
)

func init() { streams["envapi"] = streamEnvAPI }

type extLookup struct{}

// lazyLookup is an external lookup that binds what it loads in the scope it serves (a lazy loader): it re-enters the scope
// from inside the scope's own lookup
type lazyLookup struct{ e *env.Env }

func (l lazyLookup) Get(name string) (reflect.Value, error) {
	if name != "answer" {
		return reflect.Value{}, fmt.Errorf("not found")
	}
	v := reflect.New(reflect.TypeOf(int64(0))).Elem()
	v.SetInt(42)
	_ = l.e.DefineValue(name, v)
	return v, nil
}

func (l lazyLookup) Type(name string) (reflect.Type, error) {
	if name != "Answer" {
		return nil, fmt.Errorf("not found")
	}
	_ = l.e.DefineReflectType(name, reflect.TypeOf(int64(0)))
	return reflect.TypeOf(int64(0)), nil
}

func (extLookup) Get(name string) (reflect.Value, error) {
	switch name {
	case "ext1":
		return reflect.ValueOf(int64(100)), nil
	case "ext2":
		return reflect.ValueOf(int64(200)), nil
	}
	return reflect.Value{}, fmt.Errorf("not found")
}

func (extLookup) Type(name string) (reflect.Type, error) {
	if name == "extT" {
		return reflect.TypeOf([]string{}), nil
	}
	return nil, fmt.Errorf("not found")
}

var envNames = []string{"a", "b", "c", "m", "n", "x.y", ".d", "ext1", "ext2", "int64", "T1", "extT", "rune", "zz", "m.a", "m.n.b", "n.b", "a.c", "m.b"}
var envTypes = map[string]reflect.Type{"int8": reflect.TypeOf(int8(0)), "[]string": reflect.TypeOf([]string{}), "bool": reflect.TypeOf(true), "map[string]int": reflect.TypeOf(map[string]int{})}

type envWorld struct {
	envs []*env.Env
	ids  map[*env.Env]int
}

func (w *envWorld) add(e *env.Env) int {
	if id, ok := w.ids[e]; ok {
		return id
	}
	w.envs = append(w.envs, e)
	w.ids[e] = len(w.envs) - 1
	return len(w.envs) - 1
}

func (w *envWorld) showV(v interface{}) string {
	switch x := v.(type) {
	case int64:
		return fmt.Sprintf("(i %d)", x)
	case *env.Env:
		if id, ok := w.ids[x]; ok {
			return fmt.Sprintf("(env %d)", id)
		}
		return "(env ?)"
	}
	return fmt.Sprintf("(other %T)", v)
}

func (w *envWorld) dump(e *env.Env) string {
	var vs, ts []string
	for _, s := range e.GetValueSymbols() {
		// own binding: read through a copy cut off from parents is not available; Get finds the own one first
		v, _ := e.Get(s)
		vs = append(vs, s+"="+w.showV(v))
	}
	for _, s := range e.GetTypeSymbols() {
		t, _ := e.Type(s)
		ts = append(ts, s+"="+strings.ReplaceAll(t.String(), " ", "_"))
	}
	sort.Strings(vs)
	sort.Strings(ts)
	p := "P"
	if strings.HasPrefix(e.String(), "No parent") {
		p = "R"
	}
	return "{" + p + " v[" + strings.Join(vs, " ") + "] t[" + strings.Join(ts, " ") + "]}"
}

// own tables of every scope, read through the public API (a scope's own binding shadows its parents')
type envSnap struct {
	vals, types []map[string]string
	ext         []bool
	parent      []int
}

func (w *envWorld) snapshot() envSnap {
	var sn envSnap
	for _, e := range w.envs {
		vs, ts := map[string]string{}, map[string]string{}
		for _, s := range e.GetValueSymbols() {
			v, _ := e.Get(s)
			vs[s] = w.showV(v)
		}
		for _, s := range e.GetTypeSymbols() {
			t, _ := e.Type(s)
			ts[s] = "t:" + strings.ReplaceAll(t.String(), " ", "_")
		}
		sn.vals = append(sn.vals, vs)
		sn.types = append(sn.types, ts)
		x := reflect.ValueOf(e).Elem().FieldByName("externalLookup")
		sn.ext = append(sn.ext, x.IsValid() && !x.IsNil())
		pi := -1
		if p := parentOf(e); p != nil {
			if id, ok := w.ids[p]; ok {
				pi = id
			} else {
				pi = -2 // a parent the harness does not track (never happens: every scope is registered)
			}
		}
		sn.parent = append(sn.parent, pi)
	}
	return sn
}

// the chain-of-dictionaries reading of the property, evaluated on a snapshot
func (sn envSnap) refGet(i int, name string) (string, bool) {
	for j := i; j >= 0; j = sn.parent[j] {
		if v, ok := sn.vals[j][name]; ok {
			return v, true
		}
		if sn.ext[j] {
			if v, err := (extLookup{}).Get(name); err == nil {
				return fmt.Sprintf("(i %d)", v.Int()), true
			}
		}
	}
	return "", false
}

var envBuiltinTypes = map[string]string{"int64": "t:int64", "rune": "t:int32"}

func (sn envSnap) refType(i int, name string) (string, bool) {
	for j := i; j >= 0; j = sn.parent[j] {
		if t, ok := sn.types[j][name]; ok {
			return t, true
		}
		if sn.ext[j] {
			if t, err := (extLookup{}).Type(name); err == nil {
				return "t:" + strings.ReplaceAll(t.String(), " ", "_"), true
			}
		}
	}
	t, ok := envBuiltinTypes[name]
	return t, ok
}

func (sn envSnap) owner(i int, name string) int {
	for j := i; j >= 0; j = sn.parent[j] {
		if _, ok := sn.vals[j][name]; ok {
			return j
		}
	}
	return -1
}

// refPath: the first element names the nearest enclosing module binding, every further element a module held by the
// scope reached so far (its own table only)
func (sn envSnap) refPath(i int, path []string) (int, bool) {
	cur := -1
	for j := i; j >= 0 && cur < 0; j = sn.parent[j] {
		var k int
		if n, _ := fmt.Sscanf(sn.vals[j][path[0]], "(env %d)", &k); n == 1 {
			cur = k
		}
	}
	if cur < 0 {
		return -1, false
	}
	for _, name := range path[1:] {
		var k int
		if n, _ := fmt.Sscanf(sn.vals[cur][name], "(env %d)", &k); n != 1 {
			return -1, false
		}
		cur = k
	}
	return cur, true
}

func (sn envSnap) root(i int) int {
	for sn.parent[i] >= 0 {
		i = sn.parent[i]
	}
	return i
}

func (w *envWorld) dumpAll() []string {
	out := make([]string, len(w.envs))
	for i, e := range w.envs {
		out[i] = w.dump(e)
	}
	return out
}

func errStr(err error) string { return "e:" + strings.ReplaceAll(err.Error(), " ", "_") }

var modulePrelude = []struct {
	env  int
	name string
}{{0, "m"}, {1, "n"}, {0, "a"}, {0, "n"}}

func streamEnvAPI(o *Out, r *rand.Rand, n int, thorough bool) {
	o.Sum.Rule = "random histories (10-40 calls) over the whole env API on a growing tree of scopes: Define/DefineGlobal/Set/Get/Delete/DeleteGlobal on values and types, " +
		"NewEnv, NewModule, GetEnvFromPath, Copy, DeepCopy, symbol listings, external lookup on/off, Addr; names include dotted names, module names, built-in type names; " +
		"every return value and the full state after the history compared with the model; oracles: failing call changes nothing, define/delete touch one scope; distinct by request hash"
	for it := 0; it < n; it++ {
		w := &envWorld{ids: map[*env.Env]int{}}
		w.add(env.NewEnv())
		var req strings.Builder
		req.WriteString("(envhist")
		var results []string
		steps := 10 + r.Intn(30)
		var hist []string
		for s := 0; s < steps; s++ {
			i := r.Intn(len(w.envs))
			name := envNames[r.Intn(len(envNames))]
			choice := r.Intn(20)
			// every third history starts by building the module tree root{m{n}, a, n'} and asks for more paths,
			// so that paths whose later elements name modules of enclosing scopes are common
			if it%3 == 0 {
				if s < len(modulePrelude) && modulePrelude[s].env < len(w.envs) {
					i, name, choice = modulePrelude[s].env, modulePrelude[s].name, 1
				} else if r.Intn(4) == 0 {
					choice = 15
				}
			}
			// every fifth history works on two type names only, looking them up from every scope between definitions
			// in enclosing scopes; every fifth (another one) on two value names with scopes created while still empty
			if it%5 == 1 {
				name = []string{"T1", "rune", "int64"}[r.Intn(3)]
				choice = []int{0, 0, 13, 13, 13, 14, 14, 14, 14, r.Intn(20)}[r.Intn(10)]
				if choice == 14 {
					i = len(w.envs) - 1 - r.Intn((len(w.envs)+1)/2) // mostly the inner scopes
				}
			} else if it%5 == 2 {
				name = []string{"b", "zz"}[r.Intn(2)]
				choice = []int{0, 0, 0, 2, 3, 6, 7, 8, 9, 10, 11, 12, 5, r.Intn(20)}[r.Intn(14)]
			}
			e := w.envs[i]
			val := int64(r.Intn(10))
			before := w.dumpAll()
			snap := w.snapshot()
			var op, res string
			mutatesOnly := -1 // scope that may change (-1 = none may, -2 = unknown)
			isErr := false
			func() {
				defer func() {
					if p := recover(); p != nil {
						res = fmt.Sprintf("panic:%v", p)
						o.Fail(Failure{Oracle: "env-never-panics", Key: "env-panic:" + op, Input: strings.Join(append(hist, op), " "), Detail: fmt.Sprint(p)})
					}
				}()
				switch choice {
				case 0:
					op = fmt.Sprintf("(newenv %d)", i)
					res = fmt.Sprintf("#%d", w.add(e.NewEnv()))
				case 1:
					op = fmt.Sprintf("(module %d %s)", i, name)
					m, err := e.NewModule(name)
					if err != nil {
						res, isErr = errStr(err), true
					} else {
						res = fmt.Sprintf("#%d", w.add(m))
						mutatesOnly = i
					}
				case 2, 3, 4:
					op = fmt.Sprintf("(define %d %s (i %d))", i, name, val)
					if err := e.Define(name, val); err != nil {
						res, isErr = errStr(err), true
					} else {
						res, mutatesOnly = "u", i
					}
				case 5:
					op = fmt.Sprintf("(defglobal %d %s (i %d))", i, name, val)
					if err := e.DefineGlobal(name, val); err != nil {
						res, isErr = errStr(err), true
					} else {
						res, mutatesOnly = "u", -2
					}
				case 6, 7:
					op = fmt.Sprintf("(set %d %s (i %d))", i, name, val)
					if err := e.Set(name, val); err != nil {
						res, isErr = errStr(err), true
					} else {
						res, mutatesOnly = "u", -2
					}
				case 8, 9, 10:
					op = fmt.Sprintf("(get %d %s)", i, name)
					v, err := e.Get(name)
					if err != nil {
						res, isErr = errStr(err), true
					} else {
						res = w.showV(v)
					}
				case 11:
					op = fmt.Sprintf("(delete %d %s)", i, name)
					e.Delete(name)
					res, mutatesOnly = "u", i
				case 12:
					op = fmt.Sprintf("(delglobal %d %s)", i, name)
					e.DeleteGlobal(name)
					res, mutatesOnly = "u", -2
				case 13:
					tn := []string{"int8", "[]string", "bool", "map[string]int"}[r.Intn(4)]
					global := r.Intn(3) == 0
					var err error
					if global {
						op = fmt.Sprintf("(defglobaltype %d %s %s)", i, name, tn)
						err = e.DefineGlobalReflectType(name, envTypes[tn])
						mutatesOnly = -2
					} else {
						op = fmt.Sprintf("(deftype %d %s %s)", i, name, tn)
						err = e.DefineReflectType(name, envTypes[tn])
						mutatesOnly = i
					}
					if err != nil {
						res, isErr, mutatesOnly = errStr(err), true, -1
					} else {
						res = "u"
					}
				case 14:
					op = fmt.Sprintf("(type %d %s)", i, name)
					t, err := e.Type(name)
					if err != nil {
						res, isErr = errStr(err), true
					} else {
						res = "t:" + strings.ReplaceAll(t.String(), " ", "_")
					}
				case 15:
					k := 1 + r.Intn(2)
					if it%3 == 0 {
						k = 1 + r.Intn(3)
					}
					path := make([]string, k)
					for j := range path {
						path[j] = []string{"m", "n", "a"}[r.Intn(3)]
					}
					op = fmt.Sprintf("(path %d %s)", i, strings.Join(path, " "))
					pe, err := e.GetEnvFromPath(path)
					if err != nil {
						res, isErr = errStr(err), true
					} else if id, ok := w.ids[pe]; ok {
						res = fmt.Sprintf("#%d", id)
					} else {
						res = "#?"
					}
				case 16:
					if r.Intn(2) == 0 {
						op = fmt.Sprintf("(copy %d)", i)
						cid := w.add(e.Copy())
						res = fmt.Sprintf("#%d", cid)
						sn2 := w.snapshot()
						if fmt.Sprint(sn2.vals[i]) != fmt.Sprint(sn2.vals[cid]) || fmt.Sprint(sn2.types[i]) != fmt.Sprint(sn2.types[cid]) || sn2.ext[i] != sn2.ext[cid] || sn2.parent[i] != sn2.parent[cid] {
							o.Fail(Failure{Oracle: "copy-is-a-snapshot", Key: "env-copy-differs", Input: strings.Join(append(hist, op), " "),
								Detail: fmt.Sprintf("scope #%d and its copy #%d differ: values %v / %v, types %v / %v, external lookup %v / %v, parent %d / %d", i, cid, sn2.vals[i], sn2.vals[cid], sn2.types[i], sn2.types[cid], sn2.ext[i], sn2.ext[cid], sn2.parent[i], sn2.parent[cid])})
						}
					} else {
						op = fmt.Sprintf("(deepcopy %d)", i)
						c := e.DeepCopy()
						res = fmt.Sprintf("#%d", w.add(c))
						// register the copied parent chain in creation order
						for p := parentOf(c); p != nil; p = parentOf(p) {
							w.add(p)
						}
						// the copy is an equal chain: level by level the same bindings, types and external lookup
						sn2 := w.snapshot()
						a, b := i, w.ids[c]
						for a >= 0 && b >= 0 {
							if fmt.Sprint(sn2.vals[a]) != fmt.Sprint(sn2.vals[b]) || fmt.Sprint(sn2.types[a]) != fmt.Sprint(sn2.types[b]) || sn2.ext[a] != sn2.ext[b] {
								o.Fail(Failure{Oracle: "copy-is-a-snapshot", Key: "env-deepcopy-differs", Input: strings.Join(append(hist, op), " "),
									Detail: fmt.Sprintf("scope #%d of the chain and its copy #%d differ: values %v / %v, types %v / %v, external lookup %v / %v", a, b, sn2.vals[a], sn2.vals[b], sn2.types[a], sn2.types[b], sn2.ext[a], sn2.ext[b])})
								break
							}
							a, b = sn2.parent[a], sn2.parent[b]
						}
						if (a >= 0) != (b >= 0) {
							o.Fail(Failure{Oracle: "copy-is-a-snapshot", Key: "env-deepcopy-chain-length", Input: strings.Join(append(hist, op), " "), Detail: "the copied chain has another length than the original"})
						}
					}
				case 17:
					if r.Intn(2) == 0 {
						op = fmt.Sprintf("(symbols %d)", i)
						ss := e.GetValueSymbols()
						sort.Strings(ss)
						res = "[" + strings.Join(ss, " ") + "]"
					} else {
						op = fmt.Sprintf("(typesymbols %d)", i)
						ss := e.GetTypeSymbols()
						sort.Strings(ss)
						res = "[" + strings.Join(ss, " ") + "]"
					}
				case 18:
					on := r.Intn(2) == 0
					if on {
						op = fmt.Sprintf("(setext %d 1)", i)
						e.SetExternalLookup(extLookup{})
					} else {
						op = fmt.Sprintf("(setext %d 0)", i)
						e.SetExternalLookup(nil)
					}
					res, mutatesOnly = "u", -2
				case 19:
					op = fmt.Sprintf("(addr %d %s)", i, name)
					_, err := e.Addr(name)
					if err != nil {
						res, isErr = errStr(err), true
					} else {
						res = "addr-ok"
					}
				}
			}()
			hist = append(hist, op)
			req.WriteString(" " + op)
			results = append(results, res)
			o.Sum.Hist["op:"+strings.Fields(op)[0][1:]]++
			// oracles on the real environments
			after := w.dumpAll()
			opName := strings.Fields(op)[0][1:]
			histStr := func() string { return strings.Join(hist, " ") }
			if !strings.Contains(name, ".") {
				switch opName {
				case "get":
					want, ok := snap.refGet(i, name)
					if ok != !isErr || (ok && want != res) {
						o.Fail(Failure{Oracle: "nearest-binding", Key: "env-get-not-nearest", Input: histStr(), Detail: fmt.Sprintf("%s returned %s; the nearest enclosing binding (own table, external lookup, then parent) is %q (found %v)", op, res, want, ok)})
					}
				case "type":
					want, ok := snap.refType(i, name)
					if ok != !isErr || (ok && want != res) {
						o.Fail(Failure{Oracle: "nearest-binding", Key: "env-type-not-nearest", Input: histStr(), Detail: fmt.Sprintf("%s returned %s; nearest enclosing type binding (own table, external lookup, parent, built-in names last) is %q (found %v)", op, res, want, ok)})
					}
				case "path":
					want, ok := snap.refPath(i, strings.Fields(strings.TrimSuffix(op, ")"))[2:])
					if ok != !isErr || (ok && fmt.Sprintf("#%d", want) != res) {
						o.Fail(Failure{Oracle: "path-lookup", Key: "env-path-resolution", Input: histStr(), Detail: fmt.Sprintf("%s returned %s; the first element names the nearest enclosing module and each further element a module of the scope reached so far: scope #%d (found %v)", op, res, want, ok)})
					}
				case "set":
					own := snap.owner(i, name)
					if (own >= 0) == isErr {
						o.Fail(Failure{Oracle: "set-nearest-or-fail", Key: "env-set-status", Input: histStr(), Detail: fmt.Sprintf("%s returned %s; a binding exists on the chain: %v", op, res, own >= 0)})
					}
					if own >= 0 {
						mutatesOnly = own
					}
				case "delglobal":
					mutatesOnly = snap.owner(i, name)
					if mutatesOnly < 0 {
						mutatesOnly = -1
					}
				case "defglobal", "defglobaltype":
					if !isErr {
						mutatesOnly = snap.root(i)
					}
				}
			}
			for j := range before {
				if before[j] == after[j] {
					continue
				}
				switch {
				case isErr:
					o.Fail(Failure{Oracle: "error-leaves-all-unchanged", Key: "env-error-mutates:" + strings.Fields(op)[0][1:], Input: strings.Join(hist, " "), Detail: fmt.Sprintf("%s failed with %s but scope %d changed from %s to %s", op, res, j, before[j], after[j])})
				case mutatesOnly == -1:
					o.Fail(Failure{Oracle: "read-only-call", Key: "env-read-mutates:" + strings.Fields(op)[0][1:], Input: strings.Join(hist, " "), Detail: fmt.Sprintf("%s changed scope %d from %s to %s", op, j, before[j], after[j])})
				case mutatesOnly >= 0 && j != mutatesOnly:
					// another scope changed: allowed only if it shows the addressed scope's module value (never the case here)
					o.Fail(Failure{Oracle: "touches-only-addressed-scope", Key: "env-touches-other:" + strings.Fields(op)[0][1:], Input: strings.Join(hist, " "), Detail: fmt.Sprintf("%s on scope %d changed scope %d from %s to %s", op, mutatesOnly, j, before[j], after[j])})
				}
			}
		}
		req.WriteString(")")
		o.Case(req.String(), strings.Join(results, " | ")+" || "+strings.Join(w.dumpAll(), " "), strings.Join(hist, " "), true)
	}
	// requests a host can make with reflect values: the zero Value, a nil module pointer, an unexported field - an error or a
	// harmless result, never a panic, and the scope stays as it was
	for _, c := range []struct {
		name string
		run  func(e *env.Env) interface{}
	}{
		{"DefineValue(x, zero Value); Get(x)", func(e *env.Env) interface{} {
			_ = e.DefineValue("x", reflect.Value{})
			v, err := e.Get("x")
			return fmt.Sprint(v, err)
		}},
		{"DefineValue(x, zero Value); GetValue(x); String(); Copy; DeepCopy; Addr(x)", func(e *env.Env) interface{} {
			_ = e.DefineValue("x", reflect.Value{})
			_, _ = e.GetValue("x")
			_ = e.String()
			e.Copy()
			e.DeepCopy()
			_, _ = e.Addr("x")
			return nil
		}},
		{"Define(n, 1); SetValue(n, zero Value); Get(n)", func(e *env.Env) interface{} {
			_ = e.Define("n", int64(1))
			_ = e.SetValue("n", reflect.Value{})
			v, err := e.Get("n")
			return fmt.Sprint(v, err)
		}},
		{"DefineGlobalValue(x, zero Value); Get(x)", func(e *env.Env) interface{} {
			_ = e.NewEnv().DefineGlobalValue("x", reflect.Value{})
			v, err := e.Get("x")
			return fmt.Sprint(v, err)
		}},
		{"DefineValue(x, zero Value); GetEnvFromPath([x])", func(e *env.Env) interface{} {
			_ = e.DefineValue("x", reflect.Value{})
			_, err := e.GetEnvFromPath([]string{"x"})
			return err
		}},
		{"DefineValue(x, zero Value); GetEnvFromPath([x y])", func(e *env.Env) interface{} {
			_ = e.DefineValue("x", reflect.Value{})
			_, err := e.GetEnvFromPath([]string{"x", "y"})
			return err
		}},
		{"Define(m, (*Env)(nil)); GetEnvFromPath([m x])", func(e *env.Env) interface{} {
			_ = e.Define("m", (*env.Env)(nil))
			_, err := e.GetEnvFromPath([]string{"m", "x"})
			return err
		}},
		{"Define(m, (*Env)(nil)); GetEnvFromPath([m]) then Define on the result", func(e *env.Env) interface{} {
			_ = e.Define("m", (*env.Env)(nil))
			m, err := e.GetEnvFromPath([]string{"m"})
			if err == nil && m != nil {
				_ = m.Define("z", 1)
			} else if err == nil {
				return "nil scope without an error"
			}
			return err
		}},
		{"a binding that holds nothing (the zero Value) in an inner scope is still the NEAREST binding: Get / GetValue / Addr do not fall through to the enclosing scope or the external lookup", func(e *env.Env) interface{} {
			_ = e.Define("a", int64(1))
			inner := e.NewEnv()
			_ = inner.DefineValue("a", reflect.Value{})
			if v, err := inner.GetValue("a"); err != nil || v.IsValid() {
				return fmt.Sprintf("nearest: GetValue from the inner scope gave (%v, %v), the enclosing binding or an error, instead of the inner binding", v, err)
			}
			if v, err := inner.Get("a"); err != nil || v != nil {
				return fmt.Sprintf("nearest: Get from the inner scope gave (%v, %v)", v, err)
			}
			// set, delete and the listing agree with get about where the name lives
			if err := inner.Set("a", int64(5)); err != nil {
				return "nearest: Set: " + err.Error()
			}
			if v, _ := e.Get("a"); v != int64(1) {
				return fmt.Sprintf("nearest: Set through the inner scope changed the OUTER binding to %v", v)
			}
			if v, _ := inner.Get("a"); v != int64(5) {
				return fmt.Sprintf("nearest: after Set the inner scope answers %v", v)
			}
			return nil
		}},
		{"modules nested 1 to 9 deep: making another module in a scope changes nothing the scope's listing said about the modules it already held", func(e *env.Env) interface{} {
			cur := e
			for depth := 1; depth <= 9; depth++ {
				next, err := cur.NewModule(fmt.Sprintf("lvl%d", depth))
				if err != nil {
					return "nearest: NewModule: " + err.Error()
				}
				cur = next
				if _, err := cur.NewModule("x"); err != nil {
					return "nearest: NewModule: " + err.Error()
				}
				before := strings.Split(strings.TrimSpace(cur.String()), "\n")
				if _, err := cur.NewModule("y"); err != nil {
					return "nearest: NewModule: " + err.Error()
				}
				after := cur.String()
				for _, line := range before {
					if strings.TrimSpace(line) != "" && !strings.Contains(after, line) {
						return fmt.Sprintf("nearest: at depth %d the listing said %q about what the scope held; after another module was made in the scope it says %q", depth, line, after)
					}
				}
			}
			return nil
		}},
		{"a scope holding a struct value with storage of its own; Copy / DeepCopy; a store through the copy's value", func(e *env.Env) interface{} {
			type rec struct{ A int64 }
			_ = e.DefineValue("s", reflect.New(reflect.TypeOf(rec{})).Elem())
			child := e.NewEnv()
			for i, c := range []*env.Env{e.Copy(), child.DeepCopy()} {
				v, err := c.GetValue("s")
				if err != nil {
					return "copy lost the binding"
				}
				v.Field(0).SetInt(int64(5 + i))
				orig, _ := e.GetValue("s")
				if orig.Field(0).Int() != 0 {
					return "copy shares the struct"
				}
			}
			return nil
		}},
		{"an external lookup that defines what it loads in the scope it serves: Get, Type, Addr through it", func(e *env.Env) interface{} {
			done := make(chan string, 1)
			go func() {
				e.SetExternalLookup(lazyLookup{e})
				if v, err := e.Get("answer"); err != nil || v != int64(42) {
					done <- fmt.Sprint("Get: ", v, err)
					return
				}
				if _, err := e.Type("Answer"); err != nil {
					done <- fmt.Sprint("Type: ", err)
					return
				}
				e.Delete("answer")
				if _, err := e.Addr("answer"); err != nil {
					done <- fmt.Sprint("Addr: ", err)
					return
				}
				child := e.NewEnv()
				e.Delete("answer")
				if _, err := child.Addr("answer"); err != nil {
					done <- fmt.Sprint("Addr from a child scope: ", err)
					return
				}
				done <- ""
			}()
			select {
			case msg := <-done:
				if msg != "" {
					return "lazy: " + msg
				}
			case <-time.After(3 * time.Second):
				return "lazy: the lookup never returned (the scope's lock was held while the external lookup ran)"
			}
			return nil
		}},
		{"a scope holding a nil of its own and scalar / string / interface values with storage of their own; Copy / DeepCopy; a store through Addr on one side", func(e *env.Env) interface{} {
			_ = e.Define("n", nil)
			iv := reflect.New(reflect.TypeOf(int64(0))).Elem()
			iv.SetInt(1)
			_ = e.DefineValue("x", iv)
			sv := reflect.New(reflect.TypeOf("")).Elem()
			sv.SetString("abc")
			_ = e.DefineValue("s", sv)
			for _, c := range []*env.Env{e.Copy(), e.NewEnv().DeepCopy()} {
				for _, name := range []string{"n", "x", "s"} {
					p, err := c.Addr(name)
					if err != nil {
						continue
					}
					switch name {
					case "n":
						p.Elem().Set(reflect.ValueOf(int64(5)))
					case "x":
						p.Elem().SetInt(2)
					case "s":
						p.Elem().SetString("Xbc")
					}
				}
				if v, _ := e.Get("n"); v != nil {
					return "copy shares the struct"
				}
				if v, _ := e.Get("x"); v != int64(1) {
					return "copy shares the struct"
				}
				if v, _ := e.Get("s"); v != "abc" {
					return "copy shares the struct"
				}
			}
			return nil
		}},
		{"NewModule(m); Define(a, 1) in it; GetEnvFromPath([m a])", func(e *env.Env) interface{} {
			m, _ := e.NewModule("m")
			_ = m.Define("a", 1)
			_, err := e.GetEnvFromPath([]string{"m", "a"})
			return err
		}},
		{"DefineType(T, nil); Type(T); GetTypeSymbols; String", func(e *env.Env) interface{} {
			_ = e.DefineType("T", nil)
			_, _ = e.Type("T")
			e.GetTypeSymbols()
			return e.String()
		}},
		{"DefineReflectType(T, nil); Type(T)", func(e *env.Env) interface{} {
			_ = e.DefineReflectType("T", nil)
			t, err := e.Type("T")
			return fmt.Sprint(t, err)
		}},
		{"Get / Set / Delete / Addr / Type of the empty name", func(e *env.Env) interface{} {
			_, _ = e.Get("")
			_ = e.Set("", 1)
			e.Delete("")
			_, _ = e.Addr("")
			_, _ = e.Type("")
			_ = e.Define("", 1)
			return nil
		}},
		{"GetEnvFromPath(nil); GetEnvFromPath([\"\"])", func(e *env.Env) interface{} {
			_, _ = e.GetEnvFromPath(nil)
			_, err := e.GetEnvFromPath([]string{""})
			return err
		}},
	} {
		func() {
			e := env.NewEnv()
			defer func() {
				if p := recover(); p != nil {
					o.Fail(Failure{Oracle: "env-never-panics", Key: "env-panic:host-request", Input: c.name, Detail: fmt.Sprint(p)})
				}
			}()
			o.Sum.Evaluations++
			o.Sum.Hist["host-request"]++
			lazyHung := false
			if r := c.run(e); r == "nil scope without an error" {
				o.Fail(Failure{Oracle: "invalid-request-is-an-error", Key: "env-nil-scope", Input: c.name, Detail: "GetEnvFromPath returned (nil, nil)"})
			} else if s, ok := r.(string); ok && strings.HasPrefix(s, "lazy: ") {
				lazyHung = true
				o.Fail(Failure{Oracle: "env-never-blocks", Key: "env-reentrant-lookup", Input: c.name, Detail: s})
			} else if s, ok := r.(string); ok && strings.HasPrefix(s, "nearest: ") {
				o.Fail(Failure{Oracle: "lookup-is-chain-of-dictionaries", Key: "env-nearest-binding-holds-nothing", Input: c.name, Detail: s})
			} else if r == "copy shares the struct" || r == "copy lost the binding" {
				o.Fail(Failure{Oracle: "copy-is-independent", Key: "env-copy-shares-struct", Input: c.name, Detail: fmt.Sprint(r, ": a store into the struct value bound in the copy shows in the original scope")})
			}
			if lazyHung {
				return // the scope's lock is wedged: any further call on it would block this goroutine too
			}
			// the scope is still usable
			if err := e.Define("after", int64(1)); err != nil {
				o.Fail(Failure{Oracle: "scope-stays-usable", Key: "env-unusable:host-request", Input: c.name, Detail: err.Error()})
			}
		}()
	}
	// "set updates the nearest existing binding or fails WITHOUT CREATING ONE" also when a delete of that binding runs at the
	// same time: once Delete has returned and every Set has returned, the name is unbound
	rounds := 3000
	if thorough {
		rounds = 30000
	}
	for round := 0; round < rounds; round++ {
		e := env.NewEnv()
		_ = e.Define("x", int64(0))
		var wg sync.WaitGroup
		start := make(chan struct{})
		for g := 0; g < 4; g++ {
			wg.Add(1)
			go func(g int) {
				defer wg.Done()
				<-start
				for k := 0; k < 150; k++ {
					_ = e.Set("x", int64(g*100+k))
				}
			}(g)
		}
		close(start)
		for k := 0; k < round%40; k++ {
			runtime.Gosched() // the delete lands at a different moment of the setters' run every round
		}
		e.Delete("x")
		wg.Wait()
		o.Sum.Evaluations++
		o.Sum.Hist["set-vs-delete-round"]++
		if v, err := e.Get("x"); err == nil {
			o.Fail(Failure{Oracle: "set-never-creates", Key: "env-set-recreates-deleted-binding", Input: "Define(x); 4 goroutines Set(x, ...) x 40 while the main goroutine runs Delete(x); afterwards Get(x)",
				Detail: fmt.Sprintf("round %d: x is bound to %v after Delete(x) returned and no Define followed - a Set created the binding", round, v)})
			break
		}
	}

}

// parentOf reads the unexported parent link through the documented String() header and a probe:
// the harness cannot see the field, so it asks reflection.
func parentOf(e *env.Env) *env.Env {
	v := reflect.ValueOf(e).Elem().FieldByName("parent")
	if !v.IsValid() || v.IsNil() {
		return nil
	}
	return reflect.NewAt(v.Type(), unsafePointer(v)).Elem().Interface().(*env.Env)
}
