package main

import (
	"fmt"
	"github.com/mattn/anko/env"
	"math"
	"math/rand"
	"reflect"
	"regexp"
	"sort"
	"strconv"
	"strings"

	"veriftools/internal/vals"
)

func init() { streams["eq"] = streamEq }

// streamEq: ordered pairs of values in ==, !=, in, switch (C06).
func streamEq(o *Out, r *rand.Rand, n int, thorough bool) {
	o.Sum.Rule = "ordered pairs over the whole value pool (nil, bools, boundary ints, floats, numeric and non-numeric strings, nested slices and maps) " +
		"in ==, !=, `in`, switch; operands from variables or slice elements; quick: n random pairs + all pairs of a fixed sub-pool, thorough: all pairs; " +
		"non-trivial = operands of different spelling; distinct by request hash"
	pool := vals.All()
	type pair struct{ a, b int }
	var pairs []pair
	if thorough {
		for i := range pool {
			for j := range pool {
				pairs = append(pairs, pair{i, j})
			}
		}
	} else {
		// fixed sub-pool: every 3rd value, all pairs; plus n random pairs
		for i := 0; i < len(pool); i += 3 {
			for j := 0; j < len(pool); j += 3 {
				pairs = append(pairs, pair{i, j})
			}
		}
		// every pair with a boolean, nil, zero or empty operand (both orders): conversions decide these
		for i, v := range pool {
			switch x := v.(type) {
			case nil, bool:
			case int64:
				if x != 0 && x != 1 {
					continue
				}
			case float64:
				if x != 0 && x != 1 {
					continue
				}
			case string:
				if x != "" && x != "true" && x != "false" && x != "1" && x != "0" {
					continue
				}
			default:
				continue
			}
			for j := range pool {
				if i%3 == 0 && j%3 == 0 {
					continue // already in the sub-pool
				}
				pairs = append(pairs, pair{i, j}, pair{j, i})
			}
		}
		// every pair of containers (structural comparison: lengths, key sets, nil entries, nesting)
		nsc := len(vals.Scalars())
		for i := nsc; i < len(pool); i++ {
			for j := nsc; j < len(pool); j++ {
				if i%3 == 0 && j%3 == 0 {
					continue
				}
				pairs = append(pairs, pair{i, j})
			}
		}
		for k := 0; k < n; k++ {
			pairs = append(pairs, pair{r.Intn(len(pool)), r.Intn(len(pool))})
		}
	}
	run := func(src string, vars map[string]interface{}) outcome { return runScript(src, vars, nil) }
	asBool := func(out outcome) (bool, bool) {
		if out.panicked || out.err != nil {
			return false, false
		}
		b, ok := out.val.(bool)
		return b, ok
	}
	for _, p := range pairs {
		// fresh operands for every use (containers must not alias between runs)
		fresh := func() (interface{}, interface{}) { q := vals.All(); return q[p.a], q[p.b] }
		a, b := fresh()
		wrapA, wrapB := r.Intn(3) == 0, r.Intn(3) == 0
		mk := func(v interface{}, name string, wrap bool, vars map[string]interface{}) (string, string) {
			enc := vals.Encode(v)
			if wrap {
				vars[name] = []interface{}{v}
				if v != nil {
					enc = "(w " + enc + ")"
				}
				return name + "[0]", enc
			}
			vars[name] = v
			return name, enc
		}
		desc := fmt.Sprintf("a=%v (%T) b=%v (%T)", a, a, b, b)
		nontrivial := vals.Encode(a) != vals.Encode(b)
		forms := []struct {
			name string
			src  func(sa, sb string) string
			req  func(ea, eb string) string
		}{
			{"==", func(sa, sb string) string { return sa + " == " + sb }, func(ea, eb string) string { return "(binop == " + ea + " " + eb + ")" }},
			{"!=", func(sa, sb string) string { return sa + " != " + sb }, func(ea, eb string) string { return "(binop != " + ea + " " + eb + ")" }},
			{"in", func(sa, sb string) string { return sa + " in [" + sb + "]" }, func(ea, eb string) string {
				// the list literal stores the element's dynamic value
				return "(in " + ea + " (l " + unwrapEnc(eb) + "))"
			}},
			{"switch", func(sa, sb string) string { return "switch " + sa + " { case " + sb + ": true\ndefault: false }" }, func(ea, eb string) string { return "(switch " + ea + " " + eb + ")" }},
		}
		res := map[string]outcome{}
		for _, f := range forms {
			a, b = fresh()
			vars := map[string]interface{}{}
			sa, ea := mk(a, "a", wrapA, vars)
			sb, eb := mk(b, "b", wrapB, vars)
			src := f.src(sa, sb)
			out := run(src, vars)
			res[f.name] = out
			o.Case(f.req(ea, eb), out.answer(vals.Encode), src+"  with "+desc, nontrivial)
			o.Sum.Hist["form:"+f.name]++
			if out.panicked {
				o.Fail(Failure{Oracle: "no-panic", Key: "panic:" + fmt.Sprint(out.panicVal), Input: src + " with " + desc, Detail: fmt.Sprint(out.panicVal)})
			}
		}
		// reversed ==
		a, b = fresh()
		vars := map[string]interface{}{}
		sa, _ := mk(a, "a", wrapA, vars)
		sb, _ := mk(b, "b", wrapB, vars)
		rev := run(sb+" == "+sa, vars)
		eq, ok1 := asBool(res["=="])
		req, ok2 := asBool(rev)
		ne, ok3 := asBool(res["!="])
		in, ok4 := asBool(res["in"])
		sw, ok5 := asBool(res["switch"])
		if !(ok1 && ok2 && ok3 && ok4 && ok5) {
			o.Fail(Failure{Oracle: "eq-total", Key: "eq-not-bool", Input: desc, Detail: fmt.Sprintf("==:%v rev:%v !=:%v in:%v switch:%v", res["=="].answer(vals.Encode), rev.answer(vals.Encode), res["!="].answer(vals.Encode), res["in"].answer(vals.Encode), res["switch"].answer(vals.Encode))})
			continue
		}
		kind := fmt.Sprintf("%T/%T", a, b)
		if eq != req {
			o.Fail(Failure{Oracle: "eq-symmetric", Key: "eq-asymmetric:" + kind, Input: desc, Detail: fmt.Sprintf("a == b is %v but b == a is %v", eq, req)})
		}
		if ne == eq {
			o.Fail(Failure{Oracle: "ne-negates-eq", Key: "ne-not-negation:" + kind, Input: desc, Detail: fmt.Sprintf("a == b is %v and a != b is %v", eq, ne)})
		}
		if in != eq {
			o.Fail(Failure{Oracle: "in-uses-eq", Key: "in-differs:" + kind, Input: desc, Detail: fmt.Sprintf("a == b is %v but a in [b] is %v", eq, in)})
		}
		if sw != eq {
			o.Fail(Failure{Oracle: "switch-uses-eq", Key: "switch-differs:" + kind, Input: desc, Detail: fmt.Sprintf("a == b is %v but switch a {case b} matches %v", eq, sw)})
		}
		// same primitive type: Go's ==
		switch av := a.(type) {
		case int64:
			if bv, ok := b.(int64); ok && eq != (av == bv) {
				o.Fail(Failure{Oracle: "go-eq", Key: "int-eq", Input: desc, Detail: fmt.Sprintf("Go == is %v, script == is %v", av == bv, eq)})
			}
			if bv, ok := b.(float64); ok {
				le, okl := asBool(run("a <= b", map[string]interface{}{"a": a, "b": b}))
				ge, okg := asBool(run("a >= b", map[string]interface{}{"a": a, "b": b}))
				if okl && okg && eq != (le && ge) {
					o.Fail(Failure{Oracle: "int-float-eq-iff-le-ge", Key: "int-float-eq", Input: desc, Detail: fmt.Sprintf("== is %v but <= is %v and >= is %v (b=%v)", eq, le, ge, bv)})
				}
			}
		case float64:
			if bv, ok := b.(float64); ok && eq != (av == bv) {
				o.Fail(Failure{Oracle: "go-eq", Key: "float-eq", Input: desc, Detail: fmt.Sprintf("Go == is %v, script == is %v", av == bv, eq)})
			}
			if bv, ok := b.(int64); ok {
				le, okl := asBool(run("a <= b", map[string]interface{}{"a": a, "b": b}))
				ge, okg := asBool(run("a >= b", map[string]interface{}{"a": a, "b": b}))
				if okl && okg && eq != (le && ge) {
					o.Fail(Failure{Oracle: "int-float-eq-iff-le-ge", Key: "int-float-eq", Input: desc, Detail: fmt.Sprintf("== is %v but <= is %v and >= is %v (b=%v)", eq, le, ge, bv)})
				}
			}
		case string:
			if bv, ok := b.(string); ok && eq != (av == bv) {
				o.Fail(Failure{Oracle: "go-eq", Key: "string-eq", Input: desc, Detail: fmt.Sprintf("Go == is %v, script == is %v", av == bv, eq)})
			}
			// a string equals a number exactly when it is a decimal numeral denoting that number
			if bi, ok := b.(int64); ok {
				want := false
				// Go's numeral syntax admits one underscore between digits (1_0 denotes 10)
				av := strings.ReplaceAll(av, "_", "")
				if !decIntRe.MatchString(a.(string)) && !decFloatRe.MatchString(a.(string)) {
					av = "not a numeral"
				}
				if decIntRe.MatchString(av) {
					if n, err := strconv.ParseInt(av, 10, 64); err == nil {
						want = n == bi
					} else if f, err := strconv.ParseFloat(av, 64); err == nil {
						want = f == float64(bi)
					}
				} else if decFloatRe.MatchString(av) {
					if f, err := strconv.ParseFloat(av, 64); err == nil {
						want = f == float64(bi)
					}
				}
				if eq != want {
					o.Fail(Failure{Oracle: "string-number-eq", Key: "string-int-eq", Input: desc, Detail: fmt.Sprintf("%q as a decimal numeral denotes %d: %v, but == is %v", av, bi, want, eq)})
				}
			}
		case bool:
			if bv, ok := b.(bool); ok && eq != (av == bv) {
				o.Fail(Failure{Oracle: "go-eq", Key: "bool-eq", Input: desc, Detail: fmt.Sprintf("Go == is %v, script == is %v", av == bv, eq)})
			}
		case nil:
			if eq != (b == nil) {
				o.Fail(Failure{Oracle: "nil-only-nil", Key: "nil-eq", Input: desc, Detail: fmt.Sprintf("nil == b is %v", eq)})
			}
		}
	}
	// focused string / number pairs: a string equals a number exactly when it is a DECIMAL numeral denoting it - not when it is the
	// character with that code, not a hexadecimal float, not "inf" / "nan"; same answer in both orders and in all four forms
	fstrs := []string{"a", " ", "+", "\n", "\u20ac", "A", "0", "7", "97", "0x1p4", "0x10", "0X1P-2", "inf", "+Inf", "-inf", "Infinity", "nan", "NaN", "1e1", "1E1", "+1", "-0", "1.", ".5", "1_0", "16", "16.0", "0b11", "0o7", "1e", "e1", "--1", "1 ", " 1", "\t1", "1\n"}
	fnums := []interface{}{int64(97), int64(32), int64(43), int64(10), int64(8364), int64(65), int64(0), int64(7), int64(16), int64(1), int64(3), int64(-1), 16.0, 0.25, 10.0, 1.0, 0.5, 0.0, 97.0,
		math.Inf(1), math.Inf(-1), math.NaN()}
	for _, fs := range fstrs {
		for _, fn := range fnums {
			want := false
			clean := strings.ReplaceAll(fs, "_", "")
			if decIntRe.MatchString(fs) || decFloatRe.MatchString(fs) {
				if f, err := strconv.ParseFloat(clean, 64); err == nil {
					switch x := fn.(type) {
					case int64:
						if n, err := strconv.ParseInt(clean, 10, 64); err == nil {
							want = n == x
						} else {
							want = f == float64(x)
						}
					case float64:
						want = f == x
					}
				}
			}
			vars := map[string]interface{}{"s": fs, "n": fn}
			desc := fmt.Sprintf("s=%q n=%v (%T)", fs, fn, fn)
			for _, form := range []struct{ name, src string }{
				{"s==n", "s == n"}, {"n==s", "n == s"}, {"!(s!=n)", "!(s != n)"}, {"!(n!=s)", "!(n != s)"}, {"s in [n]", "s in [n]"}, {"n in [s]", "n in [s]"},
				{"switch s", "switch s {\ncase n:\ntrue\ndefault:\nfalse\n}"}, {"switch n", "switch n {\ncase s:\ntrue\ndefault:\nfalse\n}"},
			} {
				out := runScript(form.src, vars, nil)
				o.Sum.Evaluations++
				o.Sum.Hist["string-number:"+form.name]++
				got, ok := asBool(out)
				if !ok || got != want {
					o.Fail(Failure{Oracle: "string-number-eq", Key: "string-number-eq:" + form.name, Input: form.src + " with " + desc,
						Detail: fmt.Sprintf("%q is a decimal numeral denoting %v: %v, but the script says %v", fs, fn, want, out.answer(vals.Encode))})
				}
			}
		}
	}
	// float32 operands (host values, elements of host and script-made []float32, struct fields): one relation whatever side
	// the operand stands on and whatever form is used
	f32setup := "m32 = make([]float32, 3)\nm32[0] = tf32[0]\nm32[1] = tf32[1]\nm32[2] = tf32[2]\n"
	f32ops := []string{"tf32[0]", "tf32[1]", "tf32[2]", "m32[0]", "m32[1]", "f32v", "sf32.F", "1.1", "0.1", "0.5", "f64v", "1", "\"1.1\""}
	for _, l := range f32ops {
		for _, rr := range f32ops {
			vars := func() map[string]interface{} {
				return map[string]interface{}{"tf32": []float32{1.1, 0.1, 0.5}, "f32v": float32(1.1), "f64v": float64(float32(1.1)), "sf32": &struct{ F float32 }{1.1}}
			}
			var answers []string
			bad := false
			for _, form := range []string{l + " == " + rr, rr + " == " + l, "!(" + l + " != " + rr + ")", "!(" + rr + " != " + l + ")", l + " in [" + rr + "]", rr + " in [" + l + "]",
				"switch " + l + " {\ncase " + rr + ":\ntrue\ndefault:\nfalse\n}"} {
				out := runScript(f32setup+form, vars(), nil)
				o.Sum.Evaluations++
				o.Sum.Hist["float32-forms"]++
				b, ok := asBool(out)
				if !ok {
					bad = true
				}
				answers = append(answers, fmt.Sprint(b))
			}
			same := true
			for _, a := range answers {
				if a != answers[0] {
					same = false
				}
			}
			if bad || !same {
				o.Fail(Failure{Oracle: "eq-coherent", Key: "eq-float32-forms", Input: f32setup + l + " == " + rr + "  (tf32 = []float32{1.1, 0.1, 0.5}, f32v = float32(1.1), f64v = float64(float32(1.1)), sf32.F = float32(1.1))",
					Detail: fmt.Sprintf("a==b, b==a, !(a!=b), !(b!=a), a in [b], b in [a], switch a {case b} give %v", answers)})
			}
		}
	}
	// pointer operands: one relation whatever side the pointer stands on, whatever form is used and wherever the operand came
	// from (a variable, a list element, a map entry)
	ptrOps := []string{"pi", "ps", "pl", "pn", "qi", "5", "\"s\"", "[1, 2]", "nil", "6", "[pi][0]", "{\"k\": pi}.k", "[ps][0]", "[pn][0]", "&five", "[&five][0]"}
	for _, l := range ptrOps {
		for _, rr := range ptrOps {
			vars := func() map[string]interface{} {
				i5, i5b, s := int64(5), int64(5), "s"
				var l interface{} = []interface{}{int64(1), int64(2)}
				return map[string]interface{}{"pi": &i5, "qi": &i5b, "ps": &s, "pl": &l, "pn": (*int64)(nil), "five": int64(5)}
			}
			var answers []string
			bad := false
			for _, form := range []string{l + " == " + rr, rr + " == " + l, "!(" + l + " != " + rr + ")", "!(" + rr + " != " + l + ")", l + " in [" + rr + "]", rr + " in [" + l + "]",
				"[" + l + "][0] == " + rr, l + " == [" + rr + "][0]", "switch " + l + " {\ncase " + rr + ":\ntrue\ndefault:\nfalse\n}", "switch [" + l + "][0] {\ncase " + rr + ":\ntrue\ndefault:\nfalse\n}"} {
				out := runScript(form, vars(), nil)
				o.Sum.Evaluations++
				o.Sum.Hist["pointer-forms"]++
				b, ok := asBool(out)
				if !ok {
					bad = true
				}
				answers = append(answers, fmt.Sprint(b))
			}
			same := true
			for _, a := range answers {
				if a != answers[0] {
					same = false
				}
			}
			if bad || !same {
				o.Fail(Failure{Oracle: "eq-coherent", Key: "eq-pointer-forms", Input: l + " == " + rr + "  (pi, qi -> int64 5, ps -> \"s\", pl -> [1, 2], pn = nil *int64, five = 5)",
					Detail: fmt.Sprintf("a==b, b==a, !(a!=b), !(b!=a), a in [b], b in [a], [a][0]==b, a==[b][0], switch a {case b}, switch [a][0] {case b} give %v", answers)})
			}
		}
	}
	// nil equals only nil: a pointer that points somewhere - also at a variable holding nil, at an unset interface - is not nil
	{
		vars := func() map[string]interface{} {
			i5 := int64(5)
			var e error
			return map[string]interface{}{"pi": &i5, "pn": (*int64)(nil), "pv": new(interface{}), "pe": &e, "nilvar": nil, "nm": map[string]interface{}(nil), "ns": []interface{}(nil)}
		}
		isNilOp := map[string]bool{"nil": true, "pn": true, "[pn][0]": true, "nilvar": true, "nm": true, "ns": true, "pi": false, "pv": false, "pe": false, "&nilvar": false, "[&nilvar][0]": false, "[pv][0]": false, "&pn": false, "0": false, "\"\"": false, "false": false, "[]": false, "{}": false}
		var names []string
		for k := range isNilOp {
			names = append(names, k)
		}
		sort.Strings(names)
		for _, l := range names {
			for _, form := range []string{l + " == nil", "nil == " + l, "!(" + l + " != nil)", l + " in [nil]", "nil in [" + l + "]", "switch " + l + " {\ncase nil:\ntrue\ndefault:\nfalse\n}", "switch nil {\ncase " + l + ":\ntrue\ndefault:\nfalse\n}"} {
				out := runScript(form, vars(), nil)
				o.Sum.Evaluations++
				o.Sum.Hist["nil-only-nil"]++
				b, ok := asBool(out)
				if !ok || b != isNilOp[l] {
					o.Fail(Failure{Oracle: "nil-equals-only-nil", Key: "eq-nil-only-nil", Input: form + "  (pi -> int64 5, pn = nil *int64, pv = new(interface{}), pe = &(error nil), nilvar = nil, nm / ns = nil map / slice)",
						Detail: fmt.Sprintf("expected %v, the script says %v", isNilOp[l], out.answer(vals.Encode))})
				}
			}
		}
	}
	// Go arrays and slices a host binds, against each other and against lists: one answer in every form and in both orders
	{
		seqOps := []string{"arr3", "arr3b", "arr2", "sl3", "sl4", "sl2", "[1, 2, 3]", "[1, 2]", "sarr", "ssl", "barr", "bsl"}
		for _, l := range seqOps {
			for _, rr := range seqOps {
				vars := func() map[string]interface{} {
					return map[string]interface{}{"arr3": [3]int64{1, 2, 3}, "arr3b": [3]int64{1, 2, 3}, "arr2": [2]int64{1, 2}, "sl3": []int64{1, 2, 3}, "sl4": []int64{1, 2, 3, 4}, "sl2": []int64{1, 2},
						"sarr": [2]string{"a", "b"}, "ssl": []string{"a", "b", "c"}, "barr": [2]byte{1, 2}, "bsl": []byte{1, 2, 3}}
				}
				var answers []string
				bad := false
				for _, form := range []string{l + " == " + rr, rr + " == " + l, "!(" + l + " != " + rr + ")", "!(" + rr + " != " + l + ")", l + " in [" + rr + "]", rr + " in [" + l + "]",
					"switch " + l + " {\ncase " + rr + ":\ntrue\ndefault:\nfalse\n}", "switch " + rr + " {\ncase " + l + ":\ntrue\ndefault:\nfalse\n}"} {
					out := runScript(form, vars(), nil)
					o.Sum.Evaluations++
					o.Sum.Hist["array-slice-forms"]++
					b, ok := asBool(out)
					if !ok {
						bad = true
					}
					answers = append(answers, fmt.Sprint(b))
				}
				same := true
				for _, a := range answers {
					if a != answers[0] {
						same = false
					}
				}
				if bad || !same {
					o.Fail(Failure{Oracle: "eq-coherent", Key: "eq-array-slice-forms", Input: l + " == " + rr + "  (arr3 = arr3b = [3]int64{1,2,3}, arr2 = [2]int64{1,2}, sl3 = []int64{1,2,3}, sl4 = []int64{1,2,3,4}, sarr = [2]string{a,b}, ssl = []string{a,b,c}, barr = [2]byte{1,2}, bsl = []byte{1,2,3})",
						Detail: fmt.Sprintf("a==b, b==a, !(a!=b), !(b!=a), a in [b], b in [a], switch a {case b}, switch b {case a} give %v", answers)})
				}
			}
		}
	}
	// numbers of every Go kind a host can bind: equal exactly when Go's == on the common value says so, one answer in every form
	hostNums := map[string]interface{}{"up5": uintptr(5), "up7": uintptr(7), "u8": uint8(5), "u64": uint64(5), "i8": int8(5), "i16": int16(7), "f32": float32(5), "i5": int64(5), "i7": int64(7)}
	hostVal := map[string]float64{"up5": 5, "up7": 7, "u8": 5, "u64": 5, "i8": 5, "i16": 7, "f32": 5, "i5": 5, "i7": 7}
	// unsigned values above the int64 range among themselves and against the largest int64: different numbers are different
	bigU := map[string]interface{}{"ubig1": uint64(1) << 63, "ubig2": uint64(1)<<63 + 1, "umax": ^uint64(0), "ubig3": uint(1)<<63 + 2, "imax": int64(9223372036854775807), "umaxi": uint64(9223372036854775807)}
	bigRank := map[string]int{"ubig1": 1, "ubig2": 2, "umax": 4, "ubig3": 3, "imax": 0, "umaxi": 0}
	var bn []string
	for k := range bigU {
		bn = append(bn, k)
	}
	sort.Strings(bn)
	for _, l := range bn {
		for _, rr := range bn {
			want := bigRank[l] == bigRank[rr]
			for _, form := range []string{l + " == " + rr, "!(" + l + " != " + rr + ")", l + " in [" + rr + "]", "switch " + l + " {\ncase " + rr + ":\ntrue\ndefault:\nfalse\n}"} {
				out := runScript(form, bigU, nil)
				o.Sum.Evaluations++
				o.Sum.Hist["big-unsigned"]++
				got, ok := asBool(out)
				if !ok || got != want {
					o.Fail(Failure{Oracle: "go-eq", Key: "eq-big-unsigned", Input: form + fmt.Sprintf("  with %s = %T(%v), %s = %T(%v)", l, bigU[l], bigU[l], rr, bigU[rr], bigU[rr]),
						Detail: fmt.Sprintf("the numbers are equal: %v; the script says %v", want, out.answer(vals.Encode))})
				}
			}
		}
	}
	var hn []string
	for k := range hostNums {
		hn = append(hn, k)
	}
	sort.Strings(hn)
	for _, l := range hn {
		for _, rr := range hn {
			want := hostVal[l] == hostVal[rr]
			for _, form := range []string{l + " == " + rr, "!(" + l + " != " + rr + ")", l + " in [" + rr + "]", "switch " + l + " {\ncase " + rr + ":\ntrue\ndefault:\nfalse\n}"} {
				out := runScript(form, hostNums, nil)
				o.Sum.Evaluations++
				o.Sum.Hist["host-number-kinds"]++
				got, ok := asBool(out)
				if !ok || got != want {
					o.Fail(Failure{Oracle: "go-eq", Key: "eq-host-number-kinds", Input: form + fmt.Sprintf("  with %s = %T(%v), %s = %T(%v)", l, hostNums[l], hostNums[l], rr, hostNums[rr], hostNums[rr]),
						Detail: fmt.Sprintf("the numbers are equal: %v; the script says %v", want, out.answer(vals.Encode))})
				}
			}
		}
	}
	// membership in TYPED lists (host-supplied or made by the script) is the same relation: item in T  <=>  some T[i] == item
	typedLists := map[string]interface{}{
		"ti": []int64{0, 1, 2, 10, 65}, "ts": []string{"A", "1", "10", "", "true", "010"}, "tf": []float64{0, 1.5, 3, 10}, "tb": []bool{true}, "tb0": []bool{false},
		"ti32": []int32{1, 65}, "tu8": []byte{1, 65}, "te": []int64{},
	}
	items := []interface{}{nil, true, false, int64(0), int64(1), int64(2), int64(10), int64(65), int64(3), 1.5, 1.0, 3.0, 0.0, 10.0, "1", "10", "A", "", "3", "1.5", "true", "010", "x",
		[]interface{}{int64(1)}, map[interface{}]interface{}{}}
	names := make([]string, 0, len(typedLists))
	for k := range typedLists {
		names = append(names, k)
	}
	sort.Strings(names)
	for _, ln := range names {
		for _, it := range items {
			vars := map[string]interface{}{"item": it, ln: typedLists[ln]}
			out := runScript("item in "+ln, vars, nil)
			disj := runScript("r = false\nfor e in "+ln+" {\nif item == e {\nr = true\n}\n}\nr", vars, nil)
			made := runScript("m = make([]"+map[string]string{"ti": "int64", "ts": "string", "tf": "float64", "tb": "bool", "tb0": "bool", "ti32": "int32", "tu8": "byte", "te": "int64"}[ln]+", 0)\nm += "+ln+"\nitem in m", vars, nil)
			o.Sum.Evaluations++
			o.Sum.Hist["in-typed:"+ln]++
			desc := fmt.Sprintf("item = %T(%v), %s = %T%v", it, it, ln, typedLists[ln], typedLists[ln])
			if out.panicked || disj.panicked || made.panicked {
				o.Fail(Failure{Oracle: "no-panic", Key: "panic:in-typed", Input: desc, Detail: fmt.Sprint(out.panicVal, disj.panicVal, made.panicVal)})
				continue
			}
			a, ok1 := asBool(out)
			b, ok2 := asBool(disj)
			c, ok3 := asBool(made)
			if !ok1 || !ok2 || !ok3 {
				o.Fail(Failure{Oracle: "eq-total", Key: "in-typed-not-bool", Input: desc, Detail: fmt.Sprintf("in: %v, loop with ==: %v, in (script-made list): %v", out.answer(vals.Encode), disj.answer(vals.Encode), made.answer(vals.Encode))})
				continue
			}
			if a != b || c != b {
				o.Fail(Failure{Oracle: "in-uses-eq", Key: "in-typed-differs:" + ln, Input: desc, Detail: fmt.Sprintf("`item in %s` is %v (script-made list: %v) but some element == item is %v", ln, a, c, b)})
			}
		}
	}
	// containers compare structurally, whatever storage they share: views of one list (same start, different lengths; empty
	// tails), a map and itself, separately built equal lists - against Go's reflect.DeepEqual on the same values
	viewSrcs := []string{"a", "a[:1]", "a[:2]", "a[:3]", "a[0:2]", "a[1:]", "a[1:2]", "a[3:]", "a[:0]", "a[2:2]", "b", "b[:2]", "[1, 2]", "[]", "n[0]", "n[0][:1]", "n[1]", "mm", "mm2", "{\"k\": [1]}"}
	setup := "a = [1, 2, 3]\nb = [1, 2, 3]\nn = [[1, 2], [1, 2]]\nmm = {\"k\": [1]}\nmm2 = mm\n"
	for _, ls := range viewSrcs {
		for _, rs := range viewSrcs {
			lv := runScript(setup+ls, nil, nil)
			rv := runScript(setup+rs, nil, nil)
			if lv.err != nil || rv.err != nil || lv.panicked || rv.panicked {
				o.Fail(Failure{Oracle: "eq-template", Key: "eq-view-source", Input: ls + " / " + rs, Detail: fmt.Sprint(lv.err, rv.err)})
				continue
			}
			want := reflect.DeepEqual(lv.val, rv.val)
			for _, form := range []struct{ name, src string }{
				{"==", ls + " == " + rs}, {"!=", "!(" + ls + " != " + rs + ")"}, {"in", ls + " in [0, " + rs + "]"},
				{"switch", "switch " + ls + " {\ncase " + rs + ":\ntrue\ndefault:\nfalse\n}"},
			} {
				out := runScript(setup+form.src, nil, nil)
				o.Sum.Evaluations++
				o.Sum.Hist["views:"+form.name]++
				got, ok := asBool(out)
				if !ok || got != want {
					o.Fail(Failure{Oracle: "containers-compare-structurally", Key: "eq-views:" + form.name, Input: setup + form.src,
						Detail: fmt.Sprintf("the operands are %v and %v: structurally equal = %v, the script says %v", lv.val, rv.val, want, out.answer(vals.Encode))})
				}
			}
		}
	}
	// switches with many clauses of several literal labels of mixed kinds: the clause taken is the first, in order, holding a label that == says
	// the subject equals (the same script computes that with an if / else-if chain and returns both answers)
	// ... and switches whose clauses all END in a literal of one kind (integers / strings) while an earlier label of a clause is of another kind
	for _, fam := range []struct {
		firsts, lasts, subjects []string
	}{
		{[]string{"\"4\"", "6.0", "\"8\"", "true", "\"12.0\"", "nil", "14.0", "\"x\""}, []string{"5", "7", "9", "11", "13", "15", "17", "19"}, []string{"4", "6", "8", "1", "12", "14", "5", "19", "20", "\"4\"", "6.0", "nil", "true"}},
		{[]string{"4", "6.5", "8", "true", "12", "nil", "0", "1"}, []string{"\"a\"", "\"b\"", "\"c\"", "\"d\"", "\"e\"", "\"f\"", "\"g\"", "\"h\""}, []string{"\"4\"", "\"6.5\"", "\"8\"", "\"true\"", "\"12\"", "\"a\"", "\"h\"", "\"0\"", "\"1\"", "4", "true"}},
	} {
		for _, subj := range fam.subjects {
			var sw, chain strings.Builder
			sw.WriteString("switch " + subj + " {\n")
			for k := range fam.firsts {
				a, b := fam.firsts[k], fam.lasts[k]
				fmt.Fprintf(&sw, "case %s, %s:\nb = %d\n", a, b, k)
				kw := "} else if "
				if k == 0 {
					kw = "if "
				}
				fmt.Fprintf(&chain, "%s%s == %s || %s == %s {\na = %d\n", kw, subj, a, subj, b, k)
			}
			sw.WriteString("default:\nb = -1\n}")
			chain.WriteString("} else {\na = -1\n}")
			src := "a = nil\nb = nil\n" + chain.String() + "\n" + sw.String() + "\n[a, b]"
			res, err, pv := execGuard(env.NewEnv(), src)
			o.Sum.Evaluations++
			o.Sum.Hist["big-switch-vs-equal"]++
			pair, _ := res.([]interface{})
			if pv != nil || err != nil || len(pair) != 2 || pair[0] != pair[1] {
				o.Fail(Failure{Oracle: "switch-uses-eq", Key: "big-switch-vs-equal:" + subj, Input: src,
					Detail: fmt.Sprintf("the if / else-if chain on == and the switch must take the same arm; [chain, switch] = %v (err %v, panic %v)", res, err, pv)})
			}
		}
	}
	bigPool := []string{"\"404\"", "404", "\"1.5\"", "1.5", "\"true\"", "true", "false", "\"\"", "0", "nil", "\"abc\"", "1", "\"1\"", "\"0\"", "1.0", "4", "\"4\"", "5", "6.0", "7", "\"x\"", "8"}
	for _, subj := range bigPool {
		for rot := 0; rot < 2; rot++ {
			var sw, chain strings.Builder
			sw.WriteString("switch " + subj + " {\n")
			for k := 0; k+1 < len(bigPool); k += 2 {
				a, b := bigPool[(k+rot)%len(bigPool)], bigPool[(k+1+rot)%len(bigPool)]
				fmt.Fprintf(&sw, "case %s, %s:\nb = %d\n", a, b, k)
				kw := "} else if "
				if k == 0 {
					kw = "if "
				}
				fmt.Fprintf(&chain, "%s%s == %s || %s == %s {\na = %d\n", kw, subj, a, subj, b, k)
			}
			sw.WriteString("default:\nb = -1\n}")
			chain.WriteString("} else {\na = -1\n}")
			src := "a = nil\nb = nil\n" + chain.String() + "\n" + sw.String() + "\n[a, b]"
			res, err, pv := execGuard(env.NewEnv(), src)
			o.Sum.Evaluations++
			o.Sum.Hist["big-switch-vs-equal"]++
			pair, _ := res.([]interface{})
			if pv != nil || err != nil || len(pair) != 2 || pair[0] != pair[1] {
				o.Fail(Failure{Oracle: "switch-uses-eq", Key: "big-switch-vs-equal:" + subj, Input: src,
					Detail: fmt.Sprintf("the if / else-if chain on == and the switch must take the same arm; [chain, switch] = %v (err %v, panic %v)", res, err, pv)})
			}
		}
	}
}

// decimal numerals in Go's syntax: digits, optionally separated by single underscores
var decIntRe = regexp.MustCompile(`^[+-]?[0-9]+(_[0-9]+)*$`)
var decFloatRe = regexp.MustCompile(`^[+-]?([0-9]+(_[0-9]+)*\.?([0-9]+(_[0-9]+)*)?|\.[0-9]+(_[0-9]+)*)([eE][+-]?[0-9]+(_[0-9]+)*)?$`)

func unwrapEnc(e string) string {
	if len(e) > 3 && e[:3] == "(w " {
		return e[3 : len(e)-1]
	}
	return e
}
