package main

import (
	"errors"
	"fmt"
	"math/rand"
	"strings"

	"github.com/mattn/anko/ast/astutil"
	"github.com/mattn/anko/parser"

	"veriftools/internal/astser"
	"veriftools/internal/gen"
)

func init() { streams["walk"] = streamWalk }

// walkCorpus: hand-written programs exercising every node kind in child positions
// (replayed first on every run).
var walkCorpus = []string{
	"",
	"a",
	"x = a[1:2:3] ?? len(b)",
	"delete(a, b); delete(a); close(c); a = <- c; a, ok = <- c; c <- 1; <- c",
	"switch a { case 1, 2: b\ncase 3: c\ndefault: d }",
	"make(type T, a + b); make([]int64, a, b); make(chan int64, a); new(int64)",
	"func f(a, b...) { return a, b }(1, [2]...)",
	"go f(a); go func(){ b }(); defer f(a...); defer func(){ b }()",
	"try { throw a } catch e { b } finally { c }",
	"for { break }; for a { continue }; for a in b { c }; for a = 1; a < 2; a++ { b }; for ; ; { }",
	"module m { a = 1 }; m.a; a.b = c; a[b] = c; *a = b; &a; a in b; !a; -a; ^a",
	"{\"a\": b, c: d}; map[string]int64{\"a\": 1}; [a, b]; []int64{a}; a ? b : c; (a)",
	"a, b = m[k]; var a, b = c, d; a, b = c, d; a += b; a--; import(\"strings\"); len(a)",
	"if a { b } else if c { d } else if e { f } else { g }",
}

var errStop = errors.New("stop here")

func streamWalk(o *Out, r *rand.Rand, n int, thorough bool) {
	o.Sum.Rule = "programs: corpus + grammar-directed random source (gen.Syn); non-trivial = parses to a tree with >= 3 nodes; distinct by request hash"
	g := gen.NewSyn(r)
	kindsSeen := map[string]int{}
	slotSeen := map[string]int{}
	for i := 0; i < n+len(walkCorpus); i++ {
		var src string
		if i < len(walkCorpus) {
			src = walkCorpus[i]
		} else {
			src = g.Program(1+r.Intn(4), 1+r.Intn(4))
		}
		stmt, err := parser.ParseSrc(src)
		if err != nil {
			o.Sum.Skipped++
			continue
		}
		var root *astser.Node
		if stmt != nil {
			root = astser.Build("root", stmt, []int{0})
		}
		var all []*astser.Node
		var sb strings.Builder
		sb.WriteString("(walk (")
		if root != nil {
			root.Sexp(&sb)
			all = root.All()
		}
		for _, nd := range all {
			kindsSeen[nd.Kind]++
			slotSeen[nd.Kind+"."+nd.Slot]++
		}
		// full walk
		var visited []interface{}
		werr := astutil.Walk(stmt, func(x interface{}) error {
			visited = append(visited, x)
			return nil
		})
		// --- implementation-side oracle (independent of the model) ---
		paths := resolvePaths(visited, all)
		at := map[string]int{}
		for idx, p := range paths {
			if _, ok := at[p]; !ok {
				at[p] = idx
			}
		}
		if werr != nil {
			o.Fail(Failure{Oracle: "walk-no-error", Key: "walk-error:" + werr.Error(), Input: src, Detail: "Walk returned " + werr.Error() + " although the callback never fails"})
		}
		kindAt := map[string]string{}
		for _, nd := range all {
			kindAt[astser.PathString(nd.Path)] = nd.Kind
		}
		for _, nd := range all {
			p, ok := at[astser.PathString(nd.Path)]
			if !ok {
				// report only the topmost missed node: its parent was presented (or it is the root)
				parentSeen, parentKind := true, "root"
				if len(nd.Path) > 1 {
					pp := astser.PathString(nd.Path[:len(nd.Path)-1])
					_, parentSeen = at[pp]
					parentKind = kindAt[pp]
				}
				if werr == nil && parentSeen {
					o.Fail(Failure{Oracle: "walk-reaches-every-node", Key: "walk-misses:" + parentKind + "." + nd.Slot, Input: src, Detail: fmt.Sprintf("node %s in slot %s.%s at path %v is never presented to the callback", nd.Kind, parentKind, nd.Slot, nd.Path)})
				}
				continue
			}
			for _, k := range nd.Kids {
				if kp, ok := at[astser.PathString(k.Path)]; ok && kp < p {
					o.Fail(Failure{Oracle: "walk-parent-first", Key: "walk-child-before-parent:" + nd.Kind, Input: src, Detail: fmt.Sprintf("child %s presented before its parent %s", k.Kind, nd.Kind)})
				}
			}
		}
		for i, p := range paths {
			if strings.HasPrefix(p, "(unresolved") {
				o.Fail(Failure{Oracle: "walk-presents-tree-nodes", Key: "walk-foreign-or-repeated-node", Input: src, Detail: fmt.Sprintf("presentation %d: %s is not a (not yet presented) node of the parsed tree", i, p)})
				break
			}
		}
		// model request 1: full walk
		req := sb.String() + ") nil)"
		ans := renderWalk(true, "ok", len(all), visited, all)
		if werr != nil {
			ans = "impl-error " + werr.Error()
		}
		o.Case(req, ans, src, len(all) >= 3)

		// failing callback at the k-th presentation
		if len(visited) > 0 && werr == nil {
			k := r.Intn(len(visited))
			var got []interface{}
			calls := 0
			ferr := astutil.Walk(stmt, func(x interface{}) error {
				calls++
				got = append(got, x)
				if calls == k+1 {
					return errStop
				}
				return nil
			})
			if ferr != errStop || calls != k+1 {
				o.Fail(Failure{Oracle: "walk-stops-at-first-error", Key: "walk-continues-after-error", Input: src, Detail: fmt.Sprintf("callback failed at call %d; Walk returned %v after %d calls", k+1, ferr, calls)})
			}
			// the k-th node's own path in the model's numbering: find a path whose canonical id matches and
			// whose pre-order position is consistent; shared pointers (oneLiteral) make this ambiguous, skip them
			cnt := 0
			var failPath string
			for _, nd := range all {
				if nd.Ptr == visited[k] {
					cnt++
					failPath = astser.PathString(nd.Path)
				}
			}
			if cnt == 1 {
				req2 := sb.String() + ") " + failPath + ")"
				ans2 := renderWalk(true, "cberr "+failPath, len(all), got, all)
				o.Case(req2, ans2, src+" /*fail at "+failPath+"*/", len(all) >= 3)
			}
		}
	}
	mergeHist(o.Sum.Hist, g.Hist)
	for k, v := range kindsSeen {
		o.Sum.Hist["kind:"+k] = v
	}
	o.Sum.Hist["distinct-kind-slot-pairs"] = len(slotSeen)
}

// resolvePaths turns the sequence of presented pointers into model paths. A pointer that occurs at
// several paths (the parser shares the operand of `x++` / `x += e` and the literal 1) is resolved to
// the unused path whose parent was presented most recently.
func resolvePaths(visited []interface{}, all []*astser.Node) []string {
	cands := map[interface{}][]string{}
	for _, nd := range all {
		cands[nd.Ptr] = append(cands[nd.Ptr], astser.PathString(nd.Path))
	}
	parentOf := map[string]string{}
	for _, nd := range all {
		if len(nd.Path) > 1 {
			parentOf[astser.PathString(nd.Path)] = astser.PathString(nd.Path[:len(nd.Path)-1])
		}
	}
	emitted := map[string]int{}
	ps := make([]string, len(visited))
	for i, x := range visited {
		best, bestAt := "", -2
		for _, c := range cands[x] {
			if _, used := emitted[c]; used {
				continue
			}
			at := -1
			if par, ok := parentOf[c]; ok {
				pa, ok := emitted[par]
				if !ok {
					continue
				}
				at = pa
			}
			if at > bestAt {
				best, bestAt = c, at
			}
		}
		if best == "" {
			ps[i] = fmt.Sprintf("(unresolved %T)", x)
			continue
		}
		emitted[best] = i
		ps[i] = best
	}
	return ps
}

func renderWalk(wf bool, res string, size int, visited []interface{}, all []*astser.Node) string {
	return fmt.Sprintf("wf=%v res=%s size=%d visited=%s", wf, res, size, strings.Join(resolvePaths(visited, all), " "))
}

// long flat lists and long chains: a node's position among its siblings must not matter
func init() {
	rep := func(n int, f func(i int) string, sep string) string {
		xs := make([]string, n)
		for i := range xs {
			xs[i] = f(i)
		}
		return strings.Join(xs, sep)
	}
	num := func(i int) string { return fmt.Sprint(i) }
	walkCorpus = append(walkCorpus,
		rep(1200, func(i int) string { return fmt.Sprintf("x = %d", i) }, "\n"),
		"a = ["+rep(1200, num, ", ")+"]",
		"f("+rep(1100, num, ", ")+")",
		"x = "+rep(700, num, " + "),
		"m = {"+rep(1100, func(i int) string { return fmt.Sprintf("%d: %d", i, i) }, ", ")+"}",
		"if true {\n"+rep(1100, func(i int) string { return fmt.Sprintf("g(%d)", i) }, "\n")+"\n}",
		"switch x {\n"+rep(1050, func(i int) string { return fmt.Sprintf("case %d:\ny = %d", i, i) }, "\n")+"\n}",
		"func h("+rep(1050, func(i int) string { return fmt.Sprintf("p%d", i) }, ", ")+") { return p0 }",
		"x = "+strings.Repeat("(", 300)+"1"+strings.Repeat(")", 300),
		"x = "+strings.Repeat("[", 300)+"1"+strings.Repeat("]", 300),
		"a, b = "+rep(1100, num, ", "),
	)
}
