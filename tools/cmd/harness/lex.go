package main

import (
	"fmt"
	"math/rand"
	"strings"
	"sync"
	"time"
	"unicode/utf8"

	"github.com/mattn/anko/ast"
	"github.com/mattn/anko/parser"

	"veriftools/internal/astser"
	"veriftools/internal/gen"
)

func init() { streams["lex"] = streamLex }

var tokNames = map[int]string{
	parser.IDENT: "IDENT", parser.NUMBER: "NUMBER", parser.STRING: "STRING",
	parser.FUNC: "FUNC", parser.RETURN: "RETURN", parser.VAR: "VAR", parser.THROW: "THROW", parser.IF: "IF", parser.FOR: "FOR",
	parser.BREAK: "BREAK", parser.CONTINUE: "CONTINUE", parser.IN: "IN", parser.ELSE: "ELSE", parser.NEW: "NEW", parser.TRUE: "TRUE",
	parser.FALSE: "FALSE", parser.NIL: "NIL", parser.MODULE: "MODULE", parser.TRY: "TRY", parser.CATCH: "CATCH", parser.FINALLY: "FINALLY",
	parser.SWITCH: "SWITCH", parser.CASE: "CASE", parser.DEFAULT: "DEFAULT", parser.GO: "GO", parser.DEFER: "DEFER", parser.CHAN: "CHAN",
	parser.STRUCT: "STRUCT", parser.MAKE: "MAKE", parser.TYPE: "TYPE", parser.LEN: "LEN", parser.DELETE: "DELETE", parser.CLOSE: "CLOSE",
	parser.MAP: "MAP", parser.IMPORT: "IMPORT",
	parser.NEQ: "NEQ", parser.EQEQ: "EQEQ", parser.EQOPCHAN: "EQOPCHAN", parser.NILCOALESCE: "NILCOALESCE", parser.PLUSPLUS: "PLUSPLUS",
	parser.PLUSEQ: "PLUSEQ", parser.MINUSMINUS: "MINUSMINUS", parser.MINUSEQ: "MINUSEQ", parser.MULEQ: "MULEQ", parser.DIVEQ: "DIVEQ",
	parser.GE: "GE", parser.SHIFTRIGHT: "SHIFTRIGHT", parser.OPCHAN: "OPCHAN", parser.LE: "LE", parser.SHIFTLEFT: "SHIFTLEFT",
	parser.OROR: "OROR", parser.OREQ: "OREQ", parser.ANDAND: "ANDAND", parser.ANDEQ: "ANDEQ", parser.VARARG: "VARARG",
	parser.EOF: "EOF",
}

// scanAll drives the real Scanner token by token, as Lexer.Lex does, up to EOF or the first error.
// scanAll runs the scanner over src in its own goroutine: a Scan call that never returns (a loop that stops
// advancing at the end of the text) is reported instead of hanging the stream
func scanAll(src string) (line string, panicked interface{}) {
	type res struct {
		line string
		p    interface{}
	}
	ch := make(chan res, 1)
	go func() {
		l, p := scanAllSync(src)
		ch <- res{l, p}
	}()
	select {
	case r := <-ch:
		return r.line, r.p
	case <-time.After(10 * time.Second):
		scanHangs++
		return "SCAN-DOES-NOT-RETURN", nil
	}
}

var scanHangs int

func scanAllSync(src string) (line string, panicked interface{}) {
	defer func() {
		if p := recover(); p != nil {
			panicked = p
		}
	}()
	var s parser.Scanner
	s.Init(src)
	var b strings.Builder
	limit := 4*utf8.RuneCountInString(src) + 16
	for i := 0; ; i++ {
		if i > limit {
			b.WriteString("NO-PROGRESS")
			return b.String(), nil
		}
		tok, lit, pos, err := s.Scan()
		if err != nil {
			fmt.Fprintf(&b, "err:%s@%d:%d", hexOf(err.Error()), pos.Line, pos.Column)
			return b.String(), nil
		}
		name, ok := tokNames[tok]
		if !ok {
			if tok > 0 && tok < 128 {
				name = "CH"
			} else {
				name = fmt.Sprintf("TOK%d", tok)
			}
		}
		fmt.Fprintf(&b, "%s:%s@%d:%d ", name, hexOf(lit), pos.Line, pos.Column)
		if tok == parser.EOF {
			b.WriteString("ok")
			return b.String(), nil
		}
	}
}

type parseRes struct {
	stmt     ast.Stmt
	err      error
	panicked interface{}
	timeout  bool
}

func parseGuarded(src string, limit time.Duration) parseRes {
	ch := make(chan parseRes, 1)
	go func() {
		var r parseRes
		defer func() {
			if p := recover(); p != nil {
				r.panicked = p
			}
			ch <- r
		}()
		r.stmt, r.err = parser.ParseSrc(src)
	}()
	select {
	case r := <-ch:
		return r
	case <-time.After(limit):
		return parseRes{timeout: true}
	}
}

var lexFrags = []string{
	"a", "b1", "_x", "if", "else", "for", "func", "return", "var", "in", "nil", "true", "module", "try", "catch", "switch", "case",
	"default", "go", "defer", "chan", "struct", "make", "type", "len", "delete", "close", "map", "import", "new", "throw", "break", "continue", "finally", "false",
	"0", "1", "12", "0x1F", "0xe", "0xfe", "0x1e", "0xE", "0Xe", "0b1", "1e2", "1.5e", "0X", "0b101", "0b2", "1.5", "1e3", "1e+3", "1E-2", "1ee", "1e", "1.", "1..2", "1a", "0xg", "9_",
	"\"s\"", "\"a\\nb\"", "\"\\\"\"", "'c'", "'\\''", "`raw`", "`ra\nw`", "\"unterminated", "'un", "`un", "\"a\nb\"", "\"\\", "\"\\q\"",
	"!", "!=", "=", "==", "= <-", "=  <-", "= <", "?", "??", "+", "++", "+=", "-", "--", "-=", "*", "*=", "/", "/=", "//c", "// c\n", "/*c*/", "/* c", "/**/", "/***/", "/* * / */", "/*/", "#c", "# c\n",
	">", ">=", ">>", "<", "<-", "<=", "<<", "|", "||", "|=", "&", "&&", "&=", ".", "..", "...", "....",
	"\n", "\n\n", "(", ")", ":", ";", "%", "{", "}", "[", "]", ",", "^", " ", "  ", "\t", "\r", "\r\n", "$", "@", "~", "\\", "\x00", "\x7f",
}

func mutateSrc(r *rand.Rand, s string) string {
	b := []byte(s)
	k := 1 + r.Intn(3)
	for i := 0; i < k && len(b) > 0; i++ {
		p := r.Intn(len(b))
		switch r.Intn(5) {
		case 0: // delete a byte
			b = append(b[:p], b[p+1:]...)
		case 1: // insert a fragment
			f := lexFrags[r.Intn(len(lexFrags))]
			b = append(b[:p], append([]byte(f), b[p:]...)...)
		case 2: // replace a byte
			b[p] = "(){}[]\"'`/*#\n;=<-.+ e0x"[r.Intn(23)]
		case 3: // truncate
			b = b[:p]
		case 4: // duplicate a span
			q := p + r.Intn(len(b)-p)
			b = append(b[:q], append(append([]byte{}, b[p:q]...), b[q:]...)...)
		}
	}
	return string(b)
}

func lineInfo(src string) (lens []int) {
	for _, l := range strings.Split(src, "\n") {
		lens = append(lens, utf8.RuneCountInString(l))
	}
	return
}

func streamLex(o *Out, r *rand.Rand, n int, thorough bool) {
	o.Sum.Rule = "source texts: programs generated over the whole grammar, byte-level mutations of them (delete/insert/replace/truncate/duplicate), token soups over a pool of " +
		"lexer-relevant fragments (all operators, numbers incl. malformed, strings/raw strings/comments incl. unterminated), deep bracket nests, random bytes incl. invalid UTF-8; " +
		"each ASCII text is scanned token by token by the real Scanner and by the Lean scanner model (token kind, literal, line:column, first error); each text goes through ParseSrc " +
		"under a panic/timeout guard (error type, position range, same dump on a second parse); pairs of texts that parse are concatenated; batches are parsed concurrently"
	syn := gen.NewSyn(r)
	var valid []string
	type item struct{ kind, src string }
	var items []item
	for i := 0; i < n; i++ {
		var it item
		switch k := i % 10; {
		case k < 3:
			it = item{"valid", syn.Program(1+r.Intn(4), 1+r.Intn(3))}
		case k < 6:
			it = item{"mutated", mutateSrc(r, syn.Program(1+r.Intn(3), 1+r.Intn(3)))}
		case k < 8:
			var b strings.Builder
			for j, m := 0, 1+r.Intn(12); j < m; j++ {
				b.WriteString(lexFrags[r.Intn(len(lexFrags))])
				if r.Intn(3) == 0 {
					b.WriteString(" ")
				}
			}
			it = item{"soup", b.String()}
		case k == 8:
			depth := 1 + r.Intn(200)
			if thorough && r.Intn(20) == 0 {
				depth = 20000
			}
			open := []string{"(", "[", "{", "f(", "a[", "if 1 {", "func() {", "[1, ", "{\"k\": "}[r.Intn(9)]
			cl := map[string]string{"(": ")", "[": "]", "{": "}", "f(": ")", "a[": "]", "if 1 {": "}", "func() {": "}", "[1, ": "]", "{\"k\": ": "}"}[open]
			nclose := depth
			switch r.Intn(3) {
			case 0:
				nclose = r.Intn(depth + 1)
			case 1:
				nclose = depth + r.Intn(3)
			}
			it = item{"nest", strings.Repeat(open, depth) + "1" + strings.Repeat(cl, nclose)}
		default:
			b := make([]byte, r.Intn(40))
			for j := range b {
				if r.Intn(3) == 0 {
					b[j] = byte(r.Intn(256))
				} else {
					b[j] = " \n\"'`/*#ab01.=<-(){}[]é"[r.Intn(24)]
				}
			}
			it = item{"bytes", string(b)}
		}
		items = append(items, it)
	}
	// numeric literal directly against an operator or another fragment, no blank: where a literal ends must depend
	// on the literal's base only (a hex digit e is not an exponent marker, a binary literal ends at the first non-binary digit)
	for _, l := range []string{"0xe", "0xfe", "0x1e", "0xE", "0x1F", "0XAE", "0b1", "0b10", "7", "10", "1e3", "1E3", "1.5", "1.5e2", "1e", "0xg", "0x", "1.", "0e", "0b1e"} {
		for _, op := range []string{"+", "-", "*", "/", "%", "+-", "-+", "--", "++", "<", "=", ".", " -", " +", "e", "E", "e-", "e+", "x", "b", "_", "p", "p-"} {
			for _, r2 := range []string{"1", "0x1", "e", "2e1", "0b1"} {
				items = append(items, item{"tight", "a = " + l + op + r2})
			}
		}
	}
	// long chains of increments / compound assignments / unary operators (the grammar shares the operand between the target and the generated
	// operator: whatever walks the tree after parsing must not take a number of steps that doubles with every level)
	for _, k := range []int{8, 30, 64, 200} {
		items = append(items, item{"chain", "a" + strings.Repeat("++", k)}, item{"chain", "a" + strings.Repeat("--", k)}, item{"chain", strings.Repeat("(", k) + "a" + strings.Repeat(" += 1)", k)},
			item{"chain", "x = " + strings.Repeat("-", k) + "a"}, item{"chain", "x = " + strings.Repeat("!", k) + "a"}, item{"chain", "a" + strings.Repeat("[0]", k) + "++"},
			item{"chain", strings.Repeat("(", k) + "a" + strings.Repeat(" = 1)", k)}, item{"chain", "a" + strings.Repeat(".b", k) + " += 1"})
	}
	// block comments whose text starts or ends with the characters of the delimiters (`/*/` is an OPEN comment, not a complete one)
	for _, c := range []string{"8 /*/ - 2 /*/ - 3", "\"a\" + /*/ \"b\" + /*/ \"c\"", "2 /*/ * 100 */ + 1", "/*/", "/*/ x", "/**/ 1", "/***/ 1", "/*/*/ 1", "/* * / */ 1", "1 /*/*/ + /**/ 2", "a = 1 /*//*/ + 2", "/*\n*/ 1", "x /* /* */ y", "1 /**/+/**/ 2 /*/ never closed"} {
		items = append(items, item{"comment", c})
	}
	// every error a grammar action raises itself (not the generated parser), on first left-hand expressions of every kind,
	// behind earlier lines and with trailing text: the position must lie in the text
	lhss := []string{"a", "a[0:1]", "a[1:]", "<-c", "{\"k\": 1}", "a.b", "a[0]", "*p", "(a)", "f()", "[1, 2]", "a[0:1][0]", "-a", "!a", "m[\"k\"]"}
	for _, pre := range []string{"", "x = 1\n", "x = 1\n\n  ", "# c\n\ty = 2; "} {
		for _, l := range lhss {
			for _, tmpl := range []string{"%s, b =", "%s, b, c = <- d", "%s, b = ", "%s =", "%s, b, c = <-", "for %s, b, c in d { }", "%s, b = 1,", "%s, b <- 1", "var %s, b = 1"} {
				items = append(items, item{"action-error", pre + fmt.Sprintf(tmpl, l) + "\nz = 3"}, item{"action-error", pre + fmt.Sprintf(tmpl, l)})
			}
		}
		for _, body := range []string{"y = 2", "", "\ty = 2\n\tz = 3"} {
			items = append(items, item{"action-error", pre + "switch x {\ncase 1:\n" + body + "\ndefault:\n" + body + "\ndefault:\n" + body + "\n}"},
				item{"action-error", pre + "switch x {\ndefault:\n" + body + "\ndefault:\n}"},
				item{"action-error", pre + "if a {\n" + body + "\n} else {\n" + body + "\n} else {\n" + body + "\n}"},
				item{"action-error", pre + "a = -0x\n" + body}, item{"action-error", pre + "a = 1e\n" + body}, item{"action-error", pre + "f(a,\n" + body},
				item{"action-error", pre + "make(type\n" + body}, item{"action-error", pre + "func(a, ) { }"}, item{"action-error", pre + "{\"k\": 1, ,}"})
		}
	}
	dumps := make([]string, len(items))
	for i, it := range items {
		src := it.src
		o.Sum.Hist["src:"+it.kind]++
		// K-lex: token streams
		line, p := scanAll(src)
		if p != nil {
			o.Fail(Failure{Oracle: "scanner-total", Key: "scan-panic", Input: src, Detail: fmt.Sprint(p)})
		} else {
			if line == "SCAN-DOES-NOT-RETURN" {
				o.Fail(Failure{Oracle: "scanner-total", Key: "scan-does-not-terminate", Input: src, Detail: "a call of Scan had not returned after 10 s"})
				if scanHangs >= 3 {
					break // each further one costs 10 s and leaves a spinning goroutine behind
				}
				continue
			}
			if strings.Contains(line, "NO-PROGRESS") {
				o.Fail(Failure{Oracle: "scanner-total", Key: "scan-no-progress", Input: src, Detail: "Scan keeps returning tokens without reaching EOF"})
			}
			if strings.HasSuffix(line, " ok") {
				o.Sum.Hist["scan:ok"]++
			} else {
				o.Sum.Hist["scan:error"]++
			}
			o.Case("(lex "+hexOf(src)+")", line, src, it.kind != "nest")
		}
		// ParseSrc: total, typed error, position in range, no memory
		res := parseGuarded(src, 20*time.Second)
		o.Sum.Evaluations++
		if res.timeout {
			o.Fail(Failure{Oracle: "parse-terminates", Key: "parse-timeout", Input: src, Detail: "ParseSrc did not return within 20 s"})
			continue
		}
		if res.panicked != nil {
			o.Fail(Failure{Oracle: "parse-total", Key: "parse-panic", Input: src, Detail: fmt.Sprint(res.panicked)})
			continue
		}
		if res.err == nil {
			o.Sum.Hist["parse:ok"]++
			if res.stmt == nil {
				// the empty tree: only for texts without any token but separators
				o.Sum.Hist["parse:empty-tree"]++
				for _, f := range strings.Fields(line) {
					if f != "ok" && !strings.HasPrefix(f, "EOF:") && !strings.HasPrefix(f, "CH:0a@") && !strings.HasPrefix(f, "CH:3b@") {
						o.Fail(Failure{Oracle: "parse-total", Key: "nil-tree-nil-error", Input: src, Detail: "ParseSrc returned (nil, nil) for a text with tokens: " + line})
						break
					}
				}
			}
			if it.kind == "chain" {
				// increments / compound assignments share their operand between two places of the tree: a chain of them is a tree only
				// as a graph, and writing it out takes a number of steps that doubles per level - these items are about ParseSrc returning
				continue
			}
			dumps[i] = astser.Dump(res.stmt, 0)
			valid = append(valid, src)
		} else {
			o.Sum.Hist["parse:error"]++
			pe, ok := res.err.(*parser.Error)
			if !ok {
				o.Fail(Failure{Oracle: "error-type", Key: "error-type", Input: src, Detail: fmt.Sprintf("error of type %T: %v", res.err, res.err)})
				continue
			}
			lens := lineInfo(string([]rune(src)))
			if pe.Pos.Line < 1 || pe.Pos.Line > len(lens) {
				o.Fail(Failure{Oracle: "position-range", Key: "error-line", Input: src, Detail: fmt.Sprintf("error %q at line %d, input has %d lines", pe.Message, pe.Pos.Line, len(lens))})
			} else if pe.Pos.Column < 1 || pe.Pos.Column > lens[pe.Pos.Line-1]+1 {
				o.Fail(Failure{Oracle: "position-range", Key: "error-column", Input: src, Detail: fmt.Sprintf("error %q at %d:%d, that line has %d runes", pe.Message, pe.Pos.Line, pe.Pos.Column, lens[pe.Pos.Line-1])})
			}
			dumps[i] = "error:" + pe.Message + fmt.Sprintf("@%d:%d", pe.Pos.Line, pe.Pos.Column)
		}
		// the same text again
		res2 := parseGuarded(src, 20*time.Second)
		d2 := ""
		if res2.err == nil && !res2.timeout && res2.panicked == nil {
			d2 = astser.Dump(res2.stmt, 0)
		} else if pe, ok := res2.err.(*parser.Error); ok {
			d2 = "error:" + pe.Message + fmt.Sprintf("@%d:%d", pe.Pos.Line, pe.Pos.Column)
		}
		if d2 != dumps[i] {
			o.Fail(Failure{Oracle: "no-memory", Key: "reparse-differs", Input: src, Detail: "second parse of the same text gave a different result"})
		}
	}
	// concurrent parses of the whole batch
	for round := 0; round < 2; round++ {
		var wg sync.WaitGroup
		got := make([]string, len(items))
		sem := make(chan struct{}, 16)
		for i := range items {
			if dumps[i] == "" || items[i].kind == "nest" {
				continue
			}
			wg.Add(1)
			go func(i int) {
				defer wg.Done()
				sem <- struct{}{}
				defer func() { <-sem }()
				defer func() {
					if p := recover(); p != nil {
						got[i] = fmt.Sprint("panic:", p)
					}
				}()
				stmt, err := parser.ParseSrc(items[i].src)
				if err == nil {
					got[i] = astser.Dump(stmt, 0)
				} else if pe, ok := err.(*parser.Error); ok {
					got[i] = "error:" + pe.Message + fmt.Sprintf("@%d:%d", pe.Pos.Line, pe.Pos.Column)
				}
			}(i)
		}
		wg.Wait()
		for i := range items {
			if dumps[i] == "" || items[i].kind == "nest" {
				continue
			}
			o.Sum.Evaluations++
			o.Sum.Hist["concurrent-parse"]++
			if got[i] != dumps[i] {
				o.Fail(Failure{Oracle: "no-memory-concurrent", Key: "concurrent-parse-differs", Input: items[i].src, Detail: "parse under concurrent parses differs from the sequential parse"})
			}
		}
	}
	// concatenation
	npairs := n
	if len(valid) < 2 {
		npairs = 0
	}
	// pairs run first on every run: a text with a non-empty block followed by a text with an EMPTY block of the same shape
	// (an empty block is empty, not whatever block was reduced before it at that depth), and single texts with both
	fixedPairs := [][2]string{
		{"x = 1\nif c { y = 2 }", "if d { }"}, {"if a { b = 1 }", "if c { } else { }"}, {"func f() { z = 1 }", "g = func() { }"}, {"for i in x { y }", "for j in z { }"},
		{"if false { a = 1 } else { }", "h()"}, {"try { a } catch { b }", "try { } catch { }"}, {"switch x {\ncase 1:\na\n}", "switch y {\n}"}, {"module m { a = 1 }", "module n { }"},
		{"for { a }", "for { }"}, {"for i = 0; i < 1; i++ { a }", "for i = 0; i < 1; i++ { }"}, {"f = func(a) { return a }", "g = func(a) {}"}, {"if a { b } else if c { d } else { e }", "if a { } else if c { } else { }"},
		{"x = 1\ny = 2\nif a { b }", "z = 3\nw = 4\nif c {}"}, {"go func() { a }()", "go func() { }()"}, {"defer func() { a }()", "defer func() {}()"},
	}
	// very long lines: a node whose token starts thousands of columns into its line keeps line and column (alone and shifted)
	long := strings.Repeat("y", 5000)
	manyElems := "l = [" + strings.Repeat("1, ", 2500) + "2]"
	nested := "n = " + strings.Repeat("(", 2200) + "1" + strings.Repeat(")", 2200) + " + t"
	fixedPairs = append(fixedPairs, [][2]string{
		{"a = 1", "s = \"" + long + "\" + t"}, {"a = 1\nb = 2", manyElems + "\nz = l"}, {"a = 1", nested}, {"s = \"" + long + "\" + t", "u = 2\nv = \"" + long + "\" + w"},
		{"a = 1\nb = 2\nc = 3", "f(" + strings.Repeat("x, ", 1400) + "y) + g(z)"}, {manyElems, manyElems},
		// a byte order mark is no blank: whatever a text with one at its start does alone, it does after another text
		{"a = 1", "\ufeffb = 2"}, {"a = 1", "\ufeff"}, {"\ufeffa = 1", "b = 2"}, {"", "\ufeffb = 2"}, {"a = 1 # c", "\ufeff\nb = 2"},
	}...)
	if npairs > 0 {
		npairs += len(fixedPairs)
	}
	for i := 0; i < npairs; i++ {
		a, b := valid[r.Intn(len(valid))], valid[r.Intn(len(valid))]
		if i < len(fixedPairs) {
			a, b = fixedPairs[i][0], fixedPairs[i][1]
		}
		if len(a)+len(b) > 20000 {
			continue
		}
		// texts made of separators only, and texts that start with separators
		seps := []string{";", ";;", "\n;", "# c\n;", " ; ", "", "\n\n", ";\n;"}
		sw := r.Intn(8)
		if i < len(fixedPairs) {
			sw = 7
		}
		switch sw {
		case 0:
			a = seps[r.Intn(len(seps))]
		case 1:
			b = seps[r.Intn(len(seps))] + b
		case 2:
			a, b = seps[r.Intn(len(seps))], seps[r.Intn(len(seps))]+b
		case 3:
			// the same inside a block: an empty statement in front changes nothing but the lines
			inner := func(src string) ([]string, bool) {
				st, err := parser.ParseSrc(src)
				if err != nil {
					return nil, false
				}
				ss, ok := st.(*ast.StmtsStmt)
				if !ok || len(ss.Stmts) != 1 {
					return nil, false
				}
				switch x := ss.Stmts[0].(type) {
				case *ast.IfStmt:
					return astser.DumpStmts(x.Then, 0)
				case *ast.LoopStmt:
					return astser.DumpStmts(x.Stmt, 0)
				}
				return nil, false
			}
			head := []string{"if true {", "for {"}[r.Intn(2)]
			sep := []string{";", "# c\n;", ";;"}[r.Intn(3)]
			plain, ok1 := inner(head + "\n\n" + strings.Repeat("\n", strings.Count(sep, "\n")) + a + "\n}")
			withSep, ok2 := inner(head + "\n" + sep + "\n" + a + "\n}")
			o.Sum.Hist["concat:block-separator"]++
			if ok1 && (!ok2 || strings.Join(plain, "\n") != strings.Join(withSep, "\n")) {
				o.Fail(Failure{Oracle: "concat-tree", Key: "block-separator-differs", Input: head + "\n" + sep + "\n" + a + "\n}",
					Detail: fmt.Sprintf("with the separator line replaced by an empty line the block has %d statements, with it %d (parsed %v)", len(plain), len(withSep), ok2)})
			}
			continue
		}
		sa, ea := parser.ParseSrc(a)
		sb, eb := parser.ParseSrc(b)
		if ea != nil || eb != nil {
			// the claim is about two texts that each parse on their own
			o.Sum.Hist["concat:not-both-valid"]++
			continue
		}
		da, ok1 := astser.DumpStmts(sa, 0)
		db, ok2 := astser.DumpStmts(sb, strings.Count(a, "\n")+1)
		if !ok1 || !ok2 {
			o.Sum.Hist["concat:not-stmts"]++
			continue
		}
		o.Sum.Evaluations++
		o.Sum.Hist["concat"]++
		res := parseGuarded(a+"\n"+b, 20*time.Second)
		if res.err != nil || res.timeout || res.panicked != nil {
			o.Fail(Failure{Oracle: "concat-parses", Key: "concat-error", Input: a + "\n<<<>>>\n" + b, Detail: fmt.Sprint("both parse alone; joined by a newline: ", res.err, res.panicked, res.timeout)})
			continue
		}
		dc, ok := astser.DumpStmts(res.stmt, 0)
		want := append(append([]string{}, da...), db...)
		if !ok || strings.Join(dc, "\n") != strings.Join(want, "\n") {
			det := fmt.Sprintf("%d + %d statements, joined text gives %d", len(da), len(db), len(dc))
			for j := 0; j < len(dc) && j < len(want); j++ {
				if dc[j] != want[j] {
					det += fmt.Sprintf("\nfirst difference at statement %d:\n want %s\n got  %s", j, want[j], dc[j])
					break
				}
			}
			o.Fail(Failure{Oracle: "concat-tree", Key: "concat-differs", Input: a + "\n<<<>>>\n" + b, Detail: det})
		}
	}
	mergeHist(o.Sum.Hist, prefixHist("syn:", syn.Hist))
}

func prefixHist(p string, h map[string]int) map[string]int {
	out := map[string]int{}
	for k, v := range h {
		out[p+k] = v
	}
	return out
}
