package main

import (
	"fmt"
	"math/rand"
	"reflect"
	"sort"
	"strconv"
	"strings"

	"github.com/mattn/anko/env"
	"github.com/mattn/anko/vm"
)

func init() { streams["cont"] = streamCont }

// carg is an operand: a variable or a literal scalar.
type carg struct {
	isVar bool
	name  string
	lit   interface{} // nil, int64, bool, string
}

func (a carg) src() string {
	if a.isVar {
		return a.name
	}
	switch v := a.lit.(type) {
	case nil:
		return "nil"
	case string:
		return strconv.Quote(v)
	}
	return fmt.Sprint(a.lit)
}

func (a carg) sexp() string {
	if a.isVar {
		return "(v " + a.name + ")"
	}
	switch v := a.lit.(type) {
	case nil:
		return "nil"
	case int64:
		return fmt.Sprintf("(i %d)", v)
	case bool:
		if v {
			return "(b 1)"
		}
		return "(b 0)"
	case string:
		if v == "" {
			return "(s)"
		}
		return "(s " + hexOf(v) + ")"
	}
	return "?"
}

// renderGo renders a Go value as the model driver renders its values.
func renderGo(x interface{}, depth int) string {
	switch v := x.(type) {
	case nil:
		return "nil"
	case int64:
		return fmt.Sprint(v)
	case bool:
		return fmt.Sprint(v)
	case string:
		return "s:" + hexOf(v)
	}
	if depth == 0 {
		return "..."
	}
	switch v := x.(type) {
	case []interface{}:
		xs := make([]string, len(v))
		for i, e := range v {
			xs[i] = renderGo(e, depth-1)
		}
		return "[" + strings.Join(xs, " ") + "]#" + fmt.Sprint(cap(v))
	case map[interface{}]interface{}:
		xs := make([]string, 0, len(v))
		for k, e := range v {
			xs = append(xs, renderGo(k, depth-1)+":"+renderGo(e, depth-1))
		}
		sort.Strings(xs)
		return "{" + strings.Join(xs, " ") + "}"
	}
	return fmt.Sprintf("<%T>", x)
}

// refToInt: which operands Go-level code would accept as an index, as the interpreter documents it
func refToInt(x interface{}) (int, bool) {
	switch v := x.(type) {
	case int64:
		return int(v), true
	case bool:
		if v {
			return 1, true
		}
		return 0, true
	case string:
		i, err := strconv.ParseInt(v, 10, 64)
		return int(i), err == nil
	}
	return 0, false
}

func hashable(x interface{}) bool {
	switch x.(type) {
	case []interface{}, map[interface{}]interface{}:
		return false
	}
	return true
}

// the native reference: Go slices, maps and strings
type contRef struct{ vars map[string]interface{} }

func (r *contRef) arg(a carg) (interface{}, bool) {
	if a.isVar {
		v, ok := r.vars[a.name]
		return v, ok
	}
	return a.lit, true
}

type cop2 struct {
	kind    string
	x       string
	a, i, v carg
	b, e, c *carg
	items   []carg
	kvs     [][2]carg
	plusEq  bool
}

// apply runs the operation natively: ok, value (for index / len), error class
func (r *contRef) apply(op cop2) (string, bool) {
	switch op.kind {
	case "list":
		s := make([]interface{}, len(op.items))
		for i, it := range op.items {
			s[i], _ = r.arg(it)
		}
		r.vars[op.x] = s
		return "ok", true
	case "map":
		m := map[interface{}]interface{}{}
		for _, kv := range op.kvs {
			k, _ := r.arg(kv[0])
			v, _ := r.arg(kv[1])
			if !hashable(k) {
				return "err", false
			}
			m[k] = v
		}
		r.vars[op.x] = m
		return "ok", true
	case "copy":
		v, _ := r.arg(op.a)
		r.vars[op.x] = v
		return "ok", true
	case "index":
		item, _ := r.arg(op.a)
		idx, _ := r.arg(op.i)
		switch it := item.(type) {
		case []interface{}:
			i, ok := refToInt(idx)
			if !ok || i < 0 || i >= len(it) {
				return "err", false
			}
			return "ok " + renderGo(it[i], 5), true
		case string:
			i, ok := refToInt(idx)
			if !ok || i < 0 || i >= len(it) {
				return "err", false
			}
			return "ok " + renderGo(string(it[i]), 5), true
		case map[interface{}]interface{}:
			if !hashable(idx) {
				return "ok nil", true
			}
			return "ok " + renderGo(it[idx], 5), true
		}
		return "err", false
	case "slice":
		item, _ := r.arg(op.a)
		get := func(p *carg, dflt int) (int, bool) {
			if p == nil {
				return dflt, true
			}
			v, _ := r.arg(*p)
			return refToInt(v)
		}
		switch it := item.(type) {
		case []interface{}:
			b, ok1 := get(op.b, 0)
			e, ok2 := get(op.e, len(it))
			c, ok3 := get(op.c, cap(it))
			if !ok1 || !ok2 || !ok3 || b < 0 || e > len(it) || b > e || c < e || c > cap(it) {
				return "err", false
			}
			r.vars[op.x] = it[b:e:c]
			return "ok", true
		case string:
			b, ok1 := get(op.b, 0)
			e, ok2 := get(op.e, len(it))
			if !ok1 || !ok2 || b < 0 || e > len(it) || b > e || op.c != nil {
				return "err", false
			}
			r.vars[op.x] = it[b:e]
			return "ok", true
		}
		return "err", false
	case "set":
		item, ok := r.vars[op.x]
		if !ok {
			return "err", false
		}
		idx, _ := r.arg(op.i)
		val, _ := r.arg(op.v)
		switch it := item.(type) {
		case []interface{}:
			i, ok := refToInt(idx)
			if !ok || i < 0 || i > len(it) {
				return "err", false
			}
			if i == len(it) {
				r.vars[op.x] = append(it, val)
			} else {
				it[i] = val
			}
			return "ok", true
		case map[interface{}]interface{}:
			if !hashable(idx) {
				return "err", false
			}
			it[idx] = val
			return "ok", true
		case string:
			i, ok := refToInt(idx)
			vs, isStr := val.(string)
			if !ok || !isStr || i < 0 || i > len(it) {
				return "err", false
			}
			if i == len(it) {
				r.vars[op.x] = it + vs
			} else {
				r.vars[op.x] = it[:i] + vs + it[i+1:]
			}
			return "ok", true
		}
		return "err", false
	case "append":
		item, _ := r.arg(op.a)
		val, _ := r.arg(op.v)
		it, ok := item.([]interface{})
		if !ok {
			return "unsupported", false
		}
		if vs, ok := val.([]interface{}); ok {
			r.vars[op.x] = append(it, vs...)
		} else {
			r.vars[op.x] = append(it, val)
		}
		return "ok", true
	case "len":
		item, _ := r.arg(op.a)
		switch it := item.(type) {
		case []interface{}:
			return fmt.Sprintf("ok %d", len(it)), true
		case string:
			return fmt.Sprintf("ok %d", len(it)), true
		case map[interface{}]interface{}:
			return fmt.Sprintf("ok %d", len(it)), true
		}
		return "err", false
	case "load":
		// y = a[i]: the VALUE read is bound (containers stay references)
		item, _ := r.arg(op.a)
		idx, _ := r.arg(op.i)
		switch it := item.(type) {
		case []interface{}:
			i, ok := refToInt(idx)
			if !ok || i < 0 || i >= len(it) {
				return "err", false
			}
			r.vars[op.x] = it[i]
			return "ok", true
		case string:
			i, ok := refToInt(idx)
			if !ok || i < 0 || i >= len(it) {
				return "err", false
			}
			r.vars[op.x] = string(it[i])
			return "ok", true
		case map[interface{}]interface{}:
			if !hashable(idx) {
				r.vars[op.x] = nil
				return "ok", true
			}
			r.vars[op.x] = it[idx]
			return "ok", true
		}
		return "err", false
	case "swap":
		item, ok := r.vars[op.x]
		it, isSlice := item.([]interface{})
		if !ok || !isSlice {
			return "unsupported", false
		}
		iv, _ := r.arg(op.i)
		jv, _ := r.arg(op.v)
		i, ok1 := refToInt(iv)
		j, ok2 := refToInt(jv)
		if !ok1 || !ok2 || i < 0 || j < 0 || i >= len(it) || j >= len(it) {
			return "err", false
		}
		it[i], it[j] = it[j], it[i]
		return "ok", true
	case "del":
		item, _ := r.arg(op.a)
		k, _ := r.arg(op.i)
		m, ok := item.(map[interface{}]interface{})
		if !ok || !hashable(k) {
			return "err", false
		}
		delete(m, k)
		return "ok", true
	}
	return "?", false
}

func (op cop2) src() string {
	opt := func(p *carg) string {
		if p == nil {
			return ""
		}
		return p.src()
	}
	switch op.kind {
	case "list":
		xs := make([]string, len(op.items))
		for i, it := range op.items {
			xs[i] = it.src()
		}
		return op.x + " = [" + strings.Join(xs, ", ") + "]"
	case "map":
		xs := make([]string, len(op.kvs))
		for i, kv := range op.kvs {
			xs[i] = kv[0].src() + ": " + kv[1].src()
		}
		return op.x + " = {" + strings.Join(xs, ", ") + "}"
	case "copy":
		return op.x + " = " + op.a.src()
	case "index":
		return op.a.src() + "[" + op.i.src() + "]"
	case "slice":
		s := op.x + " = " + op.a.src() + "[" + opt(op.b) + ":" + opt(op.e)
		if op.c != nil {
			s += ":" + op.c.src()
		}
		return s + "]"
	case "set":
		return op.x + "[" + op.i.src() + "] = " + op.v.src()
	case "append":
		if op.plusEq {
			return op.x + " += " + op.v.src()
		}
		return op.x + " = " + op.a.src() + " + " + op.v.src()
	case "load":
		if op.plusEq {
			return "var " + op.x + " = " + op.a.src() + "[" + op.i.src() + "]"
		}
		return op.x + " = " + op.a.src() + "[" + op.i.src() + "]"
	case "swap":
		return op.x + "[" + op.i.src() + "], " + op.x + "[" + op.v.src() + "] = " + op.x + "[" + op.v.src() + "], " + op.x + "[" + op.i.src() + "]"
	case "len":
		return "len(" + op.a.src() + ")"
	case "del":
		return "delete(" + op.a.src() + ", " + op.i.src() + ")"
	}
	return "?"
}

func (op cop2) sexp(newCap int) string {
	opt := func(p *carg) string {
		if p == nil {
			return "_"
		}
		return p.sexp()
	}
	switch op.kind {
	case "list":
		xs := make([]string, len(op.items))
		for i, it := range op.items {
			xs[i] = it.sexp()
		}
		return "(list " + op.x + " " + strings.Join(xs, " ") + ")"
	case "map":
		xs := make([]string, len(op.kvs))
		for i, kv := range op.kvs {
			xs[i] = "(" + kv[0].sexp() + " " + kv[1].sexp() + ")"
		}
		return "(map " + op.x + " " + strings.Join(xs, " ") + ")"
	case "copy":
		return "(copy " + op.x + " " + op.a.sexp() + ")"
	case "index":
		return "(index " + op.a.sexp() + " " + op.i.sexp() + ")"
	case "slice":
		return "(slice " + op.x + " " + op.a.sexp() + " " + opt(op.b) + " " + opt(op.e) + " " + opt(op.c) + ")"
	case "set":
		return fmt.Sprintf("(set %s %s %s %d)", op.x, op.i.sexp(), op.v.sexp(), newCap)
	case "append":
		return fmt.Sprintf("(append %s %s %s %d)", op.x, op.a.sexp(), op.v.sexp(), newCap)
	case "load":
		return "(load " + op.x + " " + op.a.sexp() + " " + op.i.sexp() + ")"
	case "swap":
		return "(swap " + op.x + " " + op.i.sexp() + " " + op.v.sexp() + ")"
	case "len":
		return "(len " + op.a.sexp() + ")"
	case "del":
		return "(del " + op.a.sexp() + " " + op.i.sexp() + ")"
	}
	return "?"
}

func streamCont(o *Out, r *rand.Rand, n int, thorough bool) {
	o.Sum.Rule = "histories of 6-30 container statements over 5 variables: list and map literals, aliasing assignment, index read, 2- and 3-index slicing, element assignment " +
		"(incl. index = len: automatic append, map entries, string bytes), append by + and +=, len, delete; index operands over negative, in-range, = len, > len, numeric and " +
		"non-numeric strings, booleans, nil, containers; each statement run by the interpreter, by a native Go reference on real []interface{} / map / string values (oracle: " +
		"ok/error, values read, final contents incl. capacities and sharing) and by the Lean heap model (same lines); distinct by request hash"
	names := []string{"a", "b", "c", "m", "s", "v1", "v2"}
	for it := 0; it < n; it++ {
		ref := &contRef{vars: map[string]interface{}{}}
		e := env.NewEnv()
		var req strings.Builder
		req.WriteString("(cont")
		var srcs, implOuts, refOuts []string
		kindOf := func(name string) string {
			switch ref.vars[name].(type) {
			case []interface{}:
				return "slice"
			case map[interface{}]interface{}:
				return "map"
			case string:
				return "string"
			case nil:
				if _, ok := ref.vars[name]; !ok {
					return "undef"
				}
			}
			return "scalar"
		}
		pickVar := func(kinds ...string) (string, bool) {
			var cands []string
			for _, nm := range names {
				k := kindOf(nm)
				for _, want := range kinds {
					if k == want {
						cands = append(cands, nm)
					}
				}
			}
			if len(cands) == 0 {
				return "", false
			}
			return cands[r.Intn(len(cands))], true
		}
		scalar := func() carg {
			switch r.Intn(6) {
			case 0:
				return carg{lit: nil}
			case 1:
				return carg{lit: r.Intn(2) == 0}
			case 2:
				return carg{lit: []string{"", "a", "xy", "k", "7"}[r.Intn(5)]}
			}
			return carg{lit: int64(r.Intn(20) - 3)}
		}
		anyArg := func() carg {
			if r.Intn(3) == 0 {
				if nm, ok := pickVar("slice", "map", "string", "scalar"); ok {
					return carg{isVar: true, name: nm}
				}
			}
			return scalar()
		}
		indexFor := func(length int) carg {
			switch r.Intn(12) {
			case 0:
				return carg{lit: int64(-1 - r.Intn(3))}
			case 1:
				return carg{lit: int64(length)}
			case 2:
				return carg{lit: int64(length + 1 + r.Intn(3))}
			case 3:
				return carg{lit: fmt.Sprint(r.Intn(length + 1))}
			case 4:
				return carg{lit: []string{"x", "", "1.5", "0x1"}[r.Intn(4)]}
			case 5:
				return carg{lit: r.Intn(2) == 0}
			case 6:
				return carg{lit: nil}
			case 7:
				if nm, ok := pickVar("slice", "map"); ok {
					return carg{isVar: true, name: nm}
				}
			}
			if length == 0 {
				return carg{lit: int64(0)}
			}
			return carg{lit: int64(r.Intn(length))}
		}
		lengthOf := func(nm string) int {
			switch v := ref.vars[nm].(type) {
			case []interface{}:
				return len(v)
			case string:
				return len(v)
			}
			return 0
		}
		steps := 6 + r.Intn(25)
		for s := 0; s < steps; s++ {
			var op cop2
			switch k := r.Intn(20); {
			case k < 2 || s == 0:
				op = cop2{kind: "list", x: names[r.Intn(3)]}
				for j := r.Intn(5); j > 0; j-- {
					op.items = append(op.items, anyArg())
				}
			case k == 2:
				op = cop2{kind: "map", x: "m"}
				for j := r.Intn(3); j > 0; j-- {
					op.kvs = append(op.kvs, [2]carg{scalar(), anyArg()})
				}
			case k == 3:
				op = cop2{kind: "copy", x: "s", a: carg{lit: []string{"hello", "", "ab", "xyz12"}[r.Intn(4)]}}
			case k == 4:
				nm, ok := pickVar("slice", "map", "string")
				if !ok {
					continue
				}
				op = cop2{kind: "copy", x: names[r.Intn(len(names))], a: carg{isVar: true, name: nm}}
			case k < 8:
				nm, ok := pickVar("slice", "map", "string", "scalar")
				if !ok {
					continue
				}
				op = cop2{kind: "index", a: carg{isVar: true, name: nm}, i: indexFor(lengthOf(nm))}
				if kindOf(nm) == "map" && r.Intn(2) == 0 {
					op.i = scalar()
				}
			case k < 11:
				nm, ok := pickVar("slice", "string", "slice", "map")
				if !ok {
					continue
				}
				op = cop2{kind: "slice", x: names[r.Intn(len(names))], a: carg{isVar: true, name: nm}}
				l := lengthOf(nm)
				if r.Intn(4) != 0 {
					x := indexFor(l)
					if r.Intn(2) == 0 {
						x = carg{lit: int64(r.Intn(l + 1))}
					}
					op.b = &x
				}
				if r.Intn(4) != 0 {
					x := indexFor(l)
					if r.Intn(2) == 0 {
						x = carg{lit: int64(r.Intn(l + 1))}
					}
					op.e = &x
				}
				if op.b == nil && op.e == nil {
					x := carg{lit: int64(0)}
					op.b = &x
				}
				if r.Intn(4) == 0 && op.e != nil {
					x := carg{lit: int64(r.Intn(l + 4))}
					op.c = &x
				}
			case k < 15:
				nm, ok := pickVar("slice", "slice", "map", "string", "scalar")
				if !ok {
					continue
				}
				op = cop2{kind: "set", x: nm, i: indexFor(lengthOf(nm)), v: anyArg()}
				if kindOf(nm) == "map" && r.Intn(3) != 0 {
					op.i = scalar()
				}
				if kindOf(nm) == "string" {
					op.v = carg{lit: []string{"Z", "", "QQ"}[r.Intn(3)]}
					if r.Intn(5) == 0 {
						op.v = carg{lit: r.Intn(2) == 0} // not convertible to string
					}
				}
			case k < 18:
				nm, ok := pickVar("slice")
				if !ok {
					continue
				}
				op = cop2{kind: "append", x: names[r.Intn(3)], a: carg{isVar: true, name: nm}, v: anyArg()}
				if r.Intn(3) == 0 {
					op.x, op.plusEq = nm, true
				}
				if op.v.isVar && kindOf(op.v.name) == "string" {
					op.v = scalar() // slice + string variable: conversion rules of + are C05's business
				}
			case k == 18 && r.Intn(3) == 0:
				nm, ok := pickVar("slice", "map", "string", "scalar")
				if !ok {
					continue
				}
				op = cop2{kind: "len", a: carg{isVar: true, name: nm}}
			case k == 18 && r.Intn(2) == 0:
				// bind the value read from a container to a variable (plain assignment or var)
				nm, ok := pickVar("slice", "slice", "map", "string")
				if !ok {
					continue
				}
				op = cop2{kind: "load", x: []string{"v1", "v2"}[r.Intn(2)], a: carg{isVar: true, name: nm}, i: indexFor(lengthOf(nm)), plusEq: r.Intn(2) == 0}
				if kindOf(nm) == "map" {
					op.i = scalar()
				}
			case k == 18:
				nm, ok := pickVar("slice")
				if !ok {
					continue
				}
				l := lengthOf(nm)
				op = cop2{kind: "swap", x: nm, i: indexFor(l), v: indexFor(l)}
				if l > 0 && r.Intn(3) != 0 {
					op.i, op.v = carg{lit: int64(r.Intn(l))}, carg{lit: int64(r.Intn(l))}
				}
			default:
				nm, ok := pickVar("map", "map", "slice")
				if !ok {
					continue
				}
				op = cop2{kind: "del", a: carg{isVar: true, name: nm}, i: scalar()}
				if r.Intn(4) == 0 {
					op.i = anyArg()
				}
			}
			// the interpreter
			src := op.src()
			val, err := func() (v interface{}, err error) {
				defer func() {
					if p := recover(); p != nil {
						err = fmt.Errorf("PANIC: %v", p)
					}
				}()
				return vm.Execute(e, nil, src)
			}()
			implOut := "ok"
			if err != nil {
				implOut = "err " + strings.ReplaceAll(err.Error(), " ", "_")
				if strings.HasPrefix(err.Error(), "PANIC") {
					o.Fail(Failure{Oracle: "no-panic", Key: "cont-panic:" + op.kind, Input: strings.Join(append(srcs, src), "\n"), Detail: err.Error()})
				}
			} else if op.kind == "index" || op.kind == "len" {
				implOut = "ok " + renderGo(val, 5)
			}
			// the native reference
			refOut, _ := ref.apply(op)
			if refOut == "unsupported" {
				continue
			}
			srcs = append(srcs, src)
			o.Sum.Hist["op:"+op.kind]++
			// capacity after a growing append, as the runtime chose it
			newCap := 0
			if op.kind == "set" || op.kind == "append" {
				if s, ok := ref.vars[op.x].([]interface{}); ok {
					newCap = cap(s)
				}
			}
			req.WriteString(" " + op.sexp(newCap))
			implOuts = append(implOuts, implOut)
			refOuts = append(refOuts, refOut)
			// oracle, per statement
			refErr := strings.HasPrefix(refOut, "err")
			implErr := strings.HasPrefix(implOut, "err")
			if refErr != implErr {
				o.Fail(Failure{Oracle: "go-container-semantics", Key: "cont-status:" + op.kind, Input: strings.Join(srcs, "\n"), Detail: fmt.Sprintf("`%s`: Go reference says %s, interpreter says %s", src, refOut, implOut)})
				break
			}
			if !refErr && refOut != implOut {
				o.Fail(Failure{Oracle: "go-container-semantics", Key: "cont-value:" + op.kind, Input: strings.Join(srcs, "\n"), Detail: fmt.Sprintf("`%s`: Go reference gives %s, interpreter gives %s", src, refOut, implOut)})
				break
			}
			if implErr {
				o.Sum.Hist["outcome:error"]++
			} else {
				o.Sum.Hist["outcome:ok"]++
			}
			// contents after every statement (an error must leave everything unchanged: the reference did not change)
			for _, nm := range names {
				rv, rok := ref.vars[nm]
				iv, ierr := e.Get(nm)
				if !rok {
					if ierr == nil {
						o.Fail(Failure{Oracle: "go-container-semantics", Key: "cont-binding:" + op.kind, Input: strings.Join(srcs, "\n"), Detail: fmt.Sprintf("after `%s` the interpreter has a binding for %s, the reference has none", src, nm)})
					}
					continue
				}
				if ierr != nil || renderGo(rv, 5) != renderGo(iv, 5) {
					o.Fail(Failure{Oracle: "go-container-semantics", Key: "cont-contents:" + op.kind, Input: strings.Join(srcs, "\n"), Detail: fmt.Sprintf("after `%s`: %s is %s in the Go reference, %s in the interpreter (err %v)", src, nm, renderGo(rv, 5), renderGo(iv, 5), ierr)})
					break
				}
			}
		}
		req.WriteString(")")
		var vars []string
		for _, nm := range names {
			if v, err := e.Get(nm); err == nil {
				vars = append(vars, nm+"="+renderGo(v, 5))
			}
		}
		sort.Strings(vars)
		o.Case(req.String(), strings.Join(implOuts, " | ")+" || "+strings.Join(vars, " "), strings.Join(srcs, "\n"), true)
	}
	// struct values made with make: fields hold their declared type, read back what was stored, unknown fields are errors
	type contRec struct {
		A int64
		B string
		C []int64
		D map[string]int64
		E float64
		F bool
		G interface{}
	}
	recT := reflect.TypeOf(contRec{})
	for _, vsrc := range goconvValues {
		if strings.HasPrefix(vsrc, "func") {
			continue
		}
		val, err := vm.Execute(env.NewEnv(), nil, vsrc)
		if err != nil {
			continue
		}
		for fi := 0; fi < recT.NumField(); fi++ {
			fld := recT.Field(fi)
			e := env.NewEnv()
			_ = e.DefineType("S", contRec{})
			src := "err = false\nx = make(S)\ny = x\ntry {\nx." + fld.Name + " = " + vsrc + "\n} catch e {\nerr = true\n}\n[x." + fld.Name + ", err, x]"
			res, rerr, p := execGuard(e, src)
			o.Sum.Evaluations++
			o.Sum.Hist["struct-field:"+fld.Type.String()]++
			if p != nil {
				o.Fail(Failure{Oracle: "no-panic", Key: "cont-panic:struct-field", Input: src, Detail: fmt.Sprint(p)})
				continue
			}
			tr, isList := res.([]interface{})
			if rerr != nil || !isList || len(tr) != 3 {
				o.Fail(Failure{Oracle: "struct-fields", Key: "cont-struct-run", Input: src, Detail: fmt.Sprintf("result %v err %v", res, rerr)})
				continue
			}
			failed, _ := tr[1].(bool)
			want, ok := refConvert(reflect.ValueOf(val), fld.Type)
			got := reflect.ValueOf(tr[0])
			switch {
			case ok && failed:
				o.Fail(Failure{Oracle: "struct-fields", Key: "cont-struct-rejected:" + fld.Type.String(), Input: src, Detail: "Go converts the value to " + fld.Type.String() + " but the field store failed"})
			case !ok && !failed:
				o.Fail(Failure{Oracle: "struct-fields", Key: "cont-struct-accepted:" + fld.Type.String(), Input: src, Detail: "no Go conversion exists but the field store succeeded: " + renderTyped(got)})
			case ok && renderTyped(got) != renderTyped(want):
				o.Fail(Failure{Oracle: "struct-fields", Key: "cont-struct-value:" + fld.Type.String(), Input: src, Detail: fmt.Sprintf("field reads back %s, stored %s", renderTyped(got), renderTyped(want))})
			case !ok && renderTyped(got) != renderTyped(reflect.Zero(fld.Type)):
				o.Fail(Failure{Oracle: "struct-fields", Key: "cont-struct-error-mutates:" + fld.Type.String(), Input: src, Detail: "failed store changed the field to " + renderTyped(got)})
			}
			if reflect.TypeOf(tr[2]) != recT && reflect.TypeOf(tr[2]) != reflect.PtrTo(recT) {
				o.Fail(Failure{Oracle: "struct-fields", Key: "cont-struct-type", Input: src, Detail: fmt.Sprintf("the struct value is now a %T", tr[2])})
			}
		}
	}
	for _, c := range []struct{ src, want string }{
		{"x = make(S)\ny = make(S)\nx.D.a = 1\nx.C += 5\nx.G = [1]\n[len(x.D), len(y.D), len(x.C), len(y.C), y.G]", "[]iface[int64:1 int64:0 int64:1 int64:0 nil]"},
		{"x = make(S)\ny = make(S)\ny.D[\"k\"] = 2\ndelete(y.D, \"k\")\nx.D[\"k\"] = 3\n[x.D.k, y.D.k, len(make(S).D)]", "[]iface[int64:3 nil int64:0]"},
		{"a = make([]S, 2)\na[0].A = 1\n[a[0].A, a[1].A]", "SKIP"},
		{"t = make([]int64, 2)\nb = t[0]\nvar c = t[1]\nt[0] = 5\nt[1] = 6\n[b, c]", "[]iface[int64:0 int64:0]"},
		{"t = make([]string, 2)\nt[0] = \"p\"\nfunc f(v) { t[0] = \"q\"; return v }\nf(t[0])", "string:" + hexOf("p")},
		{"t = make([]int64, 3)\nt[0] = 1\nt[1] = 2\nt[0], t[1] = t[1], t[0]\nt", "[]int64[int64:2 int64:1 int64:0]"},
		{"t = make([]int64, 2)\nt[0] = 7\nr = []\nfor v in t {\nt[0] = 9\nt[1] = 9\nr += v\n}\nr", "[]iface[int64:7 int64:9]"},
		{"x = make(S)\nx.A = 1\nv = x.A\nx.A = 3\n[v, x.A]", "[]iface[int64:1 int64:3]"},
		// the same literal evaluated again is a new list: stores into an earlier result do not show
		{"func fresh() { return [0, 0, 0] }\na = fresh()\na[0] = 7\nb = fresh()\nb[1] = 8\n[a, b, fresh()]", "[]iface[[]iface[int64:7 int64:0 int64:0] []iface[int64:0 int64:8 int64:0] []iface[int64:0 int64:0 int64:0]]"},
		{"rows = []\nfor i = 0; i < 3; i++ {\nr = [0, 0, 0]\nr[i] = 1\nrows += [r]\n}\nrows", "[]iface[[]iface[int64:1 int64:0 int64:0] []iface[int64:0 int64:1 int64:0] []iface[int64:0 int64:0 int64:1]]"},
		{"func mk() { return {\"k\": 0} }\na = mk()\na.k = 5\n[a.k, mk().k]", "[]iface[int64:5 int64:0]"},
		{"func s() { return \"ab\" }\na = s()\na[0] = \"X\"\n[a, s()]", "[]iface[string:" + hexOf("Xb") + " string:" + hexOf("ab") + "]"},
		// the left operand of an operator is a value: the right operand cannot change it any more
		{"b = make([]int64, 1)\nb[0] = 1\nfunc bump() { b[0] = 10; return 0 }\nb[0] + bump()", "int64:1"},
		{"b = make([]int64, 1)\nb[0] = 1\nfunc bump() { b[0] = 10; return 5 }\n[b[0] * bump(), b[0]]", "[]iface[int64:5 int64:10]"},
		{"b = make([]int64, 1)\nb[0] = 1\nfunc bump() { b[0] = 10; return 10 }\n[b[0] == bump(), b[0] < bump()]", "[]iface[bool:false bool:false]"},
		{"b = make([]string, 1)\nb[0] = \"a\"\nfunc bump() { b[0] = \"z\"; return [\"z\"] }\nb[0] in bump()", "bool:false"},
		{"x = make(S)\nx.A = 1\nfunc bump() { x.A = 10; return 0 }\nx.A + bump()", "int64:1"},
		// a struct value whose interface field holds something unhashable is no map key
		{"k = make(struct{Tag interface, N int64})\nk.Tag = [1, 2]\nm = {}\nm[k]", "nil"},
		{"k = make(struct{Tag interface, N int64})\nk.Tag = [1, 2]\nm = {}\nm[k] = 2", "ERROR"},
		{"k = make(struct{Tag interface, N int64})\nk.Tag = {}\nm = {\"a\": 1}\ndelete(m, k)", "ERROR"},
		{"k = make(struct{Tag interface, N int64})\nk.Tag = [1]\nt = make(map[interface]int64)\nt[k] = 2", "ERROR"},
		{"k = make(struct{Tag interface, N int64})\nk.Tag = 5\nm = {}\nm[k] = 2\nm[k]", "int64:2"},
		// slots whose values are themselves references (slices, maps): a binding holds the value the slot had, not the slot
		{"a = make([][]int64, 2)\na[0] = [1, 2]\nx = a[0]\na[0] = [7, 8, 9]\n[len(x), x[0]]", "[]iface[int64:2 int64:1]"},
		{"b = make([][]int64, 2)\nb[0] = [1]\nb[1] = [2, 2]\nb[0], b[1] = b[1], b[0]\n[len(b[0]), len(b[1])]", "[]iface[int64:2 int64:1]"},
		{"m = make([]map[string]int64, 2)\nm[0] = {\"a\": 1}\ny = m[0]\nm[0] = {\"b\": 2, \"c\": 3}\nlen(y)", "int64:1"},
		{"x = make(S)\nx.C = [1, 2]\ny = x.C\nx.C = [7, 8, 9]\nlen(y)", "int64:2"},
		{"x = make(S)\nx.D = {\"a\": 1}\nvar y = x.D\nx.D = {}\nlen(y)", "int64:1"},
		{"a = make([][]int64, 1)\na[0] = [1, 2]\nfunc f(v) { a[0] = [5]; return len(v) }\nf(a[0])", "int64:2"},
		{"a = make([][]int64, 2)\na[0] = [1]\na[1] = [2, 2]\nr = []\nfor v in a {\na[1] = [3, 3, 3]\nr += len(v)\n}\nr", "[]iface[int64:1 int64:3]"},
		{"a = make([][]int64, 1)\na[0] = [1, 2]\nx = a[0]\nx[0] = 9\na[0][0]", "int64:9"},
		// a pointer to an element addresses the element's slot: stores through it show in the container and the other way round
		{"a = [1, 2, 3]\np = &a[1]\n*p = 9\na", "[]iface[int64:1 int64:9 int64:3]"},
		{"a = [1, 2, 3]\np = &a[1]\na[1] = 7\n*p", "int64:7"},
		{"a = [1, 2, 3]\nb = a[1:]\np = &b[0]\n*p = 5\n[a, b]", "[]iface[[]iface[int64:1 int64:5 int64:3] []iface[int64:5 int64:3]]"},
		{"m = {\"k\": [1, 2]}\nx = m[\"k\"]\np = &x[0]\n*p = 42\nm[\"k\"]", "[]iface[int64:42 int64:2]"},
		{"t = make([]int64, 2)\np = &t[0]\n*p = 4\nt[1] = 6\n[t, *p]", "[]iface[[]int64[int64:4 int64:6] int64:4]"},
		{"a = [\"x\", [1, 2]]\np = &a[1]\nq = *p\nq[0] = 8\na[1]", "[]iface[int64:8 int64:2]"},
		{"a = [1, 2]\nfunc set(p, v) { *p = v }\nset(&a[0], 10)\nset(&a[1], 20)\na", "[]iface[int64:10 int64:20]"},
		// a store that fails leaves the slot as it was - a nil map stays nil (no map is allocated for a store that does not happen)
		{"a = make([]map[string]int64, 2)\ntry {\na[0][\"k\"] = \"not a number\"\n} catch e {\n}\ntry {\na[1].k = [1]\n} catch e {\n}\n[a[0] == nil, a[1] == nil, len(a[0])]", "[]iface[bool:true bool:true int64:0]"},
		{"b = make([]map[int64]string, 1)\nr = \"stored\"\ntry {\nb[0][\"x\"] = \"v\"\n} catch e {\nr = \"failed\"\n}\n[r, b[0] == nil]", "[]iface[string:" + hexOf("failed") + " bool:true]"},
		{"c = make([]map[interface]int64, 1)\nr = \"stored\"\ntry {\nc[0][[1, 2]] = 1\n} catch e {\nr = \"failed\"\n}\n[r, c[0] == nil]", "[]iface[string:" + hexOf("failed") + " bool:true]"},
		{"t = make([]struct{M map[string]int64}, 1)\nr = \"stored\"\ntry {\nt[0].M[\"j\"] = [1]\n} catch e {\nr = \"failed\"\n}\n[r, t[0].M == nil]", "[]iface[string:" + hexOf("failed") + " bool:true]"},
		{"d = make([]map[string]int64, 1)\nd[0][\"k\"] = 7\n[d[0] == nil, d[0].k]", "[]iface[bool:false int64:7]"},
		// a made slice has the capacity Go gives it (len, unless one is asked for): two appends to the same base do not share storage
		{"base = make([]int64, 2)\nb = base + 1\nc = base + 2\n[b, c]", "[]iface[[]int64[int64:0 int64:0 int64:1] []int64[int64:0 int64:0 int64:2]]"},
		{"names = make([]string, 0)\nfunc grow(l, v) { return l + v }\nx = grow(names, \"x\")\ny = grow(names, \"y\")\n[x, y]", "[]iface[[]string[string:" + hexOf("x") + "] []string[string:" + hexOf("y") + "]]"},
		{"r = make([]int64, 2)\nr[0:1:3]", "ERROR"}, {"r = make([]int64, 2, 4)\nlen(r[0:1:3])", "int64:1"}, {"r = make([]int64, 3)\nr[1:2:4]", "ERROR"},
		{"a = make([]int64, 1)\nb = a\nb[len(b)] = 5\nc = a\nc[len(c)] = 6\n[a, b, c]", "[]iface[[]int64[int64:0] []int64[int64:0 int64:5] []int64[int64:0 int64:6]]"},
		// `in` asks whether an element EQUALS the item: nothing is converted to the element type of a typed list first
		{"t = make([]int64, 3)\nt[0] = 1\nt[1] = 2\nt[2] = 3\n[1.5 in t, 2 in t, 2.0 in t, nil in t, 4 in t]", "[]iface[bool:false bool:true bool:true bool:false bool:false]"},
		{"ts = make([]string, 1)\nts[0] = \"A\"\n[65 in ts, \"A\" in ts, nil in ts]", "[]iface[bool:false bool:true bool:false]"},
		{"tb = make([]bool, 1)\n[0 in tb, false in tb, nil in tb, \"\" in make([]string, 1)]", "SKIP"},
		// a slice handed to a variadic script function with `...` IS the parameter (as f(s...) in Go): stores show on both sides
		{"func f(b...) { b[0] = 9 }\na = [1, 2, 3]\nf(a...)\na", "[]iface[int64:9 int64:2 int64:3]"},
		{"a = [1, 2, 3]\nfunc g() {\ndefer func(b...) { b[1] = 8 }(a...)\n}\ng()\na", "[]iface[int64:1 int64:8 int64:3]"},
		{"keep = nil\nfunc h(b...) { keep = func() { return b[0] } }\na = [1, 2]\nh(a...)\na[0] = 7\nkeep()", "int64:7"},
		{"func f(x, b...) { b[0] = x }\na = [1, 2]\nf(5, a...)\na", "[]iface[int64:5 int64:2]"},
		// there is no conversion between T and *T: a pointer stored where the pointee type is declared (or the other way round) fails
		// and leaves the old content
		{"c = make([]int64, 1)\nx = 5\nr = \"stored\"\ntry {\nc[0] = &x\n} catch e {\nr = \"failed\"\n}\n[r, c[0]]", "[]iface[string:" + hexOf("failed") + " int64:0]"},
		{"c = make([]int64, 1)\nx = 5\nr = \"stored\"\ntry {\nc += &x\n} catch e {\nr = \"failed\"\n}\n[r, len(c)]", "[]iface[string:" + hexOf("failed") + " int64:1]"},
		{"c = make([]int64, 1)\nx = 5\nr = \"stored\"\ntry {\nc[1] = &x\n} catch e {\nr = \"failed\"\n}\n[r, len(c)]", "[]iface[string:" + hexOf("failed") + " int64:1]"},
		{"m = make(map[string]int64)\nx = 5\nr = \"stored\"\ntry {\nm.k = &x\n} catch e {\nr = \"failed\"\n}\n[r, len(m)]", "[]iface[string:" + hexOf("failed") + " int64:0]"},
		{"m = make(map[string]int64)\nx = 5\nr = \"stored\"\ntry {\nm[\"k\"] = &x\n} catch e {\nr = \"failed\"\n}\n[r, len(m)]", "[]iface[string:" + hexOf("failed") + " int64:0]"},
		{"s = make(S)\nx = 5\nr = \"stored\"\ntry {\ns.A = &x\n} catch e {\nr = \"failed\"\n}\n[r, s.A]", "[]iface[string:" + hexOf("failed") + " int64:0]"},
		{"p = make([]*int64, 1)\nr = \"stored\"\ntry {\np[0] = 5\n} catch e {\nr = \"failed\"\n}\n[r, p[0] == nil]", "[]iface[string:" + hexOf("failed") + " bool:true]"},
		{"m = make(map[int64]string)\nm[5] = \"v\"\nx = 5\nr = \"stored\"\ntry {\nm[&x] = \"w\"\n} catch e {\nr = \"failed\"\n}\n[r, m[5], len(m)]", "[]iface[string:" + hexOf("failed") + " string:" + hexOf("v") + " int64:1]"},
		{"m = make(map[int64]string)\nm[5] = \"v\"\nx = 5\nr = \"deleted\"\ntry {\ndelete(m, &x)\n} catch e {\nr = \"failed\"\n}\n[r, len(m)]", "[]iface[string:" + hexOf("failed") + " int64:1]"},
		{"x = 5\nr = \"made\"\ntry {\nc = []int64{&x}\n} catch e {\nr = \"failed\"\n}\nr", "string:" + hexOf("failed")},
		// a failing append changes nothing - not the operand and not a list that shares its spare capacity
		{"a = make([]int64, 1, 4)\nc = a + 5\ntry {\na += [7, \"x\"]\n} catch e {\n}\n[a, c]", "[]iface[[]int64[int64:0] []int64[int64:0 int64:5]]"},
		{"a = make([]int64, 1, 4)\nc = a + 5\ntry {\nd = a + [7, 8, \"x\"]\n} catch e {\n}\nc", "[]int64[int64:0 int64:5]"},
		{"a = make([][]int64, 1, 4)\nc = a + [[5]]\ntry {\na += [[7], [\"x\"]]\n} catch e {\n}\nc[1]", "[]int64[int64:5]"},
		{"a = make([]string, 0, 4)\nc = a + \"keep\"\ntry {\na += [\"w\", nil]\n} catch e {\n}\nc", "[]string[string:" + hexOf("keep") + "]"},
		// a struct value is a value: the copy of a module (assignment of the module value) gets struct values of its own
		{"module mm {\ns = make(S)\n}\nm2 = mm\nm2.s.A = 5\n[mm.s.A, m2.s.A]", "[]iface[int64:0 int64:5]"},
		{"module mm {\ns = make(S)\ns.A = 1\n}\nm2 = mm\nmm.s.A = 7\n[mm.s.A, m2.s.A]", "[]iface[int64:7 int64:1]"},
		{"module mm {\nt = make([]int64, 1)\n}\nm2 = mm\nm2.t[0] = 5\nmm.t[0]", "int64:5"},
		// the two-value read binds a value: later stores into the slot do not show in it
		{"t = make([]int64, 2)\nv, ok = t[0]\nt[0] = 5\n[v, ok]", "[]iface[int64:0 bool:true]"},
		{"t = make([]string, 1)\nt[0] = \"a\"\nv, ok = t[0]\nt[0] = \"z\"\nv", "string:" + hexOf("a")},
		{"x = make(S)\nx.C = [1, 2]\nv, ok = x.C[0]\nx.C[0] = 9\n[v, ok]", "[]iface[int64:1 bool:true]"},
		{"m = {}\nv, ok = m[\"missing\"]\nw, ok2 = m[\"other\"]\nv = 5\n[w, ok, ok2]", "[]iface[nil bool:false bool:false]"},
		// map keys are the values as written: 2 and 2.0 are two keys (as in a Go map[interface{}]interface{}), whatever operation uses them
		{"m = {}\nm[2] = \"i\"\nm[2.0] = \"f\"\n[len(m), m[2], m[2.0]]", "[]iface[int64:2 string:" + hexOf("i") + " string:" + hexOf("f") + "]"},
		{"m = {2.0: \"x\"}\n[m[2.0], m[2], m[4 / 2]]", "[]iface[string:" + hexOf("x") + " nil string:" + hexOf("x") + "]"},
		{"m = {}\nk = 6 / 3\nm[k] = 1\ndelete(m, k)\nlen(m)", "int64:0"},
		{"m = {}\nm[4 / 2] = 1\nr = []\nfor k, v in m {\nr += k\n}\nr", "[]iface[float64:2]"},
		{"m = {2: \"i\"}\nv, ok = m[2.0]\n[v, ok]", "[]iface[nil bool:false]"},
		// an unknown member is an error - also one that differs from a field only in the case of its first letter
		{"x = make(S)\nx.a", "ERROR"}, {"x = make(S)\nx.a = 7", "ERROR"}, {"x = make(S)\nx.c", "ERROR"}, {"x = make(S)\nx.d = {}", "ERROR"},
		{"x = make(struct { A int64, Total string })\nr = \"stored\"\ntry {\nx.total += \"x\"\n} catch e {\nr = \"failed\"\n}\n[r, x.Total]", "[]iface[string:" + hexOf("failed") + " string:]"},
		{"x = make(struct { A int64 })\nr = \"stored\"\ntry {\nx.a++\n} catch e {\nr = \"failed\"\n}\n[r, x.A]", "[]iface[string:" + hexOf("failed") + " int64:0]"},
		// an argument read from a slot is a value once evaluated: a LATER argument (or the rest of the body before a deferred call runs)
		// that stores into the slot does not change it
		{"t = make([]int64, 1)\nt[0] = 1\nfunc bump() { t[0] = 2; return 0 }\nfunc first(a, b) { return a }\nfirst(t[0], bump())", "int64:1"},
		{"t = [1]\nfunc bump() { t[0] = 2; return 0 }\nfunc first(a, b) { return a }\nfirst(t[0], bump())", "int64:1"},
		{"x = make(S)\nx.A = 1\nfunc bump() { x.A = 2; return 0 }\nfunc first(a, b) { return a }\nfirst(x.A, bump())", "int64:1"},
		{"t = make([]int64, 1)\nt[0] = 1\nfunc bump() { t[0] = 2; return 0 }\nfunc six(a, b, c, d, e, f) { return a }\nsix(t[0], bump(), 0, 0, 0, 0)", "int64:1"},
		{"t = make([]int64, 1)\nt[0] = 1\nseen = nil\nfunc rec(v) { seen = v }\nfunc g() {\ndefer rec(t[0])\nt[0] = 9\n}\ng()\nseen", "int64:1"},
		{"t = [1, 2]\nseen = nil\nfunc recv(v...) { seen = v[0] }\nfunc g() {\ndefer recv(t...)\nt[0] = 9\n}\ng()\nseen", "int64:9"},
		{"t = make([]int64, 2)\nt[0] = 1\nseen = nil\nfunc recv(v...) { seen = v[0] }\nfunc g() {\ndefer recv(t...)\nt[0] = 9\n}\ng()\nseen", "int64:1"},
		// the container of an index, slice or delete is a value once evaluated: an index / bound / key expression that stores another
		// container into the slot it was read from does not change which container is read (the same as with a variable)
		{"x = [1, 2]\nfunc k() { x = [7, 8]; return 0 }\nx[k()]", "int64:1"},
		{"a = [[1, 2]]\nfunc k() { a[0] = [7, 8]; return 0 }\na[0][k()]", "int64:1"},
		{"t = make([][]int64, 1)\nt[0] = [1, 2]\nfunc k() { t[0] = [7, 8]; return 0 }\nt[0][k()]", "int64:1"},
		{"a = [\"ab\"]\nfunc k() { a[0] = \"yz\"; return 1 }\na[0][k()]", "string:" + hexOf("b")},
		{"a = [{\"k\": 1}]\nfunc k() { a[0] = {\"k\": 2}; return \"k\" }\na[0][k()]", "int64:1"},
		{"x = make(struct { L []int64 })\nx.L = [1, 2]\nfunc k() { x.L = [7, 8]; return 0 }\nx.L[k()]", "int64:1"},
		{"a = [[1, 2, 3]]\nfunc k() { a[0] = [7, 8, 9]; return 1 }\na[0][k():]", "[]iface[int64:2 int64:3]"},
		{"t = make([][]int64, 1)\nt[0] = [1, 2, 3]\nfunc k() { t[0] = [7, 8, 9]; return 1 }\nt[0][k():]", "[]int64[int64:2 int64:3]"},
		{"t = make([][]int64, 1)\nt[0] = [1, 2, 3]\nfunc k() { t[0] = [7, 8, 9]; return 2 }\nt[0][:k()]", "[]int64[int64:1 int64:2]"},
		{"ms = [{\"a\": 1}]\nold = ms[0]\nfunc k() { ms[0] = {\"a\": 2, \"b\": 3}; return \"a\" }\ndelete(ms[0], k())\n[len(old), len(ms[0])]", "[]iface[int64:0 int64:2]"},
		{"m = {\"a\": 1}\nold = m\nfunc k() { m = {\"a\": 2, \"b\": 3}; return \"a\" }\ndelete(m, k())\n[len(old), len(m)]", "[]iface[int64:0 int64:2]"},
		// a range of a slice is no assignment target - or, were it one, a statement that fails leaves every element as it was and
		// an overlapping source is copied as Go's copy does
		{"a = make([]int64, 3)\na[0] = 1\na[1] = 2\na[2] = 3\ntry {\na[0:3] = [7, 8, \"x\"]\n} catch e {\n}\na", "[]int64[int64:1 int64:2 int64:3]"},
		{"a = make([]int64, 3)\na[0] = 1\na[1] = 2\na[2] = 3\ntry {\na[1:3] = [7, [8]]\n} catch e {\n}\na", "[]int64[int64:1 int64:2 int64:3]"},
		{"b = [1, 2, 3]\nr = \"ok\"\ntry {\nb[1:3] = b[0:2]\nif b != [1, 1, 2] {\nr = \"not what copy gives\"\n}\n} catch e {\nif b != [1, 2, 3] {\nr = \"changed by a failed statement\"\n}\n}\nr", "string:" + hexOf("ok")},
		// a store into a string changes the string where it is held: a typed slot, a struct field, a variable bound from one
		{"a = make([]string, 2)\na[0] = \"abc\"\na[0][1] = \"X\"\na[0]", "string:" + hexOf("aXc")},
		{"a = make([]string, 1)\na[0] = \"abc\"\na[0][len(a[0])] = \"d\"\na[0]", "string:" + hexOf("abcd")},
		{"a = make([]string, 1)\na[0] = \"abc\"\nx = a[0]\nx[2] = \"X\"\n[x, a[0]]", "[]iface[string:" + hexOf("abX") + " string:" + hexOf("abc") + "]"},
		{"s = make(struct { N string })\ns.N = \"abc\"\ns.N[0] = \"X\"\ns.N[len(s.N)] = \"d\"\ns.N", "string:" + hexOf("Xbcd")},
		{"a = make([]string, 1)\na[0] = \"abc\"\nr = []\nfor v in a {\nv[0] = \"X\"\nr += v\n}\nr", "[]iface[string:" + hexOf("Xbc") + "]"},
		{"x = make(string)\nx[0] = \"a\"\nx[1] = \"b\"\nx", "string:" + hexOf("ab")},
		// the result of a function is a value, also the IMPLICIT result of a body that ends in an expression statement: a store through its address
		// does not reach the slot it was read from (as with `return a[0]`)
		{"a = [1]\nf = func() { a[0] }\np = &f()\n*p = 5\na[0]", "int64:1"},
		{"a = [1]\nf = func() { return a[0] }\np = &f()\n*p = 5\na[0]", "int64:1"},
		{"t = make([]int64, 1)\nt[0] = 1\nfunc g() { t[0] }\np = &g()\n*p = 5\nt[0]", "int64:1"},
		{"x = make(S)\nx.A = 1\nfunc g(a, b, c, d, e) { x.A }\np = &g(1, 2, 3, 4, 5)\n*p = 5\nx.A", "int64:1"},
		// the two-value read of a missing key binds what the plain read gives (nil) and false - whatever the map's element type
		{"m = make(map[string]int64)\nv, ok = m[\"nokey\"]\n[v, ok, m[\"nokey\"]]", "[]iface[nil bool:false nil]"},
		{"m = make(map[string]string)\nm[\"a\"] = \"x\"\nv, ok = m[\"b\"]\nw, ok2 = m[\"a\"]\n[v, ok, w, ok2]", "[]iface[nil bool:false string:" + hexOf("x") + " bool:true]"},
		{"m = map[string][]int64{}\nv, ok = m[\"k\"]\nv", "nil"},
		// the value of an assignment expression is the value assigned, whatever kind of place it was stored in
		{"v = 1\nx = (v += 1)\nx", "int64:2"},
		{"r = [1]\nx = (r[0] += 1)\nx", "int64:2"},
		{"m = {\"k\": 1}\nx = (m[\"k\"] += 1)\n[x, m[\"k\"]]", "[]iface[int64:2 int64:2]"},
		{"m = {\"k\": 1}\nx = (m.k += 1)\n[x, m.k]", "[]iface[int64:2 int64:2]"},
		{"mm = make(map[string]int64)\nmm[\"a\"] = 1\nx = (mm[\"a\"] += 2)\nx", "int64:3"},
		{"m = {\"k\": 1}\nx = (m[\"k\"]++)\n[x, m[\"k\"]]", "[]iface[int64:2 int64:2]"},
		{"s = make(S)\nx = (s.A += 4)\nx", "int64:4"},
		// a compound assignment on a variable gives the variable the result of the operator - its type included - wherever the variable's
		// value came from
		{"ints = make([]int64, 1)\nints[0] = 1\nn = ints[0]\nn += 0.5\nn", "float64:1.5"},
		{"ints = make([]int64, 1)\nints[0] = 3\nvar n = ints[0]\nn /= 2\nn", "float64:1.5"},
		{"i32 = make([]int32, 1)\ni32[0] = 1\nn = i32[0]\nn += 3000000000\nn", "int64:3000000001"},
		{"ints = make([]int64, 1)\nints[0] = 1\nfunc f(n) {\nn += 0.5\nreturn n\n}\nf(ints[0])", "float64:1.5"},
		{"ints = make([]int64, 2)\nints[0] = 1\nr = nil\nfor n in ints {\nn += 0.5\nif r == nil {\nr = n\n}\n}\nr", "float64:1.5"},
		{"x = make(S)\nx.A = 1\nn = x.A\nn += \"s\"\nn", "string:" + hexOf("1s")},
		{"x = make(S)\ny = x\ny.A = 4\n[x.A, y.A]", "SKIP"},
		{"x = make(S)\nx.Nope = 1", "ERROR"}, {"x = make(S)\nx.Nope", "ERROR"}, {"x = make(S)\nx.A = 3\nx.A", "int64:3"},
		{"x = make(S)\nx.C = [1, 2]\nx.C[1]", "int64:2"}, {"x = make(S)\nx.D = {\"a\": 1}\nx.D.a", "int64:1"}, {"x = make(S)\nx.G = [1]\nx.G", "[]iface[int64:1]"},
	} {
		e := env.NewEnv()
		_ = e.DefineType("S", contRec{})
		res, rerr, p := execGuard(e, c.src)
		got := "ERROR"
		if rerr == nil {
			got = renderTyped(reflect.ValueOf(res))
		}
		o.Sum.Evaluations++
		if c.want == "SKIP" {
			if p != nil {
				o.Fail(Failure{Oracle: "no-panic", Key: "cont-panic:struct-template", Input: c.src, Detail: fmt.Sprint(p)})
			}
			continue
		}
		if p != nil || got != c.want {
			o.Fail(Failure{Oracle: "struct-fields", Key: "cont-struct-template", Input: c.src, Detail: fmt.Sprintf("expected %s, got %s (err %v, panic %v)", c.want, got, rerr, p)})
		}
	}
	// strings of several bytes per character: len, slicing and the store at index len all count BYTES, as Go's model of a string does
	for _, str := range []string{"né", "日本", "aé", "ü", "a\u00e9b", "plain", "€uro", "x\U0001F600"} {
		n := len(str)
		for _, c := range []struct{ src, want string }{
			{"len(s)", fmt.Sprintf("int64:%d", n)},
			{"s[0:len(s)]", "string:" + hexOf(str)},
			{"s[len(s)-1:]", "string:" + hexOf(str[n-1:])},
			{"s[:1] + s[1:]", "string:" + hexOf(str)},
			{"t = s\nt[len(t)] = \"!\"\nt", "string:" + hexOf(str+"!")},
			{"n = 0\nfor i = 0; i < len(s); i++ {\nn += len(s[i:i+1])\n}\nn", fmt.Sprintf("int64:%d", n)},
			{"len(s + s) == 2 * len(s)", "bool:true"},
			{"l = [s]\nlen(l[0])", fmt.Sprintf("int64:%d", n)},
		} {
			e := env.NewEnv()
			_ = e.Define("s", str)
			res, rerr, p := execGuard(e, c.src)
			got := "ERROR"
			if rerr == nil {
				got = renderTyped(reflect.ValueOf(res))
			}
			o.Sum.Evaluations++
			o.Sum.Hist["multibyte-string"]++
			if p != nil || got != c.want {
				o.Fail(Failure{Oracle: "string-is-go-string", Key: "cont-multibyte-string:" + c.src, Input: fmt.Sprintf("s = %q\n%s", str, c.src), Detail: fmt.Sprintf("Go's string model gives %s, got %s (err %v, panic %v)", c.want, got, rerr, p)})
			}
		}
	}
	// typed containers: a store converts the value as Go would or fails leaving the old content
	typed := []struct {
		name string
		t    reflect.Type
	}{
		{"int64", reflect.TypeOf(int64(0))}, {"int32", reflect.TypeOf(int32(0))}, {"uint32", reflect.TypeOf(uint32(0))}, {"uint64", reflect.TypeOf(uint64(0))}, {"rune", reflect.TypeOf(rune(0))}, {"byte", reflect.TypeOf(uint8(0))},
		{"int", reflect.TypeOf(int(0))}, {"float64", reflect.TypeOf(float64(0))}, {"float32", reflect.TypeOf(float32(0))}, {"string", reflect.TypeOf("")},
		{"bool", reflect.TypeOf(true)}, {"interface", ifaceT}, {"[]int64", reflect.TypeOf([]int64{})}, {"[]string", reflect.TypeOf([]string{})},
		{"map[string]int64", reflect.TypeOf(map[string]int64{})},
	}
	for vi, vsrc := range goconvValues {
		if strings.HasPrefix(vsrc, "func") {
			continue
		}
		val, err := vm.Execute(env.NewEnv(), nil, vsrc)
		if err != nil {
			continue
		}
		_ = vi
		for _, ty := range typed {
			want, ok := refConvert(reflect.ValueOf(val), ty.t)
			forms := []struct{ name, src string }{
				{"slice-store", "err = false\nt = make([]" + ty.name + ", 2)\ntry {\nt[1] = " + vsrc + "\n} catch e {\nt[0] = t[0]\nerr = true\n}\n[t, err]"},
				{"slice-append-at-len", "err = false\nt = make([]" + ty.name + ", 1)\ntry {\nt[1] = " + vsrc + "\n} catch e {\nerr = true\n}\n[t, err]"},
				{"slice-plus", "err = false\nt = make([]" + ty.name + ", 1)\ntry {\nt += " + vsrc + "\n} catch e {\nerr = true\n}\n[t, err]"},
				{"map-store", "err = false\nt = make(map[string]" + ty.name + ")\ntry {\nt[\"k\"] = " + vsrc + "\n} catch e {\nerr = true\n}\n[t, err]"},
				{"map-member-store", "err = false\nt = make(map[string]" + ty.name + ")\ntry {\nt.k = " + vsrc + "\n} catch e {\nerr = true\n}\n[t, err]"},
			}
			for _, f := range forms {
				if f.name == "slice-plus" && reflect.ValueOf(val).IsValid() && reflect.ValueOf(val).Kind() == reflect.Slice {
					continue // slice + slice appends the elements: a different operation
				}
				res, rerr, p := execGuard(env.NewEnv(), f.src)
				o.Sum.Evaluations++
				o.Sum.Hist["typed:"+f.name]++
				in := f.src
				if p != nil {
					o.Fail(Failure{Oracle: "no-panic", Key: "cont-panic:typed-" + f.name, Input: in, Detail: fmt.Sprint(p)})
					continue
				}
				pair, isPair := res.([]interface{})
				if rerr != nil || !isPair || len(pair) != 2 {
					o.Fail(Failure{Oracle: "typed-container", Key: "cont-typed-run:" + f.name, Input: in, Detail: fmt.Sprintf("result %v err %v", res, rerr)})
					continue
				}
				failed, _ := pair[1].(bool)
				cont := reflect.ValueOf(pair[0])
				// the container keeps its declared type whatever happened
				wantContT := reflect.SliceOf(ty.t)
				if strings.HasPrefix(f.name, "map") {
					wantContT = reflect.MapOf(reflect.TypeOf(""), ty.t)
				}
				if cont.Type() != wantContT {
					o.Fail(Failure{Oracle: "typed-container", Key: "cont-typed-type:" + f.name, Input: in, Detail: fmt.Sprintf("container of declared type %s is now a %s", wantContT, cont.Type())})
					continue
				}
				var stored reflect.Value
				present := true
				switch f.name {
				case "slice-store":
					stored = cont.Index(1)
				case "slice-append-at-len", "slice-plus":
					present = cont.Len() == 2
					if present {
						stored = cont.Index(1)
					}
				default:
					stored = cont.MapIndex(reflect.ValueOf("k"))
					present = stored.IsValid()
				}
				switch {
				case ok && failed:
					o.Fail(Failure{Oracle: "typed-container", Key: "cont-typed-rejected:" + f.name, Input: in, Detail: fmt.Sprintf("Go converts the value to %s (%s) but the store failed", ty.t, renderTyped(want))})
				case !ok && !failed:
					o.Fail(Failure{Oracle: "typed-container", Key: "cont-typed-accepted:" + f.name, Input: in, Detail: fmt.Sprintf("no Go conversion to %s exists but the store succeeded; container now %s", ty.t, renderTyped(cont))})
				case ok && (!present || renderTyped(stored) != renderTyped(want)):
					o.Fail(Failure{Oracle: "typed-container", Key: "cont-typed-value:" + f.name, Input: in, Detail: fmt.Sprintf("stored value should be %s, container now %s", renderTyped(want), renderTyped(cont))})
				case !ok:
					// the old content must be intact
					old := true
					switch f.name {
					case "slice-store":
						old = cont.Len() == 2 && renderTyped(cont.Index(1)) == renderTyped(reflect.Zero(ty.t))
					case "slice-append-at-len", "slice-plus":
						old = cont.Len() == 1
					default:
						old = cont.Len() == 0
					}
					if !old {
						o.Fail(Failure{Oracle: "typed-container", Key: "cont-typed-error-mutates:" + f.name, Input: in, Detail: "the failed store changed the container: " + renderTyped(cont)})
					}
				}
			}
		}
	}
}
