package main

import (
	"fmt"
	"math/rand"
	"strings"
	"time"

	"github.com/mattn/anko/parser"

	"veriftools/internal/astser"
	"veriftools/internal/gen"
)

func init() { streams["vm"] = streamVM }

const modelFuel = 100000

// streamVM: whole programs of fragment F0 through interpreter and model (K-vm).
func streamVM(o *Out, r *rand.Rand, n int, thorough bool) {
	o.Sum.Rule = "grammar-directed runnable programs over fragment F0 (gen.Prog: probes at leaves, bounded loops, functions of 0-6 parameters incl. variadic, " +
		"all four call shapes, defer, try/catch/finally, switch, modules); compared: result, error message, probe trace, number of context polls, final top-level bindings; " +
		"non-trivial = at least one probe or error; distinct by request hash"
	for i := 0; i < n; i++ {
		g := gen.NewProg(r)
		src := g.Program(1+r.Intn(5), 1+r.Intn(3))
		stmt, err := parser.ParseSrc(src)
		if err != nil {
			o.Sum.Skipped++
			o.Sum.Hist["parse-error"]++
			continue
		}
		if o.Skipped(i, src) {
			continue
		}
		o.Current(i, src)
		res := runVM(stmt, -1, 3*time.Second)
		if res.hung {
			o.Sum.Skipped++
			o.Sum.Hist["hung"]++
			continue
		}
		req := fmt.Sprintf("(run %d _ %s)", modelFuel, astser.Prog(stmt))
		o.Case(req, res.line, src, len(res.trace) > 0 || res.err != nil)
		mergeHist(o.Sum.Hist, g.Hist)
		switch {
		case res.panicked:
			o.Sum.Hist["outcome:panic"]++
			o.Fail(Failure{Oracle: "no-panic", Key: "panic:" + firstLine(fmt.Sprint(res.panicVal)), Input: src, Detail: fmt.Sprint(res.panicVal)})
		case res.err != nil:
			o.Sum.Hist["outcome:error"]++
		default:
			o.Sum.Hist["outcome:value"]++
		}
	}
}

func firstLine(s string) string {
	if i := strings.Index(s, "\n"); i >= 0 {
		return s[:i]
	}
	return s
}
