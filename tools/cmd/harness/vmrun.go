package main

import (
	"context"
	"fmt"
	"sort"
	"strings"
	"sync"
	"time"

	"github.com/mattn/anko/ast"
	"github.com/mattn/anko/env"
	"github.com/mattn/anko/vm"

	"veriftools/internal/vals"
)

// countCtx: a context whose Done() counts polls and closes its channel at poll k (k < 0: never).
type countCtx struct {
	mu     sync.Mutex
	n, k   int
	ch     chan struct{}
	closed bool
}

func newCountCtx(k int) *countCtx { return &countCtx{k: k, ch: make(chan struct{})} }

func (c *countCtx) Deadline() (time.Time, bool) { return time.Time{}, false }
func (c *countCtx) Done() <-chan struct{} {
	c.mu.Lock()
	defer c.mu.Unlock()
	if c.k >= 0 && c.n >= c.k && !c.closed {
		close(c.ch)
		c.closed = true
	}
	c.n++
	return c.ch
}
func (c *countCtx) Err() error {
	c.mu.Lock()
	defer c.mu.Unlock()
	if c.closed {
		return context.Canceled
	}
	return nil
}
func (c *countCtx) Value(interface{}) interface{} { return nil }
func (c *countCtx) polls() int {
	c.mu.Lock()
	defer c.mu.Unlock()
	return c.n
}

var stubNames = []string{"probe", "id", "probe2", "probe3", "vprobe", "fv", "typed", "typed2", "vtyped", "boom", "zero", "two", "eachcb", "callcb0", "cbv", "panicwith", "panicctx", "wantsptr", "wantsptr2", "wantsstr", "wantsints", "wantsnil", "wantsnilv", "panicwithsliceerr", "reterr", "reterr2"}

// vmResult is one run of a parsed program on the real interpreter.
type vmResult struct {
	line     string // in the driver's output format
	val      interface{}
	err      error
	panicked bool
	panicVal interface{}
	trace    []string
	polls    int
	hung     bool
}

// defineStubs binds the Go stubs of the model (lean/Anko/Model/Eval.lean goSig/goRun).
func defineStubs(e *env.Env, tr func(interface{})) {
	must := func(err error) {
		if err != nil {
			panic(err)
		}
	}
	must(e.Define("probe", func(x interface{}) interface{} { tr(x); return x }))
	must(e.Define("id", func(x interface{}) interface{} { return x }))
	must(e.Define("probe2", func(a, b interface{}) interface{} { tr(a); tr(b); return a }))
	must(e.Define("probe3", func(a, b, c interface{}) interface{} { tr(a); tr(b); tr(c); return a }))
	must(e.Define("vprobe", func(xs ...interface{}) int64 {
		for _, x := range xs {
			tr(x)
		}
		return int64(len(xs))
	}))
	must(e.Define("fv", func(a interface{}, xs ...interface{}) interface{} {
		tr(a)
		for _, x := range xs {
			tr(x)
		}
		return a
	}))
	must(e.Define("typed", func(i int64) int64 { tr(i); return i }))
	must(e.Define("typed2", func(a interface{}, i int64) int64 { tr(a); tr(i); return i }))
	must(e.Define("vtyped", func(xs ...int64) int64 {
		for _, x := range xs {
			tr(x)
		}
		return int64(len(xs))
	}))
	must(e.Define("boom", func() { panic("boom") }))
	// a host function that panics with an ERROR VALUE of a type Go cannot hash (a defined slice type): it is an error like any other
	must(e.Define("panicwithsliceerr", func() { panic(stubSliceErr{"validation", "failed"}) }))
	// a host function that panics with the value it is given (a non-error value, possibly with an empty text)
	must(e.Define("panicwith", func(x interface{}) { panic(x) }))
	// a host function that fails with one of the context package's errors (a timeout of its OWN, not of the run)
	must(e.Define("panicctx", func(kind string) {
		switch kind {
		case "deadline":
			panic(context.DeadlineExceeded)
		case "canceled":
			panic(context.Canceled)
		default:
			panic(fmt.Errorf("fetch failed: %w", context.DeadlineExceeded))
		}
	}))
	// host functions that call a script function back: without results, and with one
	must(e.Define("eachcb", func(xs []interface{}, cb func(interface{})) {
		for _, x := range xs {
			cb(x)
		}
	}))
	must(e.Define("callcb0", func(cb func()) { cb() }))
	must(e.Define("cbv", func(cb func(interface{}) interface{}, x interface{}) interface{} { return cb(x) }))
	// host functions whose parameter type most arguments do not convert to: the argument is still evaluated exactly once
	must(e.Define("wantsptr", func(p *int64) int64 { return 0 }))
	must(e.Define("wantsptr2", func(a interface{}, p *int64) int64 { return 0 }))
	must(e.Define("wantsstr", func(s struct{ A int }) int64 { return 0 }))
	must(e.Define("wantsints", func(xs []int64, c chan int64) int64 { return 0 }))
	// host functions that RETURN an error value (nothing is raised): an ordinary result
	must(e.Define("reterr", func() error { tr("reterr"); return fmt.Errorf("returned, not raised") }))
	must(e.Define("reterr2", func() (int64, error) { tr("reterr2"); return 3, fmt.Errorf("returned, not raised") }))
	// a function-typed value that is nil (an unset callback of the host): calling it fails, AFTER its arguments were evaluated
	must(e.Define("wantsnil", (func(int64, int64) int64)(nil)))
	must(e.Define("wantsnilv", (func(...interface{}))(nil)))
	must(e.Define("zero", func() {}))
	must(e.Define("two", func() (interface{}, interface{}) { return int64(1), "two" }))
}

type stubSliceErr []string

func (e stubSliceErr) Error() string { return strings.Join(e, " ") }

// runVM executes stmt in a fresh environment with the stubs, cancelling at poll k (k<0: never).
func runVM(stmt ast.Stmt, k int, limit time.Duration) vmResult {
	return runVMWith(stmt, k, limit, nil)
}

// runVMWith lets the caller add bindings to the fresh environment.
func runVMWith(stmt ast.Stmt, k int, limit time.Duration, setup func(*env.Env)) vmResult {
	e := env.NewEnv()
	if setup != nil {
		setup(e)
	}
	return runVMOn(e, stmt, k, limit)
}

// runVMOn executes stmt in the given environment (the stubs are (re)bound in it first).
func runVMOn(e *env.Env, stmt ast.Stmt, k int, limit time.Duration) vmResult {
	var mu sync.Mutex
	var trace []string
	defineStubs(e, func(x interface{}) {
		mu.Lock()
		trace = append(trace, vals.Encode(x))
		mu.Unlock()
	})
	ctx := newCountCtx(k)
	done := make(chan vmResult, 1)
	go func() {
		var r vmResult
		defer func() {
			if p := recover(); p != nil {
				r.panicked = true
				r.panicVal = p
			}
			done <- r
		}()
		r.val, r.err = vm.RunContext(ctx, e, &vm.Options{Debug: false}, stmt)
	}()
	var r vmResult
	select {
	case r = <-done:
	case <-time.After(limit):
		// stop the runaway goroutine by cancelling at the next poll
		ctx.mu.Lock()
		ctx.k = 0
		ctx.mu.Unlock()
		select {
		case <-done:
		case <-time.After(2 * time.Second):
		}
		return vmResult{hung: true, line: "hung"}
	}
	mu.Lock()
	r.trace = append([]string(nil), trace...)
	mu.Unlock()
	r.polls = ctx.polls()
	var res string
	switch {
	case r.panicked:
		res = fmt.Sprintf("panic %v", r.panicVal)
	case r.err != nil:
		res = "err " + r.err.Error()
	default:
		res = "ok " + vals.Encode(r.val)
	}
	// final top-level bindings
	isStub := map[string]bool{}
	for _, s := range stubNames {
		isStub[s] = true
	}
	var vars []string
	for _, sym := range e.GetValueSymbols() {
		if isStub[sym] {
			continue
		}
		v, _ := e.Get(sym)
		vars = append(vars, "("+sym+" "+encodeTop(v)+")")
	}
	sort.Strings(vars)
	r.line = fmt.Sprintf("res=%s trace=(%s) polls=%d vars=(%s)", res, strings.Join(r.trace, " "), r.polls, strings.Join(vars, " "))
	return r
}

func encodeTop(v interface{}) string {
	if _, ok := v.(*env.Env); ok {
		return "(env)"
	}
	return vals.Encode(v)
}
