package main

import (
	"bufio"
	"encoding/json"
	"fmt"
	"io"
	"os"
	"os/exec"
	"strings"
	"sync"
	"time"

	"github.com/mattn/anko/env"

	"veriftools/internal/vals"
)

// Isolated execution: a worker child process runs scripts one at a time; the parent kills and
// restarts it when a script does not come back in time (a host call that never returns cannot
// be interrupted in-process) or when the child dies (fatal error, out of memory).

type workReq struct {
	Src   string `json:"src"`
	Setup string `json:"setup"` // "" or "core"
	Kind  string `json:"kind"`  // "" = run script; "cancel" = wall-clock cancellation test (Src = JSON cancelReq)
}

type workResp struct {
	Answer string `json:"answer"`
}

type worker struct {
	cmd    *exec.Cmd
	in     io.WriteCloser
	out    *bufio.Reader
	stderr *tailBuf
}

// tailBuf keeps the first bytes a child wrote to stderr (the fatal error header)
type tailBuf struct {
	mu sync.Mutex
	b  []byte
}

func (t *tailBuf) Write(p []byte) (int, error) {
	t.mu.Lock()
	if len(t.b) < 600 {
		t.b = append(t.b, p...)
	}
	t.mu.Unlock()
	return len(p), nil
}

func (t *tailBuf) String() string {
	t.mu.Lock()
	defer t.mu.Unlock()
	s := string(t.b)
	if len(s) > 300 {
		s = s[:300]
	}
	return strings.ReplaceAll(s, "\n", " | ")
}

var theWorker *worker

// wslot is one restartable worker child (several of them run side by side in the no-panic stream)
type wslot struct{ w *worker }

func (sl *wslot) run(req workReq, limit time.Duration) string { return runOn(&sl.w, req, limit) }

func (sl *wslot) stop() {
	if sl.w != nil {
		sl.w.in.Close()
		sl.w.cmd.Process.Kill()
		sl.w.cmd.Wait()
		sl.w = nil
	}
}

func startWorker() *worker {
	cmd := exec.Command(os.Args[0], "__worker")
	cmd.Env = append(os.Environ(), "GOMEMLIMIT=1GiB")
	in, _ := cmd.StdinPipe()
	out, _ := cmd.StdoutPipe()
	tb := &tailBuf{}
	cmd.Stderr = tb
	if err := cmd.Start(); err != nil {
		panic(err)
	}
	return &worker{cmd: cmd, in: in, out: bufio.NewReaderSize(out, 1<<20), stderr: tb}
}

// runIsolated returns the driver-format answer ("ok ...", "err ...", "panic ...") or
// "timeout" / "crashed ..." when the child had to be killed or died.
func runIsolated(src, setup string, limit time.Duration) string {
	return runIsolatedReq(workReq{Src: src, Setup: setup}, limit)
}

// runIsolatedRaw sends a request of another kind (payload in Src).
func runIsolatedRaw(kind, payload string, limit time.Duration) string {
	return runIsolatedReq(workReq{Kind: kind, Src: payload}, limit)
}

func runIsolatedReq(req workReq, limit time.Duration) string { return runOn(&theWorker, req, limit) }

func runOn(wp **worker, req workReq, limit time.Duration) string {
	if *wp == nil {
		*wp = startWorker()
	}
	w := *wp
	b, _ := json.Marshal(req)
	if _, err := w.in.Write(append(b, '\n')); err != nil {
		w.cmd.Process.Kill()
		w.cmd.Wait()
		*wp = nil
		return "crashed write: " + err.Error()
	}
	type res struct {
		line string
		err  error
	}
	ch := make(chan res, 1)
	go func() {
		line, err := w.out.ReadString('\n')
		ch <- res{line, err}
	}()
	select {
	case r := <-ch:
		if r.err != nil {
			w.cmd.Process.Kill()
			err := w.cmd.Wait()
			*wp = nil
			return fmt.Sprintf("crashed %v stderr: %s", err, w.stderr.String())
		}
		var resp workResp
		if err := json.Unmarshal([]byte(r.line), &resp); err != nil {
			return "crashed bad-response"
		}
		return resp.Answer
	case <-time.After(limit):
		w.cmd.Process.Kill()
		w.cmd.Wait()
		*wp = nil
		return "timeout"
	}
}

func stopWorker() {
	if theWorker != nil {
		theWorker.in.Close()
		theWorker.cmd.Process.Kill()
		theWorker.cmd.Wait()
		theWorker = nil
	}
}

// workerMain is the child side.
func workerMain() {
	sc := bufio.NewScanner(os.Stdin)
	sc.Buffer(make([]byte, 1<<20), 1<<26)
	// the protocol keeps the real stdout; what scripts print goes nowhere
	proto := os.Stdout
	if null, err := os.OpenFile(os.DevNull, os.O_WRONLY, 0); err == nil {
		os.Stdout = null
	}
	out := bufio.NewWriter(proto)
	for sc.Scan() {
		var req workReq
		if err := json.Unmarshal(sc.Bytes(), &req); err != nil {
			continue
		}
		if req.Kind == "cancel" {
			var cr cancelReq
			_ = json.Unmarshal([]byte(req.Src), &cr)
			rb, _ := json.Marshal(cancelInWorker(cr))
			b, _ := json.Marshal(workResp{Answer: string(rb)})
			out.Write(append(b, '\n'))
			out.Flush()
			if !json.Valid(rb) {
				continue
			}
			// a spinning callback / goroutine may have been left behind: start from a clean process
			var resp cancelResp
			_ = json.Unmarshal(rb, &resp)
			if !resp.Returned {
				os.Exit(0)
			}
			continue
		}
		if req.Kind == "nopanic-conc" {
			b, _ := json.Marshal(workResp{Answer: noPanicInWorkerFor(req.Src, 6*time.Second)})
			out.Write(append(b, '\n'))
			out.Flush()
			continue
		}
		if req.Kind == "nopanic" {
			b, _ := json.Marshal(workResp{Answer: noPanicInWorker(req.Src)})
			out.Write(append(b, '\n'))
			out.Flush()
			continue
		}
		var setup func(e *env.Env)
		if req.Setup == "core" {
			setup = coreEnv
		}
		o := runScript(req.Src, nil, setup)
		b, _ := json.Marshal(workResp{Answer: o.answer(vals.Encode)})
		out.Write(append(b, '\n'))
		out.Flush()
	}
}
