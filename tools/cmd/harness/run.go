package main

import (
	"context"
	"fmt"
	"time"

	"github.com/mattn/anko/env"
	"github.com/mattn/anko/vm"
)

// outcome of running one script on the real interpreter
type outcome struct {
	val      interface{}
	err      error
	panicked bool
	panicVal interface{}
	timedOut bool
}

// runScript executes src in a fresh environment holding vars, with Debug=false.
func runScript(src string, vars map[string]interface{}, setup func(e *env.Env)) (o outcome) {
	e := env.NewEnv()
	for k, v := range vars {
		if err := e.Define(k, v); err != nil {
			panic(err)
		}
	}
	if setup != nil {
		setup(e)
	}
	return runIn(e, src, 5*time.Second)
}

func runIn(e *env.Env, src string, limit time.Duration) (o outcome) {
	ctx, cancel := context.WithTimeout(context.Background(), limit)
	defer cancel()
	defer func() {
		if r := recover(); r != nil {
			o.panicked = true
			o.panicVal = r
		}
	}()
	v, err := vm.ExecuteContext(ctx, e, &vm.Options{Debug: false}, src)
	o.val, o.err = v, err
	if err != nil && err.Error() == vm.ErrInterrupt.Error() && ctx.Err() != nil {
		o.timedOut = true
	}
	return o
}

func (o outcome) answer(enc func(interface{}) string) string {
	switch {
	case o.panicked:
		return fmt.Sprintf("panic %v", o.panicVal)
	case o.timedOut:
		return "timeout"
	case o.err != nil:
		return "err " + o.err.Error()
	}
	return "ok " + enc(o.val)
}
