package main

import (
	"context"
	"fmt"
	"math/rand"
	"reflect"
	"runtime"
	"strings"
	"sync"
	"time"

	"github.com/mattn/anko/env"
	"github.com/mattn/anko/vm"
)

func init() { streams["chan"] = streamChan }

// runChanScript executes src with a goroutine-safe probe recorder and a deadline.
// chanHangs counts the runs that ended by their time limit; after a few of them the stream stops starting new runs
// (each costs its full limit; the hangs already recorded are the finding)
var chanHangs int

func chanAbort(o *Out) bool {
	if chanHangs >= 3 {
		o.Sum.Hist["runs-not-started-after-3-hangs"]++
		return true
	}
	return false
}

func runChanScript(src string, limit time.Duration) (val interface{}, err error, trace []string, timedOut bool, panicked interface{}) {
	e := env.NewEnv()
	var mu sync.Mutex
	_ = e.Define("probe", func(x interface{}) interface{} {
		mu.Lock()
		trace = append(trace, showChanVal(x))
		mu.Unlock()
		return x
	})
	ctx, cancel := context.WithTimeout(context.Background(), limit)
	defer cancel()
	func() {
		defer func() {
			if p := recover(); p != nil {
				panicked = p
			}
		}()
		val, err = vm.ExecuteContext(ctx, e, nil, src)
	}()
	if ctx.Err() != nil {
		timedOut = true
		chanHangs++
	}
	mu.Lock()
	defer mu.Unlock()
	return val, err, append([]string(nil), trace...), timedOut, panicked
}

func showChanVal(x interface{}) string {
	switch v := x.(type) {
	case nil:
		return "nil"
	case error:
		return "err:" + strings.ReplaceAll(v.Error(), " ", "_")
	case []interface{}:
		xs := make([]string, len(v))
		for i, y := range v {
			xs[i] = showChanVal(y)
		}
		return "[" + strings.Join(xs, ",") + "]"
	}
	return fmt.Sprintf("%v", x)
}

func streamChan(o *Out, r *rand.Rand, n int, thorough bool) {
	o.Sum.Rule = "(1) single-goroutine channel histories: make(chan T, cap) for cap 1..4 and T in int64 / interface, random sequences of send, receive expression, " +
		"two-value receive statement, close, drain by for-in, chosen so that no operation blocks (incl. send on closed, close twice, receive on closed and drained); every " +
		"result compared with the channel LTS of the model; (2) pipelines: 1..4 goroutine stages x buffered (1..3) / unbuffered channels x typed / interface element types x " +
		"0..20 items, each run repeatedly under GOMAXPROCS 1, 2, 4, 16: collected sequence = items through all stages, in order, run terminates; the model runs the same " +
		"pipeline under a pseudo-random schedule; (3) go-call argument capture and element conversion templates"
	// (1) histories
	for it := 0; it < n; it++ {
		capN := 1 + r.Intn(4)
		typ := []string{"int64", "interface"}[r.Intn(2)]
		var src, req strings.Builder
		fmt.Fprintf(&src, "c = make(chan %s, %d)\nv = \"keep\"\nok = \"keep\"\n", typ, capN)
		fmt.Fprintf(&req, "(chanhist %d", capN)
		var want []string // expected probe outputs from the harness's own bookkeeping (oracle)
		var buf []int64
		closed := false
		steps := 3 + r.Intn(12)
		for s := 0; s < steps; s++ {
			switch k := r.Intn(10); {
			case k < 4: // send
				if !closed && len(buf) >= capN {
					continue // would block
				}
				v := int64(r.Intn(100))
				// the arrow with and without blanks around it: `c<-1` is a send like `c <- 1`
				arrow := []string{" <- ", "<-", "<- ", " <-"}[r.Intn(4)]
				fmt.Fprintf(&src, "try {\nc%s%d\nprobe(\"done\")\n} catch e {\nprobe(e)\n}\n", arrow, v)
				fmt.Fprintf(&req, " (send %d)", v)
				if closed {
					want = append(want, "err:send_on_closed_channel")
				} else {
					buf = append(buf, v)
					want = append(want, "done")
				}
			case k < 6: // receive expression
				if len(buf) == 0 && !closed {
					continue
				}
				src.WriteString([]string{"probe(<-c)\n", "probe(<- c)\n", "probe( <-c )\n"}[r.Intn(3)])
				req.WriteString(" (recv)")
				if len(buf) > 0 {
					want = append(want, fmt.Sprint(buf[0]))
					buf = buf[1:]
				} else {
					want = append(want, "nil")
				}
			case k < 8: // two-value receive statement
				if len(buf) == 0 && !closed {
					continue
				}
				src.WriteString("v = \"keep\"\nv, ok = <-c\nprobe([v, ok])\n")
				req.WriteString(" (recv)")
				if len(buf) > 0 {
					want = append(want, fmt.Sprintf("[%d,true]", buf[0]))
					buf = buf[1:]
				} else {
					want = append(want, "[keep,false]")
				}
			case k < 9: // close
				src.WriteString("try {\nclose(c)\nprobe(\"done\")\n} catch e {\nprobe(e)\n}\n")
				req.WriteString(" (close)")
				if closed {
					want = append(want, "err:close_of_closed_channel")
				} else {
					closed = true
					want = append(want, "done")
				}
			default: // drain with for-in (only once closed: it ends when the channel is closed and empty)
				if !closed {
					continue
				}
				src.WriteString("for x in c {\nprobe(x)\n}\nprobe(\"drained\")\n")
				for _, b := range buf {
					req.WriteString(" (recv)")
					want = append(want, fmt.Sprint(b))
				}
				req.WriteString(" (recv)") // the receive that finds the channel closed and empty
				want = append(want, "drained")
				buf = nil
			}
		}
		req.WriteString(")")
		if chanAbort(o) {
			continue
		}
		_, err, trace, timedOut, panicked := runChanScript(src.String(), 5*time.Second)
		o.Sum.Hist[fmt.Sprintf("hist:cap%d:%s", capN, typ)]++
		// the model line: results in the model's vocabulary
		var implRes []string
		for _, t := range trace {
			switch {
			case t == "done" || strings.HasPrefix(t, "err:"):
				implRes = append(implRes, t)
			case t == "nil" || t == "[keep,false]" || t == "drained":
				implRes = append(implRes, "closed-empty")
			case strings.HasPrefix(t, "["):
				implRes = append(implRes, "val:"+strings.TrimSuffix(strings.TrimPrefix(t, "["), ",true]"))
			default:
				implRes = append(implRes, "val:"+t)
			}
		}
		o.Case(req.String(), strings.Join(implRes, " "), src.String(), true)
		switch {
		case panicked != nil:
			o.Fail(Failure{Oracle: "no-panic", Key: "chan-panic", Input: src.String(), Detail: fmt.Sprint(panicked)})
		case timedOut:
			o.Fail(Failure{Oracle: "chan-go-semantics", Key: "chan-history-blocked", Input: src.String(), Detail: "a history without blocking operations did not finish"})
		case err != nil:
			o.Fail(Failure{Oracle: "chan-go-semantics", Key: "chan-history-error", Input: src.String(), Detail: err.Error()})
		case strings.Join(trace, " ") != strings.Join(want, " "):
			o.Fail(Failure{Oracle: "chan-go-semantics", Key: "chan-history", Input: src.String(), Detail: fmt.Sprintf("a Go channel gives %v, the script observed %v", want, trace)})
		}
	}
	// (1b) for-in loops left early: the items seen and the items still in the channel, against Model/Chan rangeLoop
	for it := 0; it < 40+n/10; it++ {
		capN := 1 + r.Intn(10)
		k := r.Intn(capN + 1)
		items := make([]int64, k)
		for i := range items {
			items[i] = int64(r.Intn(6))
		}
		stopAt := int64(r.Intn(7)) // 6 never occurs: the loop runs to the end
		var src, req strings.Builder
		fmt.Fprintf(&src, "c = make(chan int64, %d)\n", capN)
		fmt.Fprintf(&req, "(chanrange %d %d", capN, stopAt)
		for _, v := range items {
			fmt.Fprintf(&src, "c <- %d\n", v)
			fmt.Fprintf(&req, " %d", v)
		}
		req.WriteString(")")
		leave := []string{"break", "throw \"leave\""}[r.Intn(2)]
		fmt.Fprintf(&src, "close(c)\nseen = []\ntry {\nfor v in c {\nseen += v\nif v == %d {\n%s\n}\n}\n} catch e {\n}\nleft = []\nfor v in c {\nleft += v\n}\nprobe(seen)\nprobe(left)\n", stopAt, leave)
		if chanAbort(o) {
			continue
		}
		_, err, trace, timedOut, panicked := runChanScript(src.String(), 5*time.Second)
		o.Sum.Hist["range-left-early"]++
		impl := "failed"
		if err == nil && !timedOut && panicked == nil && len(trace) == 2 {
			lst := func(t string) string { return "[" + strings.ReplaceAll(strings.Trim(t, "[]"), ",", ", ") + "]" }
			impl = fmt.Sprintf("seen=%s left=%s", lst(trace[0]), lst(trace[1]))
		}
		o.Case(req.String(), impl, src.String(), true)
		// the oracle of the property itself: every item exactly once, in order, across what the body saw and what is left
		var all []string
		for _, v := range items {
			all = append(all, fmt.Sprint(v))
		}
		joined := ""
		if len(trace) == 2 {
			joined = strings.Trim(strings.Trim(trace[0], "[]")+","+strings.Trim(trace[1], "[]"), ",")
		}
		if err != nil || timedOut || panicked != nil || len(trace) != 2 || joined != strings.Join(all, ",") {
			o.Fail(Failure{Oracle: "chan-go-semantics", Key: "chan-range-left-early", Input: src.String(),
				Detail: fmt.Sprintf("items %v: the loop's body saw %v and the channel then held %v (err %v, timeout %v, panic %v): every item exactly once, in order", all, trace, "see trace", err, timedOut, panicked)})
		}
	}
	// (2) pipelines
	procs := []int{1, 2, 4, 16}
	reps := 1
	if thorough {
		reps = 4
	}
	old := runtime.GOMAXPROCS(0)
	defer runtime.GOMAXPROCS(old)
	np := n / 10
	if np < 20 {
		np = 20
	}
	for it := 0; it < np; it++ {
		k := 1 + r.Intn(4)
		nitems := r.Intn(21)
		typ := []string{"int64", "interface", "float64"}[r.Intn(3)]
		items := make([]int64, nitems)
		for i := range items {
			items[i] = int64(r.Intn(50))
		}
		type stg struct{ a, b int64 }
		stages := make([]stg, k)
		caps := make([]int, k+1)
		for i := range stages {
			stages[i] = stg{int64(1 + r.Intn(3)), int64(r.Intn(5))}
		}
		for i := range caps {
			if r.Intn(2) == 0 {
				caps[i] = 1 + r.Intn(3)
			}
		}
		var src strings.Builder
		for i, c := range caps {
			if c == 0 {
				fmt.Fprintf(&src, "c%d = make(chan %s)\n", i, typ)
			} else {
				fmt.Fprintf(&src, "c%d = make(chan %s, %d)\n", i, typ, c)
			}
		}
		its := make([]string, len(items))
		for i, v := range items {
			its[i] = fmt.Sprint(v)
		}
		fmt.Fprintf(&src, "items = [%s]\ngo func() {\nfor v in items {\nc0 <- v\n}\nclose(c0)\n}()\n", strings.Join(its, ", "))
		// the stages: closures, or named functions started with `go f(args)` - 4 parameters, 6 parameters, a variadic
		// tail, arguments read from list elements that are overwritten right after the go statement, a spawning loop
		style := r.Intn(7)
		o.Sum.Hist[fmt.Sprintf("pipeline:style%d", style)]++
		src.WriteString("func st4(inp, out, a, b) {\nfor x in inp {\nout <- x * a + b\n}\nclose(out)\n}\n")
		src.WriteString("func st6(inp, out, a, b, tag, z) {\nfor x in inp {\nout <- x * a + b + z\n}\nclose(out)\n}\n")
		src.WriteString("func stv(inp, out, ab...) {\nfor x in inp {\nout <- x * ab[0] + ab[1]\n}\nclose(out)\n}\n")
		if style >= 5 {
			cs, as, bs := make([]string, k+1), make([]string, k), make([]string, k)
			for i := range cs {
				cs[i] = fmt.Sprintf("c%d", i)
			}
			for i, s := range stages {
				as[i], bs[i] = fmt.Sprint(s.a), fmt.Sprint(s.b)
			}
			fmt.Fprintf(&src, "chs = [%s]\nas = [%s]\nbs = [%s]\n", strings.Join(cs, ", "), strings.Join(as, ", "), strings.Join(bs, ", "))
			call := "go st6(chs[i], chs[i + 1], as[i], bs[i], \"t\", 0)"
			if style == 6 {
				call = "go stv(chs[i], chs[i + 1], as[i], bs[i])\nas[i] = 0\nbs[i] = 0"
			}
			fmt.Fprintf(&src, "for i = 0; i < %d; i++ {\n%s\n}\n", k, call)
		}
		for i, s := range stages {
			switch style {
			case 0:
				fmt.Fprintf(&src, "go func() {\nfor x in c%d {\nc%d <- x * %d + %d\n}\nclose(c%d)\n}()\n", i, i+1, s.a, s.b, i+1)
			case 1:
				fmt.Fprintf(&src, "go st4(c%d, c%d, %d, %d)\n", i, i+1, s.a, s.b)
			case 2:
				fmt.Fprintf(&src, "go st6(c%d, c%d, %d, %d, \"t\", 0)\n", i, i+1, s.a, s.b)
			case 3:
				fmt.Fprintf(&src, "go stv(c%d, c%d, %d, %d)\n", i, i+1, s.a, s.b)
			case 4:
				fmt.Fprintf(&src, "cfg = [%d, %d, c%d, c%d]\ngo st4(cfg[2], cfg[3], cfg[0], cfg[1])\ncfg[0] = 0\ncfg[1] = 0\ncfg[2] = nil\ncfg[3] = nil\n", s.a, s.b, i, i+1)
			}
		}
		fmt.Fprintf(&src, "res = []\nfor x in c%d {\nres += x\n}\nres\n", k)
		want := make([]interface{}, len(items))
		for i, v := range items {
			for _, s := range stages {
				v = v*s.a + s.b
			}
			if typ == "float64" {
				want[i] = float64(v)
			} else {
				want[i] = v
			}
		}
		// model request: the k transforming stages and the consumer (identity, fed by the last channel)
		var req strings.Builder
		fmt.Fprintf(&req, "(pipe (%s) (", strings.Join(its, " "))
		for i, s := range stages {
			fmt.Fprintf(&req, "(%d %d %d) ", s.a, s.b, caps[i])
		}
		fmt.Fprintf(&req, "(1 0 %d)) %d)", caps[k], r.Intn(1<<30))
		wantInts := make([]string, len(items))
		for i := range want {
			wantInts[i] = strings.TrimSuffix(fmt.Sprint(want[i]), ".0")
		}
		implLine := ""
		for _, p := range procs {
			runtime.GOMAXPROCS(p)
			for rep := 0; rep < reps; rep++ {
				if chanAbort(o) {
					continue
				}
				val, err, _, timedOut, panicked := runChanScript(src.String(), 10*time.Second)
				o.Sum.Evaluations++
				o.Sum.Hist[fmt.Sprintf("pipeline:procs%d", p)]++
				o.Sum.Hist[fmt.Sprintf("pipeline:stages%d", k)]++
				in := fmt.Sprintf("[GOMAXPROCS=%d] %s", p, src.String())
				switch {
				case panicked != nil:
					o.Fail(Failure{Oracle: "no-panic", Key: "chan-panic", Input: in, Detail: fmt.Sprint(panicked)})
				case timedOut:
					o.Fail(Failure{Oracle: "pipeline-terminates", Key: "pipeline-hung", Input: in, Detail: "the pipeline did not finish within 10 s"})
				case err != nil:
					o.Fail(Failure{Oracle: "pipeline-delivers", Key: "pipeline-error", Input: in, Detail: err.Error()})
				default:
					got, _ := val.([]interface{})
					if !reflect.DeepEqual(got, want) && !(len(got) == 0 && len(want) == 0) {
						o.Fail(Failure{Oracle: "pipeline-delivers", Key: "pipeline-sequence", Input: in, Detail: fmt.Sprintf("consumer collected %v, expected %v", val, want)})
					}
					xs := make([]string, len(got))
					for i, g := range got {
						xs[i] = fmt.Sprint(g)
					}
					implLine = "terminal=true out=[" + strings.Join(xs, ", ") + "]"
				}
			}
		}
		runtime.GOMAXPROCS(old)
		if implLine != "" {
			o.Case(req.String(), implLine, src.String(), nitems > 0)
		}
	}
	// (2b) fan-in: several producers into one channel; every item arrives exactly once, each producer's items in its order
	nf := np / 4
	if nf < 4 {
		nf = 4
	}
	for it := 0; it < nf; it++ {
		P := 2 + r.Intn(3)
		N := 50 + r.Intn(250)
		capN := r.Intn(4)
		var src strings.Builder
		if capN == 0 {
			src.WriteString("c = make(chan int64)\n")
		} else {
			fmt.Fprintf(&src, "c = make(chan int64, %d)\n", capN)
		}
		src.WriteString("done = make(chan int64)\n")
		fmt.Fprintf(&src, "for p = 0; p < %d; p++ {\ngo func(base) {\nfor i = 0; i < %d; i++ {\nc <- base + i\n}\ndone <- 1\n}(p * 100000)\n}\n", P, N)
		fmt.Fprintf(&src, "go func() {\nfor k = 0; k < %d; k++ {\n<-done\n}\nclose(c)\n}()\nres = []\nfor x in c {\nres += x\n}\nres\n", P)
		for _, p := range []int{2, 4, 16} {
			runtime.GOMAXPROCS(p)
			for rep := 0; rep < 2*reps; rep++ {
				if chanAbort(o) {
					continue
				}
				val, err, _, timedOut, panicked := runChanScript(src.String(), 20*time.Second)
				o.Sum.Evaluations++
				o.Sum.Hist[fmt.Sprintf("fan-in:procs%d", p)]++
				in := fmt.Sprintf("[GOMAXPROCS=%d] %s", p, src.String())
				if panicked != nil || timedOut || err != nil {
					o.Fail(Failure{Oracle: "pipeline-delivers", Key: "fan-in-run", Input: in, Detail: fmt.Sprintf("err %v timeout %v panic %v", err, timedOut, panicked)})
					break
				}
				got, _ := val.([]interface{})
				next := make([]int64, P)
				bad := ""
				for _, g := range got {
					v, _ := g.(int64)
					pi := int(v / 100000)
					if pi < 0 || pi >= P || v%100000 != next[pi] {
						bad = fmt.Sprintf("item %d arrived when producer %d's next item was %d", v, pi, next[pi%P]+int64(pi)*100000)
						break
					}
					next[pi]++
				}
				if bad == "" {
					for pi := range next {
						if next[pi] != int64(N) {
							bad = fmt.Sprintf("producer %d sent %d items, %d arrived (total %d of %d)", pi, N, next[pi], len(got), P*N)
							break
						}
					}
				}
				if bad != "" {
					o.Fail(Failure{Oracle: "pipeline-delivers", Key: "fan-in-lost-or-reordered", Input: in, Detail: bad})
					break
				}
			}
		}
		runtime.GOMAXPROCS(old)
	}
	// (3) templates
	templates := []struct{ name, src, want string }{
		{"go-args-captured", "c = make(chan int64, 1)\nx = 1\ngo func(a) {\nc <- a\n}(x)\nx = 2\n<-c", "1"},
		{"go-args-element-copied", "c = make(chan int64, 1)\njobs = [7]\ngo func(a) {\nc <- a\n}(jobs[0])\njobs[0] = -1\n<-c", "7"},
		{"go-args-element-copied-named", "c = make(chan int64, 1)\nfunc w(a, out) {\nout <- a\n}\njobs = [7]\ngo w(jobs[0], c)\njobs[0] = -1\n<-c", "7"},
		{"go-args-fan-out-6-params", "c = make(chan int64, 8)\nfunc w(out, id, p, q, r, s) {\nout <- id\n}\nfor i = 0; i < 8; i++ {\ngo w(c, i, 1, 0, \"w\", nil)\n}\nt = 0\nfor i = 0; i < 8; i++ {\nt += 1 << (<-c)\n}\nt", "255"},
		{"go-args-fan-out-variadic", "c = make(chan int64, 8)\nfunc w(out, ids...) {\nout <- ids[0]\n}\nfor i = 0; i < 8; i++ {\ngo w(c, i, i)\n}\nt = 0\nfor i = 0; i < 8; i++ {\nt += 1 << (<-c)\n}\nt", "255"},
		{"go-args-map-member-copied", "c = make(chan int64, 1)\nst = {\"next\": 5}\ngo func(a) {\nc <- a\n}(st.next)\nst.next = 6\n<-c", "5"},
		{"zip-two-streams", "a = make(chan int64, 4)\nb = make(chan int64, 4)\nfor i = 1; i <= 4; i++ {\na <- i\nb <- i * 100\n}\nclose(a)\nclose(b)\nr = []\nfor x in a {\nr += x + <-b\n}\nr", "[101,202,303,404]"},
		{"nested-ranges", "rows = make(chan int64, 2)\nrows <- 1\nrows <- 2\nclose(rows)\nr = []\nfor x in rows {\ncols = make(chan int64, 2)\ncols <- 10\ncols <- 20\nclose(cols)\nfor y in cols {\nr += x * 100 + y\n}\n}\nr", "[110,120,210,220]"},
		{"range-with-ack", "jobs = make(chan int64)\nout = make(chan int64)\nack = make(chan int64)\ngo func() {\nfor j in jobs {\nout <- j * 10\n<-ack\n}\nclose(out)\n}()\ngo func() {\nfor i = 1; i <= 5; i++ {\njobs <- i\n}\nclose(jobs)\n}()\nr = []\nfor v in out {\nr += v\nack <- 1\n}\nr", "[10,20,30,40,50]"},
		{"range-body-recv-ok", "a = make(chan int64, 3)\nb = make(chan int64, 3)\nfor i = 1; i <= 3; i++ {\na <- i\nb <- -i\n}\nclose(a)\nr = []\nfor x in a {\nv, ok = <-b\nr += x + v\n}\nr", "[0,0,0]"},
		{"recv-arg-5-params", "src = make(chan int64, 6)\nfor i = 1; i <= 6; i++ {\nsrc <- i\n}\nfunc emit(v, a, b, c, d) { return v }\nr = []\nfor i = 0; i < 3; i++ {\nr += emit(<-src, 1, 2, 3, 4)\n}\nr + len(src)", "[1,2,3,3]"},
		{"recv-arg-6-params-go", "ids = make(chan int64, 2)\nids <- 7\nids <- 8\nres = make(chan int64, 2)\nfunc worker(id, out, a, b, c, d) { out <- id }\ngo worker(<-ids, res, 1, 2, 3, 4)\ngo worker(<-ids, res, 1, 2, 3, 4)\n(<-res) + (<-res)", "15"},
		{"recv-arg-variadic", "src = make(chan int64, 4)\nfor i = 1; i <= 4; i++ {\nsrc <- i\n}\nfunc first(v...) { return v[0] }\n[first(<-src, 0), first(<-src), len(src)]", "[1,2,2]"},
		{"forward-after-close-int", "src = make(chan int64, 5)\nfor i = 1; i <= 5; i++ {\nsrc <- i * 10\n}\nclose(src)\ndst = make(chan int64, 8)\nfor i = 0; i < 8; i++ {\ndst <- src\n}\nclose(dst)\nr = []\nfor v in dst {\nr += v\n}\nr", "[10,20,30,40,50]"},
		{"forward-after-close-iface", "src = make(chan interface, 2)\nsrc <- 1\nsrc <- \"a\"\nclose(src)\ndst = make(chan interface, 4)\nfor i = 0; i < 4; i++ {\ndst <- src\n}\nlen(dst)", "2"},
		{"forward-relay-goroutine", "src = make(chan int64)\ndst = make(chan int64)\ngo func() {\nfor i = 1; i <= 3; i++ {\nsrc <- i\n}\nclose(src)\n}()\ngo func() {\nfor i = 0; i < 6; i++ {\ndst <- src\n}\nclose(dst)\n}()\nr = []\nfor v in dst {\nr += v\n}\nr", "[1,2,3]"},
		{"call-through-expression-per-stage", "fns = [func(v) { return v + 1 }, func(v) { return v + 100 }, func(v) { return v + 10000 }, func(v) { return v + 1000000 }]\nchs = [make(chan int64, 4), make(chan int64, 4), make(chan int64, 4), make(chan int64, 4), make(chan int64, 4)]\nfor i = 0; i < 4; i++ {\ngo func(i) {\nfor x in chs[i] {\nchs[i + 1] <- fns[i](x)\n}\nclose(chs[i + 1])\n}(i)\n}\ngo func() {\nfor k = 0; k < 4000; k++ {\nchs[0] <- 0\n}\nclose(chs[0])\n}()\nbad = 0\nn = 0\nfor y in chs[4] {\nn++\nif y != 1010101 {\nbad++\n}\n}\n[n, bad]", "[4000,0]"},
		{"go-args-before-start", "c = make(chan int64)\ngo func(a, b) {\nc <- a + b\n}(probe(1), probe(2))\nprobe(3)\n<-c", "3"},
		{"convert-float-to-int64-chan", "c = make(chan int64, 1)\nc <- 2.0\n<-c", "2"},
		{"convert-int-to-float-chan", "c = make(chan float64, 1)\nc <- 2\n<-c", "2"},
		// a send converts the item as Go's conversion does: values that ROUND to the element type are delivered (rounded)
		{"convert-rounds-to-float32", "c = make(chan float32, 4)\nfor v in [0.1, 1.1, 2.5, 16777217] {\nc <- v\n}\nclose(c)\nn = 0\nfor x in c {\nif x > 0 {\nn++\n}\n}\nn", "4"},
		{"convert-rounds-to-float64", "c = make(chan float64, 2)\nc <- 9007199254740993\nc <- 9223372036854775807\n[(<-c) > 9007199254740000.0, (<-c) > 9e18]", "[true,true]"},
		{"convert-float-truncates-to-int64", "c = make(chan int64, 2)\nc <- 2.5\nc <- -2.5\n[<-c, <-c]", "[2,-2]"},
		{"convert-rounding-in-a-stage", "a = make(chan float64)\nb = make(chan float32)\ngo func() {\nfor v in [0.1, 0.2, 0.3, 1.5] {\na <- v\n}\nclose(a)\n}()\ngo func() {\nfor x in a {\nb <- x * 3\n}\nclose(b)\n}()\nn = 0\nfor y in b {\nn++\n}\nn", "4"},
		{"convert-int-to-string-chan-fails", "c = make(chan string, 1)\nr = \"no-error\"\ntry {\nc <- []\n} catch e {\nr = \"error\"\n}\nr", "error"},
		{"chan-of-chan-forward", "a = make(chan int64, 1)\nb = make(chan int64, 1)\na <- 7\nb <- a\n<-b", "7"},
		{"recv-ok-open", "c = make(chan int64, 1)\nc <- 5\nv, ok = <-c\n[v, ok]", "[5,true]"},
		{"recv-ok-closed-keeps-v", "c = make(chan int64, 1)\nclose(c)\nv = \"keep\"\nv, ok = <-c\n[v, ok]", "[keep,false]"},
		{"for-in-ends-on-close", "c = make(chan int64, 3)\nc <- 1\nc <- 2\nclose(c)\ns = 0\nfor x in c {\ns += x\n}\ns", "3"},
		// goroutines started by goroutines keep running after their starter has returned
		{"nested-go-launcher", "jobs = make(chan int64)\nres = make(chan int64)\nfunc worker() {\nfor j in jobs {\nres <- j * j\n}\n}\nfunc start(n) {\nfor i = 0; i < n; i++ {\ngo worker()\n}\n}\ngo start(3)\ngo func() {\nfor i = 1; i <= 20; i++ {\njobs <- i\n}\nclose(jobs)\n}()\nt = 0\nfor k = 0; k < 20; k++ {\nt += <-res\n}\nt", "2870"},
		{"nested-go-helper", "out = make(chan int64, 1)\ngo func() {\ngo func() {\nfor i = 1; i <= 40; i++ {\nout <- i\n}\nclose(out)\n}()\n}()\nt = 0\nfor v in out {\nt += v\n}\nt", "820"},
		{"nested-go-dispatcher", "inp = make(chan int64)\nres = make(chan int64)\nfunc handle(v) {\nres <- v + 1000\n}\ngo func() {\nfor v in inp {\ngo handle(v)\n}\n}()\ngo func() {\nfor i = 0; i < 10; i++ {\ninp <- i\n}\nclose(inp)\n}()\nt = 0\nfor k = 0; k < 10; k++ {\nt += <-res\n}\nt", "10045"},
		{"nested-go-three-deep", "c = make(chan int64)\ngo func() {\ngo func() {\ngo func() {\nfor i = 0; i < 5; i++ {\nc <- i\n}\nclose(c)\n}()\n}()\n}()\nr = []\nfor v in c {\nr += v\n}\nr", "[0,1,2,3,4]"},
		// nil is an item like any other on an interface channel, however it is received
		{"iface-nil-items-for-in", "c = make(chan interface, 6)\nfor v in [1, nil, 2, nil] {\nc <- v\n}\nclose(c)\nr = []\nfor x in c {\nif x == nil {\nr += \"none\"\n} else {\nr += x * 10\n}\n}\nr", "[10,none,20,none]"},
		{"iface-nil-items-recv", "c = make(chan interface, 6)\nfor v in [1, nil, 2] {\nc <- v\n}\nr = []\nfor i = 0; i < 3; i++ {\nx = <-c\nif x == nil {\nr += \"none\"\n} else {\nr += x * 10\n}\n}\nr", "[10,none,20]"},
		{"iface-nil-items-pipeline", "a = make(chan interface)\nb = make(chan interface)\ngo func() {\nfor v in [1, nil, 2, 3, nil, 4] {\na <- v\n}\nclose(a)\n}()\ngo func() {\nfor x in a {\nif x == nil {\nb <- nil\n} else {\nb <- x * 10\n}\n}\nclose(b)\n}()\nr = []\nfor y in b {\nr += (y == nil ? \"none\" : y)\n}\nr", "[10,none,20,30,none,40]"},
		{"iface-nil-items-recv-ok", "c = make(chan interface, 2)\nc <- nil\nclose(c)\nv = 5\nv, ok = <-c\nw = 6\nw, ok2 = <-c\n[v == nil, ok, w, ok2]", "[true,true,6,false]"},
		// the variable of a for-in over a channel is the loop's own: a variable of that name outside keeps its value
		{"for-in-variable-is-local", "v = 7\nc = make(chan int64, 2)\nc <- 1\nc <- 2\nclose(c)\ns = 0\nfor v in c {\ns += v\n}\n[v, s]", "[7,3]"},
		{"for-in-variable-is-local-in-stages", "v = -1\nok = false\nc1 = make(chan int64)\nc2 = make(chan int64, 2)\ngo func() {\nfor i = 0; i < 200; i++ {\nc1 <- i\n}\nclose(c1)\n}()\ngo func() {\nfor v in c1 {\nc2 <- v + 1000\n}\nclose(c2)\n}()\nbad = 0\nn = 0\nfor {\nv, ok = <- c2\nif !ok {\nbreak\n}\nif v != 1000 + n {\nbad++\n}\nn++\n}\n[n, bad]", "[200,0]"},
		// every made value of a struct type with channel fields has channels of its own (what goes to one inbox reaches that
		// worker only; closing one does not close the other)
		{"struct-channels-are-per-value", "a = make(struct { In chan int64 })\nb = make(struct { In chan int64 })\nclose(a.In)\ngo func() { b.In <- 5 }()\nv, ok = <-b.In\n[v, ok]", "[5,true]"},
		{"struct-channels-two-workers", "make(type Worker, make(struct { In chan int64 }))\nw1 = make(Worker)\nw2 = make(Worker)\nout = make(chan int64, 16)\nfunc run(w, k) {\nfor v in w.In {\nout <- v * k\n}\nout <- 0 - k\n}\ngo run(w1, 1)\ngo run(w2, 100)\nw1.In <- 1\nw1.In <- 2\nclose(w1.In)\nw2.In <- 4\nclose(w2.In)\ns = 0\nfor i = 0; i < 5; i++ {\ns += <-out\n}\ns", "302"},
		{"struct-channels-nested", "make(type Box, make(struct { In chan int64 }))\nmake(type Pair, make(struct { A Box, B Box }))\np = make(Pair)\nq = make(Pair)\nclose(p.A.In)\nclose(p.B.In)\nclose(q.A.In)\nclose(q.B.In)\n\"all four closed once\"", "all four closed once"},
		{"struct-channels-in-a-slice", "ws = make([]struct { In chan int64 }, 2)\nws[0] = make(struct { In chan int64 })\nws[1] = make(struct { In chan int64 })\nclose(ws[0].In)\ngo func() { ws[1].In <- 9 }()\n<-ws[1].In", "9"},
		// a goroutine that fails does so on its own: the statement that started it - long finished - and its starter are not touched
		{"go-variadic-fails-starter-continues", "out = make(chan int64, 4)\nfunc stage(out, items...) {\nfor x in items {\nout <- x\n}\nthrow \"stage failed\"\n}\ngo stage(out, 1, 2, 3)\nn = 0\nfor i = 0; i < 150000; i++ {\nn++\n}\nt = 0\nfor i = 0; i < 3; i++ {\nt += <-out\n}\n[t, n]", "[6,150000]"},
		{"go-six-parameters-fails-starter-continues", "out = make(chan int64, 4)\nfunc stage6(out, a, b, c, d, e) {\nout <- a + b + c + d + e\nx = [1][5]\n}\ngo stage6(out, 1, 2, 3, 4, 5)\nn = 0\nfor i = 0; i < 150000; i++ {\nn++\n}\n[<-out, n]", "[15,150000]"},
		{"go-variadic-succeeds-starter-error-kept", "done = make(chan bool, 1)\nfunc quick(items...) {\ndone <- true\n}\nr = \"\"\ntry {\ngo quick(1)\n<-done\nfor i = 0; i < 50000; i++ {\n}\nthrow \"mine\"\n} catch e {\nr = \"caught\"\n}\nr", "caught"},
		// `go` returns to its caller at once, however many goroutines are waiting
		{"many-goroutines-wait-for-a-gate", "gate = make(chan bool)\nres = make(chan int64, 1500)\nfor k = 0; k < 1500; k++ {\ngo func(k) {\n<-gate\nres <- 1\n}(k)\n}\nclose(gate)\nt = 0\nfor i = 0; i < 1500; i++ {\nt += <-res\n}\nt", "1500"},
		// closing is about the channel, not about where it lives: thousands of channels made and closed one after another
		{"close-fresh-channels", "n = 0\nfor i = 0; i < 60000; i++ {\nc = make(chan int64, 1)\nclose(c)\nn++\n}\nn", "60000"},
		{"reply-channel-per-request", "reqs = make(chan interface, 4)\ngo func() {\nfor r in reqs {\nc = r[0]\nc <- 1\nclose(c)\n}\n}()\nt = 0\nfor i = 0; i < 20000; i++ {\nreply = make(chan int64, 1)\nreqs <- [reply]\nfor v in reply {\nt += v\n}\n}\nclose(reqs)\nt", "20000"},
		// a stage started from a function literal that fails after registering its clean-up: the deferred close / done signal still runs
		{"go-literal-defers-run-on-failure", "out = make(chan int64, 4)\ngo func() {\ndefer func() { close(out) }()\nout <- 1\nout <- 2\nthrow \"stage failed\"\n}()\nr = []\nfor v in out {\nr += v\n}\nr", "[1,2]"},
		{"go-literal-defers-run-on-runtime-error", "out = make(chan int64, 4)\ndone = make(chan bool, 1)\ngo func(k) {\ndefer func() { done <- true }()\ndefer func() { close(out) }()\nout <- k\nx = [1][5]\nout <- 99\n}(7)\nr = []\nfor v in out {\nr += v\n}\n[r, <-done]", "[[7],true]"},
		{"go-literal-defers-run-on-send-on-closed", "c = make(chan int64, 1)\nclose(c)\ndone = make(chan int64, 1)\ngo func() {\ndefer func() { done <- 5 }()\nc <- 1\n}()\n<-done", "5"},
		{"go-named-defers-run-on-failure", "out = make(chan int64, 4)\nfunc stage(k) {\ndefer func() { close(out) }()\nout <- k\nthrow \"failed\"\n}\ngo stage(3)\nr = []\nfor v in out {\nr += v\n}\nr", "[3]"},
		// a function that starts its worker with go func(){...}() over its own parameters / locals and returns at once: the goroutine keeps its scope
		{"generator-idiom", "func source(n) {\nc = make(chan int64)\ngo func() {\nfor i = 0; i < n; i++ {\nc <- i\n}\nclose(c)\n}()\nreturn c\n}\nr = []\nfor v in source(5) {\nr += v\n}\nr", "[0,1,2,3,4]"},
		{"generator-pipeline", "func source(n) {\nc = make(chan int64)\ngo func() {\nfor i = 1; i <= n; i++ {\nc <- i\n}\nclose(c)\n}()\nreturn c\n}\nfunc double(src) {\nout = make(chan int64)\ngo func() {\nfor v in src {\nout <- v * 2\n}\nclose(out)\n}()\nreturn out\n}\nn = 2\nc = nil\nr = []\nfor v in double(double(source(4))) {\nr += v\n}\nr", "[4,8,12,16]"},
		{"generator-locals", "func ticker(label, k) {\nvar out = make(chan string, 1)\nvar count = k\ngo func() {\nfor count > 0 {\nout <- label + count\ncount--\n}\nclose(out)\n}()\nreturn out\n}\na = ticker(\"a\", 2)\nb = ticker(\"b\", 2)\n[<-a, <-b, <-a, <-b]", "[a2,b2,a1,b1]"},
		// a for-in over a channel takes ONE item per round: what it has not handed to its body is still in the channel
		{"range-left-early-rest-stays", "c = make(chan int64, 10)\nfor i = 0; i < 10; i++ {\nc <- i\n}\nclose(c)\nfirst = []\nfor v in c {\nfirst += v\nif v == 2 {\nbreak\n}\n}\nrest = []\nfor v in c {\nrest += v\n}\n[first, rest]", "[[0,1,2],[3,4,5,6,7,8,9]]"},
		{"range-body-receives-from-same", "c = make(chan int64, 8)\nfor i = 0; i < 8; i++ {\nc <- i\n}\nclose(c)\npairs = []\nfor a in c {\nb = <-c\npairs += a * 10 + b\n}\npairs", "[1,23,45,67]"},
		{"range-left-by-return-rest-stays", "c = make(chan int64, 6)\nfor i = 1; i <= 6; i++ {\nc <- i\n}\nfunc firstEven() {\nfor v in c {\nif v % 2 == 0 {\nreturn v\n}\n}\n}\n[firstEven(), firstEven(), len(c)]", "[2,4,2]"},
		{"range-left-by-error-rest-stays", "c = make(chan int64, 4)\nfor i = 1; i <= 4; i++ {\nc <- i\n}\ntry {\nfor v in c {\nthrow \"stop\"\n}\n} catch e {\n}\n[<-c, len(c)]", "[2,2]"},
		{"workers-stop-on-their-own-mark", "jobs = make(chan int64, 16)\ndone = make(chan int64, 4)\nfor w = 0; w < 4; w++ {\ngo func() {\nvar n = 0\nfor j in jobs {\nif j < 0 {\nbreak\n}\nn += j\n}\ndone <- n\n}()\n}\nfor i = 1; i <= 8; i++ {\njobs <- i\n}\nfor w = 0; w < 4; w++ {\njobs <- -1\n}\ntotal = 0\nfor w = 0; w < 4; w++ {\ntotal += <-done\n}\ntotal", "36"},
		{"unbuffered-handoff", "c = make(chan int64)\nd = make(chan int64)\ngo func() {\nfor x in c {\nd <- x + 1\n}\nclose(d)\n}()\ngo func() {\nc <- 1\nc <- 2\nclose(c)\n}()\nr = []\nfor y in d {\nr += y\n}\nr", "[2,3]"},
	}
	for _, t := range templates {
		for _, p := range procs {
			runtime.GOMAXPROCS(p)
			if chanAbort(o) {
				continue
			}
			val, err, trace, timedOut, panicked := runChanScript(t.src, 5*time.Second)
			o.Sum.Evaluations++
			o.Sum.Hist["template"]++
			got := showChanVal(val)
			if panicked != nil || timedOut || err != nil || got != t.want {
				o.Fail(Failure{Oracle: "chan-go-semantics", Key: "chan-template:" + t.name, Input: fmt.Sprintf("[GOMAXPROCS=%d] %s", p, t.src), Detail: fmt.Sprintf("result %s (err %v, timeout %v, panic %v), expected %s", got, err, timedOut, panicked, t.want)})
			}
			if t.name == "go-args-before-start" && strings.Join(trace, " ") != "1 2 3" {
				o.Fail(Failure{Oracle: "go-arguments-first", Key: "chan-template:" + t.name + ":order", Input: t.src, Detail: fmt.Sprintf("probe order %v, expected [1 2 3]", trace)})
			}
		}
		runtime.GOMAXPROCS(old)
	}
}
