package main

import (
	"fmt"
	"math/rand"
	"strings"
	"time"

	"github.com/mattn/anko/parser"

	"veriftools/internal/astser"
	"veriftools/internal/vals"
)

func init() { streams["errors"] = streamErrors }

// Programs over try/catch/finally, throw, runtime errors, functions and defer with an
// independent reference evaluator (C09 oracle). `return` is never placed inside a try block
// (finding #13: try would catch it).
type enode struct {
	kind string // probe, seq, try, throw, rterr, func, deferProbe, deferFunc, deferVar, return, catchProbe
	k    int
	kids []*enode // try: [body, catch, finally?]; func: [body]; deferFunc: [body]
	hasF bool
	v    string // catch variable
}

type egen struct {
	r      *rand.Rand
	nprobe int
	nvar   int
}

func (g *egen) probe() *enode { g.nprobe++; return &enode{kind: "probe", k: g.nprobe} }

func (g *egen) seq(d int, inFunc, inTry bool) *enode {
	n := &enode{kind: "seq"}
	for i := 1 + g.r.Intn(3); i > 0; i-- {
		n.kids = append(n.kids, g.node(d, inFunc, inTry))
	}
	return n
}

func (g *egen) node(d int, inFunc, inTry bool) *enode {
	if d <= 0 {
		return g.probe()
	}
	switch g.r.Intn(14) {
	case 0, 1:
		return g.probe()
	case 2, 3, 4:
		n := &enode{kind: "try", hasF: g.r.Intn(2) == 0}
		if g.r.Intn(2) == 0 {
			n.v = "e"
		}
		n.kids = append(n.kids, g.seq(d-1, inFunc, true), g.seq(d-1, inFunc, inTry))
		if n.v != "" && g.r.Intn(2) == 0 {
			// the catch block reports the caught error's text
			n.kids[1].kids = append([]*enode{{kind: "catchProbe"}}, n.kids[1].kids...)
		}
		if n.v != "" && g.r.Intn(4) == 0 {
			// ... and throws the caught error again
			n.kids[1].kids = append(n.kids[1].kids, &enode{kind: "rethrow"})
		}
		if n.hasF {
			n.kids = append(n.kids, g.seq(d-1, inFunc, inTry))
		}
		return n
	case 5, 6:
		g.nprobe++
		return &enode{kind: "throw", k: g.nprobe}
	case 7:
		return &enode{kind: "rterr"}
	case 8, 9:
		return &enode{kind: "func", kids: []*enode{g.seq(d-1, true, false)}}
	case 10:
		g.nprobe++
		return &enode{kind: "deferProbe", k: g.nprobe}
	case 11:
		return &enode{kind: "deferFunc", kids: []*enode{g.seq(d-1, true, false)}}
	case 12:
		g.nprobe++
		g.nvar++
		return &enode{kind: "deferVar", k: g.nprobe, v: fmt.Sprintf("dv%d", g.nvar)}
	case 13:
		if inFunc && !inTry {
			return &enode{kind: "return", k: 100 + g.r.Intn(3)}
		}
	}
	return g.probe()
}

func (n *enode) render(b *strings.Builder) {
	switch n.kind {
	case "probe":
		fmt.Fprintf(b, "probe(%d)\n", n.k)
	case "catchProbe":
		b.WriteString("probe(e)\n")
	case "rethrow":
		b.WriteString("throw e\n")
	case "seq":
		for _, k := range n.kids {
			k.render(b)
		}
	case "try":
		b.WriteString("try {\n")
		n.kids[0].render(b)
		b.WriteString("} catch " + n.v)
		if n.v != "" {
			b.WriteString(" ")
		}
		b.WriteString("{\n")
		n.kids[1].render(b)
		b.WriteString("}")
		if n.hasF {
			b.WriteString(" finally {\n")
			n.kids[2].render(b)
			b.WriteString("}")
		}
		b.WriteString("\n")
	case "throw":
		fmt.Fprintf(b, "throw \"t%d\"\n", n.k)
	case "rterr":
		b.WriteString("1 % 0\n")
	case "func":
		b.WriteString("probe(func() {\n")
		n.kids[0].render(b)
		b.WriteString("}())\n")
	case "deferProbe":
		fmt.Fprintf(b, "defer probe(%d)\n", n.k)
	case "deferFunc":
		b.WriteString("defer func() {\n")
		n.kids[0].render(b)
		b.WriteString("}()\n")
	case "deferVar":
		// arguments are evaluated at the defer statement, not when the call runs
		fmt.Fprintf(b, "%s = %d\ndefer probe(%s)\n%s = -1\n", n.v, n.k, n.v, n.v)
	case "return":
		fmt.Fprintf(b, "return %d\n", n.k)
	}
}

// reference semantics ------------------------------------------------------

type eres struct {
	err    string // "" = none
	isErr  bool
	ret    bool
	retVal int
}

type frame struct {
	defers []func(tr *[]string) eres
}

func (n *enode) eval(tr *[]string, fr *frame, caught string) eres {
	switch n.kind {
	case "probe":
		*tr = append(*tr, vals.Encode(int64(n.k)))
	case "catchProbe":
		*tr = append(*tr, vals.Encode(fmt.Errorf("%s", caught)))
	case "seq":
		for _, k := range n.kids {
			if r := k.eval(tr, fr, caught); r.isErr || r.ret {
				return r
			}
		}
	case "throw":
		return eres{isErr: true, err: fmt.Sprintf("t%d", n.k)}
	case "rethrow":
		return eres{isErr: true, err: caught}
	case "rterr":
		return eres{isErr: true, err: "integer divide by zero"}
	case "try":
		r := n.kids[0].eval(tr, fr, caught)
		if r.ret {
			return r // never generated inside try
		}
		if r.isErr {
			r = n.kids[1].eval(tr, fr, r.err)
			if r.isErr || r.ret {
				return r // an error (or return) in catch skips finally
			}
		}
		if n.hasF {
			return n.kids[2].eval(tr, fr, caught)
		}
	case "func":
		r := invoke(n.kids[0], tr)
		if r.isErr {
			return r
		}
		if r.ret {
			*tr = append(*tr, vals.Encode(int64(r.retVal)))
		} else {
			*tr = append(*tr, "?")
		}
	case "deferProbe", "deferVar":
		k := n.k
		fr.defers = append(fr.defers, func(tr *[]string) eres {
			*tr = append(*tr, vals.Encode(int64(k)))
			return eres{}
		})
	case "deferFunc":
		body := n.kids[0]
		fr.defers = append(fr.defers, func(tr *[]string) eres { return invoke(body, tr) })
	case "return":
		return eres{ret: true, retVal: n.k}
	}
	return eres{}
}

// invoke runs body as one function invocation: own defer list, run LIFO once on every exit;
// a deferred call's error surfaces only if the body did not fail.
func invoke(body *enode, tr *[]string) eres {
	fr := &frame{}
	r := body.eval(tr, fr, "")
	for i := len(fr.defers) - 1; i >= 0; i-- {
		d := fr.defers[i](tr)
		if d.isErr && !r.isErr {
			r = eres{isErr: true, err: d.err}
		}
	}
	return r
}

// a caught error thrown again must abort like any other throw - also when what the try caught was
// a return / break / continue passing through it (finding #13 makes those reach the catch block)
var rethrowTemplates = []struct{ name, src string }{
	{"runtime-error", "func() {\ntry {\n1 % 0\n} catch e {\nprobe(\"c\")\nthrow e\n}\nprobe(\"after\")\n}()\nprobe(\"after\")"},
	{"thrown-string", "func() {\ntry {\nthrow \"s\"\n} catch e {\nprobe(\"c\")\nthrow e\n}\nprobe(\"after\")\n}()\nprobe(\"after\")"},
	{"nested-call-error", "func g() {\nundefinedName\n}\nfunc() {\ntry {\ng()\n} catch e {\nprobe(\"c\")\nthrow e\n}\nprobe(\"after\")\n}()\nprobe(\"after\")"},
	{"return", "func() {\ntry {\nreturn 1\n} catch e {\nprobe(\"c\")\nthrow e\n}\nprobe(\"after\")\n}()\nprobe(\"after\")"},
	{"break", "for i = 0; i < 2; i++ {\ntry {\nbreak\n} catch e {\nprobe(\"c\")\nthrow e\n}\nprobe(\"after\")\n}\nprobe(\"after\")"},
	{"continue", "for i = 0; i < 2; i++ {\ntry {\ncontinue\n} catch e {\nprobe(\"c\")\nthrow e\n}\nprobe(\"after\")\n}\nprobe(\"after\")"},
	{"empty-message", "try {\nthrow \"\"\nprobe(\"after\")\n} catch e {\nprobe(\"c\")\nthrow e\n}\nprobe(\"after\")"},
	{"empty-message-uncaught", "func() {\nthrow \"\"\nprobe(\"after\")\n}()\nprobe(\"after\")"},
	{"rethrow-in-finally-scope", "try {\ntry {\nthrow \"s\"\n} catch e {\nthrow e\n} finally {\nprobe(\"after\")\n}\n} catch e2 {\nprobe(e2)\n}"},
}

// deferred calls see their arguments as evaluated at the defer statement
var deferArgTemplates = []struct{ src, want string }{
	{"a = [1, 2]\nfunc() {\ndefer probe(a[0])\na[0] = 5\n}()", "(i 1)"},
	{"a = [1, 2]\nfunc() {\ndefer probe2(a[0], a[1])\na[0], a[1] = a[1], a[0]\n}()", "(i 1) (i 2)"},
	{"x = 1\nfunc() {\ndefer probe(x)\nx = 2\n}()", "(i 1)"},
	{"a = [1]\nfunc() {\ndefer func(v) { probe(v) }(a[0])\na[0] = 7\n}()", "(i 1)"},
	{"a = [[1]]\nfunc() {\ndefer probe(a[0])\na[0][0] = 9\n}()", "(l (i 9))"},
	// the callee is what the name is bound to when the defer statement runs - every time it runs
	{"func work(n) {\nfunc cleanup() { probe(n) }\ndefer cleanup()\n}\nwork(1)\nwork(2)", "(i 1) (i 2)"},
	{"h = func() { probe(\"a\") }\nfunc f() {\ndefer h()\n}\nf()\nh = func() { probe(\"b\") }\nf()", "(s 61) (s 62)"},
	{"func mk(k) { return func() { probe(k) } }\nfunc f() {\nfor i = 0; i < 3; i++ {\nhnd = mk(i)\ndefer hnd()\n}\n}\nf()", "(i 2) (i 1) (i 0)"},
	{"func f(g) {\ndefer g(5)\n}\nf(probe)\nf(func(v) { probe(v + 1) })\nf(probe)", "(i 5) (i 6) (i 5)"},
	// the callee of a defer may come from anywhere: a list element, a parameter that was given one, a Go identity function
	{"hs = [func() { probe(1) }, func() { probe(2) }]\nfunc f() {\ndefer hs[0]()\ndefer hs[1]()\n}\nf()", "(i 2) (i 1)"},
	{"hs = [func(v) { probe(v) }]\nfunc with(h) {\ndefer h(7)\nprobe(0)\n}\nwith(hs[0])", "(i 0) (i 7)"},
	{"hs = [[func() { probe(3) }]]\nfunc f() {\ndefer hs[0][0]()\ndefer id(hs[0][0])()\n}\nf()", "(i 3) (i 3)"},
	{"m = {\"h\": func() { probe(4) }}\nfunc f() {\ndefer m.h()\ndefer m[\"h\"]()\nfor h in [m.h] {\ndefer h()\n}\n}\nf()", "(i 4) (i 4) (i 4)"},
	// a deferred spread call passes the elements, as the same call does without defer
	{"func v(x...) { probe(len(x)) }\nfunc f() {\nxs = [1, 2, 3]\ndefer v(xs...)\n}\nf()", "(i 3)"},
	{"func v(a, x...) { probe([a, len(x)]) }\nfunc f() {\nxs = [1, 2]\ndefer v(0, xs...)\n}\nf()", "(l (i 0) (i 2))"},
	{"func f() {\nxs = [1, 2, 3]\ndefer vprobe(xs...)\nreturn 7\n}\nprobe(f())", "(i 1) (i 2) (i 3) (i 7)"},
	{"func f() {\nxs = [4, 5]\ndefer vtyped(xs...)\nreturn 7\n}\nprobe(f())", "(i 4) (i 5) (i 7)"},
	{"func f() {\ndefer vprobe(1, 2)\ndefer fv(0, [8, 9]...)\n}\nf()", "(i 0) (i 8) (i 9) (i 1) (i 2)"},
}

// deferred calls (and later stores) do not alter the result an invocation has already computed
var deferResultTemplates = []struct{ src, want string }{
	{"a = [1, 2]\nprobe(func() {\ndefer func() { a[0] = 9 }()\nreturn a[0]\n}())", "(i 1)"},
	{"x = 1\nprobe(func() {\ndefer func() { x = 2 }()\nreturn x\n}())", "(i 1)"},
	{"m = {\"k\": 1}\nprobe(func() {\ndefer func() { m.k = 9 }()\nreturn m.k\n}())", "(i 1)"},
	{"a = [1, 2]\nprobe(func() {\ndefer func() { a[0] = 9 }()\nreturn a[0], a[1]\n}())", "(l (i 1) (i 2))"},
	{"a = [1, 2]\nfunc f() {\nreturn a[0]\n}\nr = f()\na[0] = 9\nprobe(r)", "(i 1)"},
	{"a = [1, 2]\nfunc f() {\nreturn a[1]\n}\nl = [f()]\na[1] = 9\nprobe(l)", "(l (i 2))"},
	{"t = make([]int64, 2)\nt[0] = 1\nprobe(func() {\ndefer func() { t[0] = 9 }()\nreturn t[0]\n}())", "(i 1)"},
	{"a = [1, 2]\nprobe(func() {\ndefer func() { a[0] = 9 }()\nif true {\nreturn a[0]\n}\n}())", "(i 1)"},
	{"a = [1, 2]\nprobe(func() {\ndefer func() { a = [7, 8] }()\nreturn a\n}())", "(l (i 1) (i 2))"},
	// the implicit result (value of the last statement) is a value too
	{"a = [1, 2]\nprobe(func() {\ndefer func() { a[0] = 9 }()\na[0]\n}())", "(i 1)"},
	{"a = [1, 2]\nfunc f() {\ndefer func() { a[1] = 9 }()\na[1]\n}\nx = f()\nprobe(x)", "(i 2)"},
	{"t = make([]int64, 2)\nt[0] = 1\nprobe(func() {\ndefer func() { t[0] = 9 }()\nt[0]\n}())", "(i 1)"},
	{"s = make(struct {\nA int64\n})\ns.A = 1\nprobe(func() {\ndefer func() { s.A = 9 }()\ns.A\n}())", "(i 1)"},
	{"a = [1, 2]\nprobe(func() {\ndefer func() { a[0] = 9 }()\nif true {\na[0]\n}\n}())", "(i 1)"},
}

// errors raised while a host function calls a script function back reach the enclosing try (or the host);
// every invocation runs exactly its own deferred calls, also when the function is re-entered. wantErr "*" = any error.
var errorPathTemplates = []struct {
	src     string
	want    []string
	wantErr string
}{
	{"try {\neachcb([1, 2, 3], func(x) {\nprobe(x)\nif x == 2 {\nthrow \"boom\"\n}\nprobe(10 + x)\n})\nprobe(\"after-each\")\n} catch e {\nprobe(\"caught\")\n} finally {\nprobe(\"finally\")\n}",
		[]string{"(i 1)", "(i 11)", "(i 2)", vals.Encode("caught"), vals.Encode("finally")}, ""},
	{"callcb0(func() {\nthrow \"boom\"\n})\nprobe(\"after\")", []string{}, "*"},
	// a host function failing with an error value of an unhashable type, inside every loop form, under try / finally and a pending deferred call
	{"func run() {\ndefer probe(\"deferred\")\ntry {\nfor i = 0; i < 2; i++ {\nprobe(\"round\")\npanicwithsliceerr()\n}\n} catch e {\nprobe(\"caught\")\n} finally {\nprobe(\"finally\")\n}\nprobe(\"after\")\n}\nrun()",
		[]string{vals.Encode("round"), vals.Encode("caught"), vals.Encode("finally"), vals.Encode("after"), vals.Encode("deferred")}, ""},
	{"try {\nfor x in [1, 2] {\npanicwithsliceerr()\n}\n} catch e {\nprobe(\"caught-slice-loop\")\n}\ntry {\nfor {\npanicwithsliceerr()\n}\n} catch e {\nprobe(\"caught-forever\")\n}\ntry {\nfor k, v in {\"a\": 1} {\npanicwithsliceerr()\n}\n} catch e {\nprobe(\"caught-map-loop\")\n}",
		[]string{vals.Encode("caught-slice-loop"), vals.Encode("caught-forever"), vals.Encode("caught-map-loop")}, ""},
	{"for i = 0; i < 3; i++ {\nprobe(i)\npanicwithsliceerr()\n}\nprobe(\"after\")", []string{"(i 0)"}, "*"},
	{"callcb0(func() {\nprobe(1)\nnosuch()\nprobe(2)\n})\nprobe(\"after\")", []string{"(i 1)"}, "*"},
	{"try {\ncallcb0(func() {\nx = [1][5]\n})\nprobe(\"after\")\n} catch e {\nprobe(\"caught\")\n}", []string{vals.Encode("caught")}, ""},
	{"try {\nprobe(cbv(func(v) {\nthrow \"in-cbv\"\n}, 1))\n} catch e {\nprobe(\"caught\")\n}", []string{vals.Encode("caught")}, ""},
	{"func run() {\neachcb([1, 2], func(x) {\nif x == 1 {\nthrow \"first\"\n}\nprobe(x)\n})\nreturn \"completed\"\n}\nprobe(run())", []string{}, "*"},
	// a host function that panics is a failing call whatever it panics with - an empty text, a defined string type, nil-like values
	// a deferred host call that RETURNS an error value raises nothing: the invocation keeps its result
	{"func f() {\ndefer reterr()\nreturn 1\n}\nprobe(f())", []string{vals.Encode("reterr"), vals.Encode(int64(1))}, ""},
	{"func f() {\ndefer reterr2()\ndefer reterr()\nreturn \"kept\"\n}\ntry {\nprobe(f())\n} catch e {\nprobe(\"caught\")\n}", []string{vals.Encode("reterr"), vals.Encode("reterr2"), vals.Encode("kept")}, ""},
	{"defer reterr()\nprobe(\"body\")", []string{vals.Encode("body"), vals.Encode("reterr")}, ""},
	{"x = reterr()\nprobe(x != nil)\na, b = reterr2()\nprobe(a)", []string{vals.Encode("reterr"), vals.Encode(true), vals.Encode("reterr2"), vals.Encode(int64(3))}, ""},
	{"panicwith(\"\")\nprobe(\"after\")", []string{}, "*"},
	{"try {\npanicwith(\"\")\nprobe(\"after\")\n} catch e {\nprobe(\"caught\")\n}", []string{vals.Encode("caught")}, ""},
	{"func f() {\ndefer probe(\"deferred\")\npanicwith(\"\")\nprobe(\"after\")\n}\ntry {\nf()\nprobe(\"after-call\")\n} catch e {\nprobe(\"caught\")\n}", []string{vals.Encode("deferred"), vals.Encode("caught")}, ""},
	{"func f() {\ndefer panicwith(\"\")\nreturn 1\n}\ntry {\nf()\nprobe(\"after-call\")\n} catch e {\nprobe(\"caught\")\n}", []string{vals.Encode("caught")}, ""},
	{"x = (panicwith(\"\") ?? \"dflt\")\nprobe(x)", []string{vals.Encode("dflt")}, ""},
	{"try {\npanicwith(0)\nprobe(\"after\")\n} catch e {\nprobe(\"caught\")\n}", []string{vals.Encode("caught")}, ""},
	{"try {\npanicwith(\"msg\")\nprobe(\"after\")\n} catch e {\nprobe(\"caught\")\n}", []string{vals.Encode("caught")}, ""},
	{"try {\neachcb([1], func(x) {\npanicwith(\"\")\n})\nprobe(\"after\")\n} catch e {\nprobe(\"caught\")\n}", []string{vals.Encode("caught")}, ""},
	// an error is an error whatever its Go type: a host function failing with context.DeadlineExceeded / Canceled (while the run's own
	// context is alive) is caught by the nearest try like any other
	{"try {\npanicctx(\"deadline\")\nprobe(\"after\")\n} catch e {\nprobe(\"caught\")\n} finally {\nprobe(\"finally\")\n}\nprobe(\"on\")", []string{vals.Encode("caught"), vals.Encode("finally"), vals.Encode("on")}, ""},
	{"try {\npanicctx(\"canceled\")\n} catch e {\nprobe(\"caught\")\n}", []string{vals.Encode("caught")}, ""},
	{"func f() {\nfor i = 0; i < 2; i++ {\ntry {\npanicctx(\"wrapped\")\n} catch e {\nprobe(i)\n}\n}\n}\nf()", []string{"(i 0)", "(i 1)"}, ""},
	{"x = (panicctx(\"deadline\") ?? \"dflt\")\nprobe(x)", []string{vals.Encode("dflt")}, ""},
	// an error raised by the LOW bound of a slice expression / slice assignment is not lost behind the high bound
	{"a = [1, 2, 3]\nhi = 2\nfunc low() {\nthrow \"low\"\n}\ntry {\nx = a[low():hi]\nprobe(\"after\")\n} catch e {\nprobe(\"caught\")\n}", []string{vals.Encode("caught")}, ""},
	{"a = [1, 2, 3]\nhi = 2\ntry {\nx = a[nosuch:hi]\nprobe(\"after\")\n} catch e {\nprobe(\"caught\")\n}", []string{vals.Encode("caught")}, ""},
	{"a = [1, 2, 3]\nhi = 2\nfunc low() {\nthrow \"low\"\n}\ntry {\na[low():hi] = [9]\nprobe(\"after\")\n} catch e {\nprobe(\"caught\")\n}\nprobe(a)", []string{vals.Encode("caught"), vals.Encode([]interface{}{int64(1), int64(2), int64(3)})}, ""},
	{"a = [1, 2, 3]\nhi = 2\nx = a[nosuch():id(hi)]\nprobe(\"after\")", []string{}, "*"},
	{"s = \"abcdef\"\nhi = 4\ntry {\nx = s[1 / nosuch:hi]\nprobe(\"after\")\n} catch e {\nprobe(\"caught\")\n}", []string{vals.Encode("caught")}, ""},
	{"a = [1, 2, 3]\nlo = 0\ntry {\nx = a[lo:nosuch]\nprobe(\"after\")\n} catch e {\nprobe(\"caught\")\n}", []string{vals.Encode("caught")}, ""},
	{"func walk(n) {\ndefer probe(100 + n)\nif n > 0 {\nwalk(n - 1)\n}\n}\nwalk(2)\nwalk(2)", []string{"(i 100)", "(i 101)", "(i 102)", "(i 100)", "(i 101)", "(i 102)"}, ""},
	{"func tr(p) {\ndefer probe(\"close-\" + p)\nif len(p) < 2 {\ntr(p + \"l\")\ntr(p + \"r\")\n}\n}\ntr(\"t\")", []string{vals.Encode("close-tl"), vals.Encode("close-tr"), vals.Encode("close-t")}, ""},
	{"func rel(n) {\ndefer probe(200 + n)\nif n == 0 {\nthrow \"bottom\"\n}\nrel(n - 1)\n}\ntry {\nrel(2)\n} catch e {\n}\ntry {\nrel(2)\n} catch e {\n}", []string{"(i 200)", "(i 201)", "(i 202)", "(i 200)", "(i 201)", "(i 202)"}, ""},
	{"f = func(n) {\ndefer probe(n)\ndefer probe(n * 10)\nif n < 3 {\nf(n + 1)\n}\n}\nf(1)\nf(2)", []string{"(i 30)", "(i 3)", "(i 20)", "(i 2)", "(i 10)", "(i 1)", "(i 30)", "(i 3)", "(i 20)", "(i 2)"}, ""},
}

func streamErrors(o *Out, r *rand.Rand, n int, thorough bool) {
	for _, c := range errorPathTemplates {
		stmt, err := parser.ParseSrc(c.src)
		if err != nil {
			o.Fail(Failure{Oracle: "errors-template-parses", Key: "errors-template-parse", Input: c.src, Detail: err.Error()})
			continue
		}
		res := runVM(stmt, -1, 3*time.Second)
		if strings.Contains(c.src, "eachcb") || strings.Contains(c.src, "callcb0") || strings.Contains(c.src, "cbv") || strings.Contains(c.src, "panicwith") || strings.Contains(c.src, "panicctx") || strings.Contains(c.src, "reterr") {
			o.Sum.Evaluations++ // host callbacks are not part of the model: implementation-side oracle only
		} else {
			o.Case(fmt.Sprintf("(run %d _ %s)", modelFuel, astser.Prog(stmt)), res.line, c.src, true)
		}
		o.Sum.Hist["error-path-template"]++
		gotErr := ""
		if res.err != nil {
			gotErr = res.err.Error()
		}
		if res.hung || res.panicked || strings.Join(res.trace, " ") != strings.Join(c.want, " ") || (c.wantErr == "") != (res.err == nil) {
			o.Fail(Failure{Oracle: "error-paths", Key: "error-path:" + firstLine(c.src), Input: c.src,
				Detail: fmt.Sprintf("expected trace %v and error %q; got trace %v and error %q (panicked=%v)", c.want, c.wantErr, res.trace, gotErr, res.panicked)})
		}
	}
	// deferred HOST calls still run - once, last registered first - when the invocation ends by an interruption: cancel at
	// every poll of a program whose invocations have registered their deferred calls and then spin
	for _, src := range []string{
		"func f() {\ndefer probe(\"release B\")\ndefer probe(\"release A\")\nfor {\n}\n}\ndefer probe(\"release TOP\")\nf()",
		"func g() {\ndefer probe(1)\nfunc() {\ndefer probe(2)\nfor {\n}\n}()\n}\ng()",
	} {
		stmt, err := parser.ParseSrc(src)
		if err != nil {
			o.Fail(Failure{Oracle: "errors-template-parses", Key: "errors-template-parse", Input: src, Detail: err.Error()})
			continue
		}
		for k := 12; k <= 24; k += 3 {
			res := runVM(stmt, k, 4*time.Second)
			o.Case(fmt.Sprintf("(run %d %d %s)", modelFuel, k, astser.Prog(stmt)), res.line, fmt.Sprintf("[cancel at poll %d] %s", k, src), true)
			o.Sum.Hist["defer-on-interrupt"]++
			want := 3
			if strings.Contains(src, "func g") {
				want = 2
			}
			if res.hung || res.panicked || res.err == nil || len(res.trace) != want {
				o.Fail(Failure{Oracle: "defers-run-on-every-exit", Key: "defer-skipped-on-interrupt", Input: fmt.Sprintf("[cancel at poll %d] %s", k, src),
					Detail: fmt.Sprintf("expected the %d deferred host calls to run and the interruption to be reported; trace %v, error %v", want, res.trace, res.err)})
			}
		}
	}
	for _, t := range deferResultTemplates {
		stmt, err := parser.ParseSrc(t.src)
		if err != nil {
			o.Fail(Failure{Oracle: "errors-template-parses", Key: "errors-template-parse", Input: t.src, Detail: err.Error()})
			continue
		}
		res := runVM(stmt, -1, 3*time.Second)
		o.Case(fmt.Sprintf("(run %d _ %s)", modelFuel, astser.Prog(stmt)), res.line, t.src, true)
		o.Sum.Hist["defer-result-template"]++
		if res.err != nil || strings.Join(res.trace, " ") != t.want {
			o.Fail(Failure{Oracle: "defer-leaves-result", Key: "defer-alters-result", Input: t.src, Detail: fmt.Sprintf("the invocation's result is %v (err %v), expected %s", res.trace, res.err, t.want)})
		}
	}
	// a callee's stray break / continue is an error of the call (shared with the control stream)
	for _, c := range boundaryTemplates {
		stmt, err := parser.ParseSrc(c.src)
		if err != nil {
			continue
		}
		res := runVM(stmt, -1, 3*time.Second)
		o.Sum.Evaluations++
		o.Sum.Hist["boundary-template"]++
		gotErr := ""
		if res.err != nil {
			gotErr = res.err.Error()
		}
		if res.hung || res.panicked || strings.Join(res.trace, " ") != strings.Join(c.want, " ") || (c.wantErr == "") != (gotErr == "") || !strings.Contains(gotErr, c.wantErr) {
			o.Fail(Failure{Oracle: "runtime-error-surfaces", Key: "error-boundary:" + firstLine(c.src), Input: c.src,
				Detail: fmt.Sprintf("expected trace %v and error %q; got trace %v and error %q", c.want, c.wantErr, res.trace, gotErr)})
		}
	}
	for _, t := range deferArgTemplates {
		stmt, err := parser.ParseSrc(t.src)
		if err != nil {
			o.Fail(Failure{Oracle: "errors-template-parses", Key: "errors-template-parse", Input: t.src, Detail: err.Error()})
			continue
		}
		res := runVM(stmt, -1, 3*time.Second)
		o.Case(fmt.Sprintf("(run %d _ %s)", modelFuel, astser.Prog(stmt)), res.line, t.src, true)
		if res.err != nil || strings.Join(res.trace, " ") != t.want {
			o.Fail(Failure{Oracle: "defer-arguments-at-defer-time", Key: "defer-args", Input: t.src, Detail: fmt.Sprintf("deferred call saw %v (err %v), expected %s", res.trace, res.err, t.want)})
		}
	}
	for _, t := range rethrowTemplates {
		stmt, err := parser.ParseSrc(t.src)
		if err != nil {
			o.Fail(Failure{Oracle: "errors-template-parses", Key: "errors-template-parse", Input: t.src, Detail: err.Error()})
			continue
		}
		res := runVM(stmt, -1, 3*time.Second)
		o.Case(fmt.Sprintf("(run %d _ %s)", modelFuel, astser.Prog(stmt)), res.line, t.src, true)
		o.Sum.Hist["rethrow-template"]++
		if res.hung || res.panicked {
			o.Fail(Failure{Oracle: "no-panic", Key: "errors-panic", Input: t.src, Detail: fmt.Sprint(res.panicVal, res.hung)})
			continue
		}
		reachedCatch := false
		for _, x := range res.trace {
			if x == vals.Encode("c") {
				reachedCatch = true
			}
			if x == vals.Encode("after") {
				o.Fail(Failure{Oracle: "throw-aborts", Key: "rethrow-does-not-abort:" + t.name, Input: t.src, Detail: fmt.Sprintf("statements after a `throw e` in a catch block ran: trace %v, error %v", res.trace, res.err)})
				break
			}
		}
		if t.name == "empty-message-uncaught" && res.err == nil {
			o.Fail(Failure{Oracle: "throw-aborts", Key: "rethrow-lost:" + t.name, Input: t.src, Detail: "throw \"\" was not reported to the host"})
		}
		if reachedCatch && res.err == nil {
			o.Fail(Failure{Oracle: "throw-aborts", Key: "rethrow-lost:" + t.name, Input: t.src, Detail: fmt.Sprintf("the catch block threw its error again but the host got no error (trace %v)", res.trace)})
		}
	}
	o.Sum.Rule = "programs nesting try/catch/finally (depth <= 4), throw and runtime errors at every position, functions with 0..n defer statements " +
		"(probe calls, function literals, argument captured from a variable that changes afterwards), returns; expected probe trace and final error computed by an " +
		"independent reference evaluator in the harness; non-trivial = contains try or defer; distinct by request hash"
	for i := 0; i < n; i++ {
		g := &egen{r: r}
		root := g.seq(1+r.Intn(4), false, false)
		var b strings.Builder
		root.render(&b)
		src := b.String()
		stmt, err := parser.ParseSrc(src)
		if err != nil {
			o.Fail(Failure{Oracle: "errors-template-parses", Key: "errors-template-parse", Input: src, Detail: err.Error()})
			continue
		}
		var want []string
		wantRes := invoke(root, &want) // the top level behaves like an invocation (top-level defers)
		res := runVM(stmt, -1, 3*time.Second)
		o.Case(fmt.Sprintf("(run %d _ %s)", modelFuel, astser.Prog(stmt)), res.line, src, strings.Contains(src, "try") || strings.Contains(src, "defer"))
		switch {
		case wantRes.isErr:
			o.Sum.Hist["expected:error"]++
		default:
			o.Sum.Hist["expected:ok"]++
		}
		if res.hung || res.panicked {
			o.Fail(Failure{Oracle: "no-panic", Key: "errors-panic", Input: src, Detail: fmt.Sprint(res.panicVal, res.hung)})
			continue
		}
		ok := len(want) == len(res.trace)
		if ok {
			for j := range want {
				if want[j] != "?" && want[j] != res.trace[j] {
					ok = false
				}
			}
		}
		if !ok {
			o.Fail(Failure{Oracle: "errors-reference-trace", Key: "errors-trace", Input: src, Detail: fmt.Sprintf("reference evaluator expects probe trace %v, interpreter produced %v", want, res.trace)})
			continue
		}
		if wantRes.isErr != (res.err != nil) || (wantRes.isErr && res.err.Error() != wantRes.err) {
			o.Fail(Failure{Oracle: "errors-reference-status", Key: "errors-status", Input: src, Detail: fmt.Sprintf("reference evaluator expects error %q (%v), interpreter returned %v", wantRes.err, wantRes.isErr, res.err)})
		}
	}
}
