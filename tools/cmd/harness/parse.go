package main

import (
	"fmt"
	"math"
	"math/rand"
	"reflect"
	"strconv"
	"strings"

	"github.com/mattn/anko/ast"
	"github.com/mattn/anko/env"
	"github.com/mattn/anko/parser"

	"veriftools/internal/astser"
	"veriftools/internal/vals"
)

func init() { streams["parse"] = streamParse }

// expression trees for the precedence stream
type pnode struct {
	kind string // atom, bin, un, tern, call, index, member, slice
	op   string
	k    int
	kids []*pnode
	lit  string      // atom spelled as a literal (string / number / true / nil) instead of an identifier
	litv interface{} // its value
}

// binding powers as stated by the property (loosest to tightest); the real parser and the Lean
// table (regenerated from parser.go.y) are both compared against the printer built on them.
var plevel = map[string]int{
	"??": 4, "||": 5, "&&": 6, "==": 7, "!=": 7, "<": 7, "<=": 7, ">": 7, ">=": 7,
	"+": 8, "-": 8, "|": 8, "*": 9, "/": 9, "%": 9, "<<": 9, ">>": 9, "&": 9, "in": 10,
}
var pright = map[string]bool{"??": true, "in": true}

const (
	levTernary = 4
	levUnary   = 12
	levPostfix = 14
)

func lbp(o string) int { return 2 * plevel[o] }
func rbp(o string) int {
	if pright[o] {
		return 2 * plevel[o]
	}
	return 2*plevel[o] + 1
}
func lctx(o string) int {
	if rbp(o) == lbp(o) {
		return lbp(o) + 1
	}
	return lbp(o)
}

var pbinops = []string{"??", "||", "&&", "==", "!=", "<", "<=", ">", ">=", "+", "-", "|", "*", "/", "%", "<<", ">>", "&", "in"}

// printMin inserts exactly the parentheses the table requires; c = context level.
func (n *pnode) printMin(c int) string {
	wrap := func(s string, own int) string {
		if own >= c {
			return s
		}
		return "(" + s + ")"
	}
	switch n.kind {
	case "atom":
		if n.lit != "" {
			return n.lit
		}
		return fmt.Sprintf("v%d", n.k)
	case "bin":
		return wrap(n.kids[0].printMin(lctx(n.op))+" "+n.op+" "+n.kids[1].printMin(rbp(n.op)), lbp(n.op))
	case "un":
		// a unary operator binds tighter than every binary operator; its operand is a unary-level expression
		return wrap(n.op+n.kids[0].printMin(2*levUnary), 2*levUnary)
	case "tern":
		// right-associative, same level as ??; condition one level up
		return wrap(n.kids[0].printMin(2*levTernary+1)+" ? "+n.kids[1].printMin(2*levTernary)+" : "+n.kids[2].printMin(2*levTernary), 2*levTernary)
	case "call":
		return n.kids[0].printMin(2*levPostfix) + "(" + n.kids[1].printMin(0) + ")"
	case "index":
		return n.kids[0].printMin(2*levPostfix) + "[" + n.kids[1].printMin(0) + "]"
	case "member":
		if k := n.kids[0]; k.kind == "atom" && k.lit != "" && k.lit[0] >= '0' && k.lit[0] <= '9' {
			return "(" + k.lit + ").f" // `2.f` would be read as the number `2.`
		}
		return n.kids[0].printMin(2*levPostfix) + ".f"
	case "slice":
		return n.kids[0].printMin(2*levPostfix) + "[" + n.kids[1].printMin(0) + ":" + n.kids[2].printMin(0) + "]"
	case "slicex":
		return n.kids[0].printMin(2*levPostfix) + "[" + n.slicexParts(func(k *pnode) string { return k.printMin(0) }) + "]"
	}
	return "?"
}

// slicexParts spells the inside of the brackets for the shapes "b:", ":e", "b:e:c", ":e:c" (n.op)
func (n *pnode) slicexParts(pr func(*pnode) string) string {
	switch n.op {
	case "b:":
		return pr(n.kids[1]) + ":"
	case ":e":
		return ":" + pr(n.kids[1])
	case "b:e:c":
		return pr(n.kids[1]) + ":" + pr(n.kids[2]) + ":" + pr(n.kids[3])
	case ":e:c":
		return ":" + pr(n.kids[1]) + ":" + pr(n.kids[2])
	}
	return "?"
}

// printFull makes every implied parenthesis explicit.
func (n *pnode) printFull() string {
	switch n.kind {
	case "atom":
		if n.lit != "" {
			return n.lit
		}
		return fmt.Sprintf("v%d", n.k)
	case "bin":
		return "(" + n.kids[0].printFull() + " " + n.op + " " + n.kids[1].printFull() + ")"
	case "un":
		return "(" + n.op + n.kids[0].printFull() + ")"
	case "tern":
		return "(" + n.kids[0].printFull() + " ? " + n.kids[1].printFull() + " : " + n.kids[2].printFull() + ")"
	case "call":
		return "(" + n.kids[0].printFull() + "(" + n.kids[1].printFull() + "))"
	case "index":
		return "(" + n.kids[0].printFull() + "[" + n.kids[1].printFull() + "])"
	case "member":
		if k := n.kids[0]; k.kind == "atom" && k.lit != "" && k.lit[0] >= '0' && k.lit[0] <= '9' {
			return "((" + k.lit + ").f)"
		}
		return "(" + n.kids[0].printFull() + ".f)"
	case "slice":
		return "(" + n.kids[0].printFull() + "[" + n.kids[1].printFull() + ":" + n.kids[2].printFull() + "])"
	case "slicex":
		return "(" + n.kids[0].printFull() + "[" + n.slicexParts(func(k *pnode) string { return k.printFull() }) + "])"
	}
	return "?"
}

// want renders the intended tree in the serialiser's syntax (so it can be compared with the parsed one).
func (n *pnode) want() string {
	switch n.kind {
	case "atom":
		if n.lit != "" {
			return "(lit " + vals.Encode(n.litv) + ")"
		}
		return fmt.Sprintf("(id v%d)", n.k)
	case "bin":
		switch n.op {
		case "??":
			return "(nilco " + n.kids[0].want() + " " + n.kids[1].want() + ")"
		case "in":
			return "(in " + n.kids[0].want() + " " + n.kids[1].want() + ")"
		}
		return "(op " + n.op + " " + n.kids[0].want() + " " + n.kids[1].want() + ")"
	case "un":
		switch n.op {
		case "&":
			return "(unsup AddrExpr)"
		case "*":
			return "(unsup DerefExpr)"
		}
		return "(un " + n.op + " " + n.kids[0].want() + ")"
	case "tern":
		return "(tern " + n.kids[0].want() + " " + n.kids[1].want() + " " + n.kids[2].want() + ")"
	case "call":
		return "(acall " + n.kids[0].want() + " 0 0 " + n.kids[1].want() + ")"
	case "index":
		return "(item " + n.kids[0].want() + " " + n.kids[1].want() + ")"
	case "member":
		return "(member " + n.kids[0].want() + " f)"
	case "slice":
		return "(slice " + n.kids[0].want() + " " + n.kids[1].want() + " " + n.kids[2].want() + " _)"
	case "slicex":
		switch n.op {
		case "b:":
			return "(slice " + n.kids[0].want() + " " + n.kids[1].want() + " _ _)"
		case ":e":
			return "(slice " + n.kids[0].want() + " _ " + n.kids[1].want() + " _)"
		case "b:e:c":
			return "(slice " + n.kids[0].want() + " " + n.kids[1].want() + " " + n.kids[2].want() + " " + n.kids[3].want() + ")"
		case ":e:c":
			return "(slice " + n.kids[0].want() + " _ " + n.kids[1].want() + " " + n.kids[2].want() + ")"
		}
	}
	return "?"
}

// sexp for the Lean printer
func (n *pnode) leanTree() (string, bool) {
	kids := make([]string, len(n.kids))
	for i, k := range n.kids {
		s, ok := k.leanTree()
		if !ok {
			return "", false
		}
		kids[i] = s
	}
	switch n.kind {
	case "atom":
		if n.lit != "" {
			return "", false // literal atoms are outside the Lean printer's token alphabet
		}
		return fmt.Sprintf("(a %d)", n.k), true
	case "bin":
		return "(b " + n.op + " " + kids[0] + " " + kids[1] + ")", true
	case "un":
		return "(u " + n.op + " " + kids[0] + ")", true
	case "tern":
		return "(t " + kids[0] + " " + kids[1] + " " + kids[2] + ")", true
	case "call":
		return "(call " + kids[0] + " " + kids[1] + ")", true
	case "index":
		return "(idx " + kids[0] + " " + kids[1] + ")", true
	case "slice":
		return "(sl " + kids[0] + " " + kids[1] + " " + kids[2] + ")", true
	case "member":
		return "(mem " + kids[0] + ")", true
	}
	return "", false
}

// toks is printMin as a token list (the form the Lean printer produces)
func (n *pnode) toks(c int) []string {
	wrap := func(t []string, own int) []string {
		if own >= c {
			return t
		}
		return append(append([]string{"("}, t...), ")")
	}
	cat := func(parts ...[]string) []string {
		var out []string
		for _, p := range parts {
			out = append(out, p...)
		}
		return out
	}
	switch n.kind {
	case "atom":
		return []string{fmt.Sprintf("v%d", n.k)}
	case "bin":
		return wrap(cat(n.kids[0].toks(lctx(n.op)), []string{n.op}, n.kids[1].toks(rbp(n.op))), lbp(n.op))
	case "un":
		return wrap(cat([]string{n.op}, n.kids[0].toks(2*levUnary)), 2*levUnary)
	case "tern":
		return wrap(cat(n.kids[0].toks(2*levTernary+1), []string{"?"}, n.kids[1].toks(2*levTernary), []string{":"}, n.kids[2].toks(2*levTernary)), 2*levTernary)
	case "call":
		return cat(n.kids[0].toks(2*levPostfix), []string{"("}, n.kids[1].toks(0), []string{")"})
	case "index":
		return cat(n.kids[0].toks(2*levPostfix), []string{"["}, n.kids[1].toks(0), []string{"]"})
	case "member":
		return cat(n.kids[0].toks(2*levPostfix), []string{".f"})
	case "slice":
		return cat(n.kids[0].toks(2*levPostfix), []string{"["}, n.kids[1].toks(0), []string{":"}, n.kids[2].toks(0), []string{"]"})
	}
	return []string{"?"}
}

func (n *pnode) tokens(c int) string { return strings.Join(n.toks(c), " ") }

type pgen struct {
	lits bool
	r    *rand.Rand
	n    int
}

func (g *pgen) atom() *pnode {
	g.n++
	if g.lits && g.r.Intn(3) == 0 {
		// literal operands: a parser that folds or rewrites constant sub-expressions is seen here
		lits := []struct {
			s string
			v interface{}
		}{{"\"a\"", "a"}, {"\"b\"", "b"}, {"\"\"", ""}, {"'c'", "c"}, {"1", int64(1)}, {"2", int64(2)}, {"0", int64(0)}, {"1.5", 1.5}, {"true", true}, {"false", false}, {"nil", nil}, {"`r`", "r"}}
		l := lits[g.r.Intn(len(lits))]
		return &pnode{kind: "atom", k: g.n, lit: l.s, litv: l.v}
	}
	return &pnode{kind: "atom", k: g.n}
}

func (g *pgen) tree(d int, binOnly bool) *pnode {
	if d <= 0 {
		return g.atom()
	}
	if binOnly {
		if g.r.Intn(5) == 0 {
			return g.atom()
		}
		return &pnode{kind: "bin", op: pbinops[g.r.Intn(len(pbinops))], kids: []*pnode{g.tree(d-1, true), g.tree(d-1, true)}}
	}
	switch g.r.Intn(14) {
	case 12, 13:
		// the other slice shapes, on an identifier (its own production) or on any other base
		op := []string{"b:", ":e", "b:e:c", ":e:c"}[g.r.Intn(4)]
		base := g.postfixBase(d - 1)
		if g.r.Intn(3) == 0 {
			base = g.atom()
		}
		kids := []*pnode{base}
		for i := 0; i < strings.Count(op, "b")+strings.Count(op, "e")+strings.Count(op, "c"); i++ {
			kids = append(kids, g.tree(d-1, false))
		}
		return &pnode{kind: "slicex", op: op, kids: kids}
	case 0:
		return g.atom()
	case 1, 2, 3, 4, 5:
		return &pnode{kind: "bin", op: pbinops[g.r.Intn(len(pbinops))], kids: []*pnode{g.tree(d-1, false), g.tree(d-1, false)}}
	case 6:
		op := []string{"-", "!", "^"}[g.r.Intn(3)]
		k := g.tree(d-1, false)
		if op == "-" && k.kind == "un" && k.op == "-" {
			op = "!" // "--" would lex as the decrement token
		}
		return &pnode{kind: "un", op: op, kids: []*pnode{k}}
	case 7:
		return &pnode{kind: "tern", kids: []*pnode{g.tree(d-1, false), g.tree(d-1, false), g.tree(d-1, false)}}
	case 8:
		return &pnode{kind: "call", kids: []*pnode{g.postfixBase(d - 1), g.tree(d-1, false)}}
	case 9:
		return &pnode{kind: "index", kids: []*pnode{g.postfixBase(d - 1), g.tree(d-1, false)}}
	case 10:
		return &pnode{kind: "member", kids: []*pnode{g.postfixBase(d - 1)}}
	case 11:
		return &pnode{kind: "slice", kids: []*pnode{g.postfixBase(d - 1), g.tree(d-1, false), g.tree(d-1, false)}}
	}
	return g.atom()
}

// postfixBase: an identifier followed by `(` would be a named call, so the callee of a generated
// call is never a bare atom
func (g *pgen) postfixBase(d int) *pnode {
	t := g.tree(d, false)
	if t.kind == "atom" {
		return &pnode{kind: "member", kids: []*pnode{t}}
	}
	return t
}

func exprOf(stmt ast.Stmt) (string, bool) {
	ss, ok := stmt.(*ast.StmtsStmt)
	if !ok || len(ss.Stmts) != 1 {
		return "", false
	}
	s := astser.ProgNoParens(ss.Stmts[0])
	// (expr E) / (lets (x) (E))
	return s, true
}

func streamParse(o *Out, r *rand.Rand, n int, thorough bool) {
	o.Sum.Rule = "expression trees over all binary operators, ?? , in, unary - ! ^, ?:, and postfix call/index/member/slice (depth <= 5), spelled with minimal and with full " +
		"parentheses, in expression-statement, assignment, return, if-condition and argument positions; the real parser must rebuild exactly the intended tree from both " +
		"spellings; binary-operator trees are also printed by the Lean printer (token-for-token comparison); integer / float / string literals against strconv; distinct by request hash"
	positions := []struct{ pre, post, wpre, wpost string }{
		{"", "", "(expr ", ")"},
		{"x = ", "", "(lets ((id x)) (", "))"},
		{"return ", "", "(ret ", ")"},
		{"if ", " { }", "(if ", " _ () _)"},
		{"f(", ")", "(expr (call f 0 0 ", "))"},
		{"[", "]", "(expr (arr ", "))"},
		{"throw ", "", "(throw ", ")"},
	}
	for _, c := range [][2]string{{"1 + 2 + \"a\"", "((1 + 2) + \"a\")"}, {"a + b + \" items\"", "((a + b) + \" items\")"}, {"1 + 2 + 3 + \"x\" + 4 + 5", "(((((1 + 2) + 3) + \"x\") + 4) + 5)"},
		{"1.5 + 2 + \"s\"", "((1.5 + 2) + \"s\")"}, {"true + 1 + \"t\"", "((true + 1) + \"t\")"}, {"1 - 2 - 3", "((1 - 2) - 3)"}, {"2 * 3 + 4 * 5", "((2 * 3) + (4 * 5))"},
		{"a + b + c + \"\"", "(((a + b) + c) + \"\")"}, {"\"n=\" + a + b", "((\"n=\" + a) + b)"}, {"8 / 2 / 2", "((8 / 2) / 2)"}, {"1 < 2 == true", "((1 < 2) == true)"}, {"1 + 2 << 1", "(1 + (2 << 1))"}} {
		run := func(src string) string {
			e := env.NewEnv()
			_ = e.Define("a", int64(1))
			_ = e.Define("b", int64(2))
			_ = e.Define("c", int64(3))
			v, err, pv := execGuard(e, src)
			return fmt.Sprintf("%#v / error %v / panic %v", v, err != nil, pv)
		}
		o.Sum.Evaluations++
		if x, y := run(c[0]), run(c[1]); x != y {
			o.Fail(Failure{Oracle: "tree-as-spelled", Key: "spellings-evaluate-differently", Input: c[0] + "   vs   " + c[1], Detail: fmt.Sprintf("as written: %s; parenthesised: %s (a = 1, b = 2, c = 3)", x, y)})
		}
	}
	for i := 0; i < n; i++ {
		g := &pgen{r: r, lits: i%2 == 1}
		binOnly := i%3 == 0
		t := g.tree(1+r.Intn(5), binOnly)
		// `-` directly in front of a number is the grammar's negative literal, not a unary operator node (covered by the literal checks)
		var noNeg func(n *pnode)
		noNeg = func(n *pnode) {
			if n.kind == "un" && n.op == "-" && len(n.kids) == 1 {
				// the leftmost leaf of the operand (through postfix forms): `-1.5[i]` is read as `(-1.5)[i]`
				k := n.kids[0]
				for k.kind == "call" || k.kind == "index" || k.kind == "member" || k.kind == "slice" || k.kind == "slicex" {
					k = k.kids[0]
				}
				if k.kind == "atom" && k.lit != "" && k.lit[0] >= '0' && k.lit[0] <= '9' {
					k.lit, k.litv = "", nil
				}
			}
			for _, k := range n.kids {
				noNeg(k)
			}
		}
		noNeg(t)
		pos := positions[r.Intn(len(positions))]
		want := pos.wpre + t.want() + pos.wpost
		if strings.Contains(want, "unsup") {
			continue
		}
		for _, sp := range []struct{ name, src string }{{"min", t.printMin(0)}, {"full", t.printFull()}} {
			src := pos.pre + sp.src + pos.post
			stmt, err := parser.ParseSrc(src)
			o.Sum.Evaluations++
			o.Sum.Hist["spelling:"+sp.name]++
			if err != nil {
				o.Fail(Failure{Oracle: "spelling-parses", Key: "parse-error:" + sp.name, Input: src, Detail: err.Error()})
				continue
			}
			got, ok := exprOf(stmt)
			if !ok || got != want {
				o.Fail(Failure{Oracle: "tree-as-spelled", Key: "parse-tree:" + sp.name, Input: src, Detail: fmt.Sprintf("intended %s\nparsed   %s", want, got)})
			}
		}
		// the two spellings denote the same tree, so they denote the same value: both are evaluated with the identifiers bound to a mix of
		// numbers, strings, booleans, lists and nil - an evaluator that treats a written parenthesis as more than grouping is seen here
		{
			pool := []interface{}{int64(1), int64(2), "s", 2.5, true, int64(0), "7", []interface{}{int64(1), int64(2)}, nil, int64(-3), "", 0.5}
			run := func(src string) string {
				e := env.NewEnv()
				for k := 1; k <= g.n+1; k++ {
					_ = e.Define(fmt.Sprintf("v%d", k), pool[(k+i)%len(pool)])
				}
				v, err, pv := execGuard(e, src)
				if pv != nil {
					return fmt.Sprintf("panic %v", pv)
				}
				if err != nil {
					return "error"
				}
				return fmt.Sprintf("%#v", v)
			}
			vmin, vfull := run(t.printMin(0)), run(t.printFull())
			o.Sum.Hist["spellings-evaluated"]++
			if vmin != vfull {
				o.Fail(Failure{Oracle: "tree-as-spelled", Key: "spellings-evaluate-differently", Input: t.printMin(0) + "   vs   " + t.printFull(),
					Detail: fmt.Sprintf("as written: %s; with every implied parenthesis written out: %s (identifiers v<k> bound to %v, rotated by %d)", vmin, vfull, pool, i%len(pool))})
			}
		}
		if lt, ok := t.leanTree(); ok {
			// the token list is the spelling that was parsed above, token by token
			if strings.ReplaceAll(t.tokens(0), " ", "") != strings.ReplaceAll(t.printMin(0), " ", "") {
				o.Fail(Failure{Oracle: "printer-self-check", Key: "printer-tokens-differ", Input: t.printMin(0), Detail: t.tokens(0)})
			}
			o.Case("(prmin "+lt+")", t.tokens(0), t.printMin(0), t.kind != "atom")
			o.Sum.Hist["prmin:"+t.kind]++
		}
	}
	// integer literals
	checkInt := func(lit string, want int64, wantErr bool) {
		o.Sum.Evaluations++
		o.Sum.Hist["literal:int"]++
		stmt, err := parser.ParseSrc(lit)
		enc := func() string {
			if wantErr {
				return "err"
			}
			return fmt.Sprintf("ok (i %d)", want)
		}()
		got := "err"
		if err == nil {
			if v, ok := litValue(stmt); ok {
				got = "ok " + vals.Encode(v)
			}
		}
		o.Case("(tonumber "+hexOf(lit)+")", got, lit, true)
		if got != enc {
			o.Fail(Failure{Oracle: "integer-literal", Key: "literal-int", Input: lit, Detail: fmt.Sprintf("expected %s, parser gave %s (err %v)", enc, got, err)})
		}
	}
	for _, v := range vals.Ints {
		checkInt(fmt.Sprint(v), v, false)
		if v >= 0 {
			checkInt(fmt.Sprintf("0x%x", v), v, false)
			checkInt(fmt.Sprintf("0b%b", v), v, false)
			checkInt(fmt.Sprintf("0X%X", v), v, false)
		} else {
			// negative literals with a base prefix, MinInt64 included (its magnitude does not fit int64)
			checkInt(fmt.Sprintf("-0x%x", uint64(-v)), v, false)
			checkInt(fmt.Sprintf("-0b%b", uint64(-v)), v, false)
			checkInt(fmt.Sprintf("-0X%X", uint64(-v)), v, false)
		}
	}
	// decimal spellings with leading zeros denote the decimal number (there are no octal literals)
	for _, v := range []int64{0, 1, 7, 8, 9, 10, 17, 19, 77, 88, 100, 644, 755, 777, 4095, 1234567} {
		checkInt("0"+fmt.Sprint(v), v, false)
		checkInt("00"+fmt.Sprint(v), v, false)
		if v > 0 {
			checkInt("-0"+fmt.Sprint(v), -v, false)
		}
	}
	for i := 0; i < n/8; i++ {
		v := int64(r.Intn(1 << 30))
		checkInt(strings.Repeat("0", 1+r.Intn(3))+fmt.Sprint(v), v, false)
	}
	checkInt("9223372036854775808", 0, true)
	checkInt("-9223372036854775809", 0, true)
	checkInt("0x8000000000000000", 0, true)
	checkInt("0b1"+strings.Repeat("0", 63), 0, true)
	checkInt("-9223372036854775808", math.MinInt64, false)
	checkInt("99999999999999999999", 0, true)
	for i := 0; i < n/4; i++ {
		v := r.Int63()
		if r.Intn(2) == 0 {
			v = -v
		}
		checkInt(fmt.Sprint(v), v, false)
	}
	// float literals vs strconv
	for _, f := range []string{"1.5", "0.1", "1e3", "1E3", "2.5e-3", "1e+2", "123456789.125", "0.000001", "1.7976931348623157e308", "1e400", "1.5e", "3.", "1..2",
		"1.e2", "2.E3", "1.e-2", "12.e+1", "0.e0", "7.e1", "1.0e2", "1.e", "5.E-1", "00.5", "0.50", "1e0", "1E+0"} {
		o.Sum.Evaluations++
		o.Sum.Hist["literal:float"]++
		stmt, err := parser.ParseSrc(f)
		want, perr := strconv.ParseFloat(strings.ReplaceAll(f, "E", "e"), 64)
		if perr != nil {
			if err == nil {
				if v, ok := litValue(stmt); ok {
					o.Fail(Failure{Oracle: "float-literal", Key: "literal-float", Input: f, Detail: fmt.Sprintf("not a float64 numeral (%v) but parsed to %v", perr, v)})
				}
			}
			continue
		}
		if err != nil {
			o.Fail(Failure{Oracle: "float-literal", Key: "literal-float", Input: f, Detail: "rejected: " + err.Error()})
			continue
		}
		if v, ok := litValue(stmt); !ok || v != want {
			o.Fail(Failure{Oracle: "float-literal", Key: "literal-float", Input: f, Detail: fmt.Sprintf("expected %v, got %v", want, v)})
		}
	}
	// string literals: quoted with escapes, single-quoted, raw
	// (a backslash in front of any other character - non-ASCII ones included - stands for that character)
	alphabet := []string{"a", "é", " ", "\\n", "\\t", "\\r", "\\b", "\\f", "\\\\", "\\\"", "\\'", "\\q", "0", "{", "#", "//", "\\é", "\\世", "界", "\\€", "\\ÿ", "\\\U0001F600"}
	expand := map[string]string{"\\n": "\n", "\\t": "\t", "\\r": "\r", "\\b": "\b", "\\f": "\f", "\\\\": "\\", "\\\"": "\"", "\\'": "'", "\\q": "q",
		"\\é": "é", "\\世": "世", "\\€": "€", "\\ÿ": "ÿ", "\\\U0001F600": "\U0001F600"}
	for i := 0; i < n/4+20; i++ {
		var src, want strings.Builder
		for j := r.Intn(6); j > 0; j-- {
			p := alphabet[r.Intn(len(alphabet))]
			src.WriteString(p)
			if e, ok := expand[p]; ok {
				want.WriteString(e)
			} else {
				want.WriteString(p)
			}
		}
		for _, q := range []string{"\"", "'"} {
			lit := q + src.String() + q
			o.Sum.Evaluations++
			o.Sum.Hist["literal:string"]++
			stmt, err := parser.ParseSrc(lit)
			if err != nil {
				// an unescaped closing quote inside ends the literal early: only then may the text fail to parse
				if !strings.Contains(strings.ReplaceAll(src.String(), "\\"+q, ""), q) {
					o.Fail(Failure{Oracle: "string-literal", Key: "literal-string", Input: lit, Detail: err.Error()})
				}
				continue
			}
			if v, ok := litValue(stmt); ok && v != want.String() && !strings.Contains(strings.ReplaceAll(src.String(), "\\"+q, ""), q) {
				o.Fail(Failure{Oracle: "string-literal", Key: "literal-string", Input: lit, Detail: fmt.Sprintf("expected %q, got %q", want.String(), v)})
			}
		}
		raw := strings.ReplaceAll(src.String(), "`", "")
		stmt, err := parser.ParseSrc("`" + raw + "`")
		o.Sum.Evaluations++
		if err != nil {
			o.Fail(Failure{Oracle: "string-literal", Key: "literal-raw-string", Input: raw, Detail: err.Error()})
		} else if v, ok := litValue(stmt); !ok || v != raw {
			o.Fail(Failure{Oracle: "string-literal", Key: "literal-raw-string", Input: raw, Detail: fmt.Sprintf("expected %q, got %q", raw, v)})
		}
	}
	// a comment is a blank: the tree of an expression with block comments in it is the tree of the expression without them
	// (`/*/` opens a comment, it is not a complete one)
	for _, c := range [][2]string{{"8 /*/ - 2 /*/ - 3", "8 - 3"}, {"\"a\" + /*/ \"b\" + /*/ \"c\"", "\"a\" + \"c\""}, {"2 /*/ * 100 */ + 1", "2 + 1"}, {"1 /**/ + /***/ 2", "1 + 2"},
		{"a /* x */ * /* y */ b - c", "a * b - c"}, {"f(/*/ 1, /*/ 2)", "f(2)"}, {"[1, /*/*/ 2]", "[1, 2]"}, {"a = 1 /*//*/ + 2", "a = 1 + 2"}, {"x /* /* */ - y", "x - y"}, {"1 // + 2\n+ 3", "1\n+ 3"}, {"1 # + 2\n- 3", "1\n- 3"}} {
		o.Sum.Evaluations++
		o.Sum.Hist["spelling:comments"]++
		got, err1 := parser.ParseSrc(c[0])
		want, err2 := parser.ParseSrc(c[1])
		if err2 != nil {
			continue
		}
		if err1 != nil {
			o.Fail(Failure{Oracle: "spelling-parses", Key: "parse-error:comments", Input: c[0], Detail: err1.Error()})
			continue
		}
		if astser.Prog(got) != astser.Prog(want) {
			o.Fail(Failure{Oracle: "tree-as-spelled", Key: "parse-tree:comments", Input: c[0], Detail: fmt.Sprintf("without the comments (%q) the tree is %s\nwith them it is %s", c[1], astser.Prog(want), astser.Prog(got))})
		}
	}
	// blanks, tabs and comments between a built-in word and its parenthesis change nothing: the tree is the tree of the tight spelling
	for _, tight := range []string{"len(a) - 1 * 2", "-len(a)", "3 in [len(a)]", "*new(int64) + 1", "make(int64) + 1", "make([]int64, 2)[0]", "import(\"strings\")", "delete(m, \"k\")", "close(c)",
		"x = len(a) + len(b)", "f(len(a), make(map[string]int64))", "if len(a) > 0 { delete(m) }", "make(type T, 1)", "len(make([]int64, len(a)))"} {
		want, err := parser.ParseSrc(tight)
		if err != nil {
			o.Fail(Failure{Oracle: "spelling-parses", Key: "parse-error:builtin-tight", Input: tight, Detail: err.Error()})
			continue
		}
		for _, gap := range []string{" ", "\t", "  ", " /* c */ ", "/**/"} {
			loose := tight
			for _, w := range []string{"len", "new", "make", "import", "delete", "close"} {
				loose = strings.ReplaceAll(loose, w+"(", w+gap+"(")
			}
			o.Sum.Evaluations++
			o.Sum.Hist["spelling:builtin-gap"]++
			got, err := parser.ParseSrc(loose)
			if err != nil {
				o.Fail(Failure{Oracle: "spelling-parses", Key: "parse-error:builtin-gap", Input: loose, Detail: err.Error()})
				continue
			}
			if astser.Prog(got) != astser.Prog(want) {
				o.Fail(Failure{Oracle: "tree-as-spelled", Key: "parse-tree:builtin-gap", Input: loose, Detail: fmt.Sprintf("tight spelling %q gives %s\nthis spelling gives %s", tight, astser.Prog(want), astser.Prog(got))})
			}
		}
	}
	// a binary minus (or plus) written tight against the number that follows is still the binary operator, whatever operand stands on
	// its left - a name, a literal, the words true / false / nil, a call, an index, a closing parenthesis
	for _, left := range []string{"true", "false", "nil", "a", "1", "2.5", "\"s\"", "f()", "a[0]", "(a)", "a.b", "len(a)", "[1]", "{\"k\": 1}.k", "a++", "!true", "c ? true : false"} {
		for _, num := range []string{"1", "2 * 3", "0x10", "1.5", "1e3", "1 - 2"} {
			for _, op := range []string{"-", "+"} {
				want, err := parser.ParseSrc("x = " + left + " " + op + " " + num)
				if err != nil {
					continue
				}
				for _, spelled := range []string{left + " " + op + num, left + op + num, left + op + " " + num, left + "\t" + op + num} {
					if strings.HasSuffix(left, "+") && strings.HasPrefix(spelled[len(left):], "+") {
						continue // a++ +1 written tight is another token sequence
					}
					o.Sum.Evaluations++
					o.Sum.Hist["spelling:tight-sign"]++
					got, err := parser.ParseSrc("x = " + spelled)
					if err != nil {
						o.Fail(Failure{Oracle: "spelling-parses", Key: "parse-error:tight-sign", Input: "x = " + spelled, Detail: fmt.Sprintf("%q parses, this spelling gives: %v", "x = "+left+" "+op+" "+num, err)})
						continue
					}
					if astser.Prog(got) != astser.Prog(want) {
						o.Fail(Failure{Oracle: "tree-as-spelled", Key: "parse-tree:tight-sign", Input: "x = " + spelled, Detail: fmt.Sprintf("with blanks the tree is %s\nthis spelling gives %s", astser.Prog(want), astser.Prog(got))})
					}
				}
			}
		}
	}
	// the parser is a function of the text: the same source parsed again - right away, and after other sources - gives the same
	// verdict and the same tree (sources the grammar's actions reject included: unrepresentable numbers, a second default / else)
	{
		again := []string{"9223372036854775808", "x = -9223372036854775809", "0x8000000000000000", "y = 1e999", "1.2.3", "a = 0b2", "switch x {\ndefault:\n1\ndefault:\n2\n}",
			"if a {\n} else {\n} else {\n}", "x = 1", "f(1e400)", "a = [1, 99999999999999999999]", "s = \"unterminated", "= 1", "x = 9223372036854775807", "func() { return 1e999 }"}
		verdict := func(src string) string {
			st, err := parser.ParseSrc(src)
			if err != nil {
				return "error: " + err.Error()
			}
			return astser.Prog(st)
		}
		first := map[string]string{}
		for round := 0; round < 4; round++ {
			for _, src := range again {
				v := verdict(src)
				o.Sum.Evaluations++
				o.Sum.Hist["parse-again"]++
				if round == 0 {
					first[src] = v
				} else if v != first[src] {
					o.Fail(Failure{Oracle: "tree-as-spelled", Key: "parse-again-differs", Input: src, Detail: fmt.Sprintf("first parse: %s\nparse number %d of the same text: %s", first[src], round+1, v)})
				}
			}
		}
	}
	// a raw string denotes exactly the bytes between the back quotes - CR LF, a lone CR, a byte order mark included;
	// and a file that starts with a byte order mark is not silently accepted as if it did not
	for _, raw := range []string{"a\r\nb", "one\r\ntwo\r\n", "\r", "a\rb", "\xef\xbb\xbfx", "a\n\r\nb", "\r\n", "tab\there", "q\"uote'", "\\n stays two characters"} {
		stmt, err := parser.ParseSrc("x = `" + raw + "`")
		o.Sum.Evaluations++
		o.Sum.Hist["literal:raw-bytes"]++
		want := "(stmts (lets ((id x)) ((lit (s " + hexOf(raw) + ")))))"
		if err != nil {
			o.Fail(Failure{Oracle: "string-literal", Key: "literal-raw-string", Input: fmt.Sprintf("x = `%s`", raw), Detail: err.Error()})
		} else if got := astser.Prog(stmt); got != want {
			o.Fail(Failure{Oracle: "string-literal", Key: "literal-raw-string", Input: fmt.Sprintf("x = `%q`", raw), Detail: fmt.Sprintf("expected %s, parser gave %s", want, got)})
		}
	}
	for _, q := range []struct{ src, want string }{
		{"x = \"a\\r\\nb\"", "(stmts (lets ((id x)) ((lit (s " + hexOf("a\r\nb") + ")))))"},
		{"x = \"a\r\\nb\"", "(stmts (lets ((id x)) ((lit (s " + hexOf("a\r\nb") + ")))))"},
		{"x = 1\r\ny = 2", "(stmts (lets ((id x)) ((lit (i 1)))) (lets ((id y)) ((lit (i 2)))))"},
	} {
		stmt, err := parser.ParseSrc(q.src)
		o.Sum.Evaluations++
		if err != nil {
			o.Fail(Failure{Oracle: "string-literal", Key: "literal-cr", Input: q.src, Detail: err.Error()})
		} else if got := astser.Prog(stmt); got != q.want {
			o.Fail(Failure{Oracle: "string-literal", Key: "literal-cr", Input: fmt.Sprintf("%q", q.src), Detail: fmt.Sprintf("expected %s, parser gave %s", q.want, got)})
		}
	}
	// statements keep their boundaries whatever encloses the block they are written in: a function literal with a body of
	// several lines reads the same as an argument, a list element, a parenthesised callee, an index - also when a line
	// starts with `-`, `(`, `[`, `*`, `&`, which could continue the line before
	funcPart := func(prog string) string {
		i := strings.Index(prog, "(func ")
		if i < 0 {
			return ""
		}
		depth := 0
		for j := i; j < len(prog); j++ {
			switch prog[j] {
			case '(':
				depth++
			case ')':
				depth--
				if depth == 0 {
					return prog[i : j+1]
				}
			}
		}
		return ""
	}
	firsts := []string{"d = v", "d", "v.m", "v[0]", "f(v)", "d = 1", "return", "x++"}
	seconds := []string{"-d", "(d)", "[d]", "*p = 1", "&d", "d", "!d", "^d", "<- c", "f(d)", "(-(d))", "+d"}
	for _, s1 := range firsts {
		for _, s2 := range seconds {
			body := "func(a) {\n" + s1 + "\n" + s2 + "\nreturn a\n}"
			base, berr := parser.ParseSrc("fn = " + body)
			if berr != nil {
				continue // not a body of the language
			}
			ref := funcPart(astser.Prog(base))
			for _, w := range []struct{ name, pre, post string }{
				{"argument", "cb(", ")"}, {"second-argument", "cb(1, ", ", 2)"}, {"list-element", "l = [", "]"}, {"called-in-parens", "(", ")(1)"},
				{"index", "t[", "(0)]"}, {"map-value", "m = {\"k\": ", "}"}, {"nested-call", "g(h(", "))"}, {"ternary", "y = true ? ", " : nil"}, {"return-value", "return ", ", 1"},
			} {
				src := w.pre + body + w.post
				st, err := parser.ParseSrc(src)
				o.Sum.Evaluations++
				o.Sum.Hist["body-in-brackets:"+w.name]++
				if err != nil {
					o.Fail(Failure{Oracle: "statement-boundaries", Key: "body-in-brackets:" + w.name, Input: src, Detail: "the function literal parses on its own but not here: " + err.Error()})
				} else if got := funcPart(astser.Prog(st)); got != ref {
					o.Fail(Failure{Oracle: "statement-boundaries", Key: "body-in-brackets:" + w.name, Input: src, Detail: fmt.Sprintf("on its own the literal reads %s, here %s", ref, got)})
				}
			}
		}
	}
	// a binary operator written directly against a prefix operator reads as the two operators it is made of (unless the two
	// characters spell an operator of the language: --, &&, <-): `a**p` is a times the value p points to
	for _, op := range []string{"+", "-", "*", "/", "%", "&", "|", "<", ">", "==", "!=", "<=", ">=", "<<", ">>", "&&", "||"} {
		for _, un := range []string{"-", "!", "^", "*", "&"} {
			last := op[len(op)-1:]
			if m := last + un; m == "--" || m == "&&" || m == "<-" || m == "||" || m == "/*" {
				continue
			}
			for _, operand := range []string{"p", "1", "(q)", "f()", "p.x", "p[0]"} {
				tight, spaced := "x = a"+op+un+operand, "x = a "+op+" "+un+operand
				ts, terr := parser.ParseSrc(tight)
				ss, serr := parser.ParseSrc(spaced)
				o.Sum.Evaluations++
				o.Sum.Hist["operator:against-prefix"]++
				if serr != nil {
					continue
				}
				if terr != nil {
					o.Fail(Failure{Oracle: "operator-boundary", Key: "operator-boundary:" + op + un, Input: tight, Detail: fmt.Sprintf("%q parses, %q does not: %v", spaced, tight, terr)})
				} else if a, b := astser.ProgNoParens(ts), astser.ProgNoParens(ss); a != b {
					o.Fail(Failure{Oracle: "operator-boundary", Key: "operator-boundary:" + op + un, Input: tight, Detail: fmt.Sprintf("%q reads as %s, %q as %s", tight, a, spaced, b)})
				}
			}
		}
	}
	// a well-formed numeric literal written directly against a binary operator reads as it does with blanks around the
	// operator: where a literal ends depends on its base only (the hex digit e is no exponent marker)
	for _, l := range []string{"0xe", "0xfe", "0x1e", "0xE", "0XAE", "0x1F", "0xabcdef", "0b1", "0b10", "7", "10", "1e3", "1E3", "1.5", "1.5e2", "2e-3", "0"} {
		for _, op := range []string{"+", "-", "*", "/", "%", "<", ">", "&", "|", "==", "!=", "<=", ">=", "&&", "||", "<<", ">>"} {
			for _, r2 := range []string{"1", "0x1", "2e1", "0b1", "x", "(1)", "0xe"} {
				tight, spaced := "a = "+l+op+r2, "a = "+l+" "+op+" "+r2
				ts, terr := parser.ParseSrc(tight)
				ss, serr := parser.ParseSrc(spaced)
				o.Sum.Evaluations++
				o.Sum.Hist["literal:against-operator"]++
				if serr != nil {
					continue // not a form of the language (nothing to compare with)
				}
				if terr != nil {
					o.Fail(Failure{Oracle: "literal-boundary", Key: "literal-boundary:" + l, Input: tight, Detail: fmt.Sprintf("%q parses, %q does not: %v", spaced, tight, terr)})
				} else if a, b := astser.ProgNoParens(ts), astser.ProgNoParens(ss); a != b {
					o.Fail(Failure{Oracle: "literal-boundary", Key: "literal-boundary:" + l, Input: tight, Detail: fmt.Sprintf("%q reads as %s, %q as %s", tight, a, spaced, b)})
				}
			}
		}
	}
}

func hexOf(s string) string {
	const d = "0123456789abcdef"
	var b strings.Builder
	for i := 0; i < len(s); i++ {
		b.WriteByte(d[s[i]>>4])
		b.WriteByte(d[s[i]&15])
	}
	return b.String()
}

// litValue extracts the value of a program consisting of one literal expression statement.
func litValue(stmt ast.Stmt) (interface{}, bool) {
	ss, ok := stmt.(*ast.StmtsStmt)
	if !ok || len(ss.Stmts) != 1 {
		return nil, false
	}
	es, ok := ss.Stmts[0].(*ast.ExprStmt)
	if !ok {
		return nil, false
	}
	le, ok := es.Expr.(*ast.LiteralExpr)
	if !ok || !le.Literal.IsValid() {
		return nil, false
	}
	if le.Literal.Kind() == reflect.Interface && le.Literal.IsNil() {
		return nil, true
	}
	return le.Literal.Interface(), true
}
