package main

import (
	"fmt"
	"math/rand"
	"reflect"
	"strings"
	"sync"
	"time"

	"github.com/mattn/anko/ast"
	"github.com/mattn/anko/env"
	"github.com/mattn/anko/parser"

	"veriftools/internal/gen"
)

func init() { streams["isolation"] = streamIsolation }

// deepDump renders every field of a parsed tree by reflection (positions, literal values,
// CallExpr.Func validity, type data): anything an execution could have written into it.
func deepDump(b *strings.Builder, v reflect.Value, depth int) {
	if depth > 200 {
		b.WriteString("<deep>")
		return
	}
	switch v.Kind() {
	case reflect.Invalid:
		b.WriteString("<invalid>")
	case reflect.Interface, reflect.Ptr:
		if v.IsNil() {
			b.WriteString("nil")
			return
		}
		if v.Type() == reflect.TypeOf(reflect.Value{}) {
			return
		}
		deepDump(b, v.Elem(), depth+1)
	case reflect.Struct:
		if rv, ok := v.Interface().(reflect.Value); ok {
			// a reflect.Value stored in the tree (LiteralExpr.Literal, CallExpr.Func)
			if !rv.IsValid() {
				b.WriteString("<zero Value>")
			} else if rv.CanInterface() {
				fmt.Fprintf(b, "<%s %#v>", rv.Type(), rv.Interface())
			}
			return
		}
		b.WriteString(v.Type().Name() + "{")
		for i := 0; i < v.NumField(); i++ {
			f := v.Field(i)
			b.WriteString(v.Type().Field(i).Name + ":")
			if f.CanInterface() {
				deepDump(b, f, depth+1)
			} else {
				// unexported (positions): read through the Pos interface when possible
				fmt.Fprintf(b, "%v", f)
			}
			b.WriteString(" ")
		}
		b.WriteString("}")
	case reflect.Slice:
		b.WriteString("[")
		for i := 0; i < v.Len(); i++ {
			deepDump(b, v.Index(i), depth+1)
			b.WriteString(",")
		}
		b.WriteString("]")
	default:
		fmt.Fprintf(b, "%v", v)
	}
}

func dumpTree(s ast.Stmt) string {
	var b strings.Builder
	deepDump(&b, reflect.ValueOf(s), 0)
	return b.String()
}

func streamIsolation(o *Out, r *rand.Rand, n int, thorough bool) {
	o.Sum.Rule = "programs (random F0 programs, plus import / module / closure programs) parsed ONCE and executed 3 times one after another and from 8 goroutines at once, " +
		"each in its own fresh environment; every run must equal the first (value, error, probe trace) and the reflection dump of the tree (all fields, literal values, " +
		"CallExpr.Func, positions) must be unchanged; two environments must not see each other's bindings; non-trivial = all; distinct by source hash"
	extra := []string{
		"s = import(\"strings\")\ns.ToUpper = 5\nt = import(\"strings\")\nprobe(t.ToUpper(\"a\"))\nprobe(s.ToUpper)",
		"s = import(\"sort\")\nsecret = 42\nprobe(s)",
		// an import result that is never bound by let / var: kept in a container, passed as an argument, used directly
		"m = {\"p\": import(\"strings\")}\nprobe(m.p.ToUpper(\"a\"))\nm.p.ToUpper = func(s) { return \"<\" + s + \">\" }\nprobe(m.p.ToUpper(\"b\"))\nprobe(import(\"strings\").ToUpper(\"c\"))",
		"l = [import(\"strings\")]\nprobe(l[0].ToLower(\"A\"))\nl[0].ToLower = 5\nprobe(import(\"strings\").ToLower(\"B\"))",
		"probe(import(\"strings\").Title(\"x\"))\nfunc(p) { p.Title = func(s) { return \"patched\" } }(import(\"strings\"))\nprobe(import(\"strings\").Title(\"y\"))",
		"probe(import(\"sort\").Ints != nil)\nimport(\"sort\").Ints = nil\nprobe(import(\"sort\").Ints != nil)",
		"a = [3, 1, 2]\nsort = import(\"sort\")\nsort.Ints(a)\nprobe(a)",
		"func f(x) { return x + 1 }\nprobe(f(1))\nf = func(x) { return x + 100 }\nprobe(f(1))",
		"x = 0\nfor i = 0; i < 50; i++ { x += i }\nprobe(x)\nmodule m { y = x }\nprobe(m.y)",
		"func mk() { var c = 0; return func() { c++; return c } }\ng = mk()\ng()\nprobe(g())",
		"probe(1 + 4095)\nprobe(-1 - 1)\nx = 4095\nx++\nprobe(x)",
		"defer probe(\"d\")\ntry { throw \"e\" } catch err { probe(err) }",
		// values made by one run (struct values with reference fields, nested list / map literals) are made afresh by the next run
		"s = make(struct { Seen map[string]int64, N int64 })\ns.Seen[\"k\" + len(s.Seen)] = 1\ns.N++\nprobe([len(s.Seen), s.N])",
		"s = make(struct { In struct { M map[string]bool }, L []int64 })\ns.In.M[\"x\"] = true\ns.L += 1\nprobe([len(s.In.M), len(s.L)])\nt = make(struct { In struct { M map[string]bool }, L []int64 })\nprobe([len(t.In.M), len(t.L)])",
		"b = [[0, 0, 0], [0, 0, 0], [0, 0, 0]]\nb[0][0] += 1\nb[1][1] += 2\nb[2][0] += 1\nprobe(b)",
		"cfg = {\"tags\": [\"a\"], \"n\": {\"k\": 0}}\ncfg.tags[0] = cfg.tags[0] + \"!\"\ncfg.n.k += 5\nprobe(cfg)",
		"func grid() { return [[0, 0], [0, 0]] }\ng = grid()\ng[0][0] = 7\nh = grid()\nh[1][1] = 8\nprobe([g, h, grid()])",
		"acc = []\nfor i = 0; i < 3; i++ {\nrow = [[0], [0]]\nrow[0][0] += i + 1\nacc += [row]\n}\nprobe(acc)",
		// objects handed out by package functions belong to the run that asked for them: configuring one does not reach the next run
		"re = import(\"regexp\").MustCompile(\"a(|b)\")\nr1 = re.FindString(\"ab\")\nre.Longest()\nr2 = re.FindString(\"ab\")\nprobe([r1, r2])",
		"regexp = import(\"regexp\")\nre, err = regexp.Compile(\"a|ab\")\nprobe(re.FindString(\"ab\"))\nre.Longest()\nprobe(re.FindString(\"ab\"))\nprobe(regexp.MustCompile(\"a|ab\").FindString(\"ab\"))",
		"strings = import(\"strings\")\nb = strings.NewReplacer(\"a\", \"b\")\nprobe(b.Replace(\"aa\"))\nbuf = import(\"bytes\").NewBufferString(\"x\")\nbuf.WriteString(\"y\")\nprobe(buf.String())",
		// typed map literals are filled in source order (a later entry whose key converts to the same key wins; the first ill-typed
		// entry is the one reported) - built 40 times per run, every run the same
		"r = []\nfor i = 0; i < 40; i++ {\nm = map[float64]string{1: \"int\", 1.0: \"float\", 1: \"again\"}\nr += m[1.0]\n}\nprobe(r)",
		"r = []\nfor i = 0; i < 40; i++ {\nm = map[int64]string{1.2: \"a\", 1.7: \"b\", 1: \"c\", 2: \"d\"}\nr += m[1]\n}\nprobe(r)",
		"r = []\nfor i = 0; i < 40; i++ {\ntry {\nm = map[int64]int64{\"x\": 1, 2: \"y\", [3]: 4}\n} catch e {\nr += toString(e)\n}\n}\nprobe(r)",
		"r = []\nfor i = 0; i < 40; i++ {\nm = map[string]int64{\"a\": 1, \"b\": 2, \"a\": 3, \"c\": 4, \"b\": 5}\nr += [m.a, m.b]\n}\nprobe(r)",
		// text handed to Go functions that take / return []byte: a write through the result never reaches the literal in the tree
		"bytes = import(\"bytes\")\nb = bytes.TrimSpace(\"  anko  \")\nb[0] = b[0] - 32\nprobe(toString(b))",
		"bytes = import(\"bytes\")\nparts = bytes.Fields(\"ab cd\")\nparts[0][0] = 90\nparts[1][1] = 90\nprobe([toString(parts[0]), toString(parts[1])])\nprobe(\"ab cd\")",
		"b = toByteSlice(\"hello\")\nb[0] = 72\nprobe([toString(b), \"hello\"])",
		// the error a catch block binds for a stray break / continue / return belongs to the run: writing to it does not reach the next run
		"seen = nil\ntry {\nbreak\n} catch e {\nseen = toString(e)\ntry {\ne.Message = \"x\"\n} catch e2 {\n}\n}\nprobe(seen)",
		"seen = nil\nfunc f() {\ntry {\ncontinue\n} catch e {\nseen = toString(e)\ntry {\ne.Message = \"patched\"\ne.Pos.Line = 99\n} catch e2 {\n}\n}\n}\nf()\nprobe(seen)",
		// a spread call with leading arguments, evaluated again and again (loop, later runs) with a different list each time
		"func pair(a, b) { return [a, b] }\nr = []\nfor xs in [[1], [2], [3]] {\nr += [pair(\"k\", xs...)]\n}\nprobe(r)",
		"func tri(a, b, c) { return [a, b, c] }\nr = []\nfor xs in [[1, 2], [3, 4]] {\nr += [tri(0, xs...)]\n}\nprobe(r)",
		"r = []\nfor xs in [[1], [2], [3]] {\nr += typed2(\"a\", xs...)\n}\nprobe(r)",
		"func five(a, b, c, d, e) { return [a, e] }\nr = []\nfor xs in [[[1]], [[2]]] {\nr += [five(0, 0, 0, 0, xs...)]\n}\nprobe(r)",
		"func pair(a, b) { return [a, b] }\nfunc call(xs) { return pair(\"rows\", xs...) }\nprobe([call([[\"one\"]]), call([[\"two\", \"TWO\"]])])",
		"c = make(chan int64, 2)\ns = make(struct { C chan int64 })\nprobe(s.C == nil)\nt = make([][]int64, 2)\nt[0] = [1]\nt[0][0]++\nprobe(t)",
	}
	for i := 0; i < n+len(extra); i++ {
		var src string
		if i < len(extra) {
			src = extra[i]
		} else {
			g := gen.NewProg(r)
			src = g.Program(1+r.Intn(5), 1+r.Intn(3))
		}
		stmt, err := parser.ParseSrc(src)
		if err != nil {
			o.Sum.Skipped++
			continue
		}
		if o.Skipped(i, src) {
			continue
		}
		o.Current(i, src)
		before := dumpTree(stmt)
		first := runVM(stmt, -1, 3*time.Second)
		if first.hung {
			o.Sum.Skipped++
			continue
		}
		o.Sum.Evaluations++
		o.hashes[src] = true
		if len(o.Sum.Samples) < 3 {
			o.Sum.Samples = append(o.Sum.Samples, src)
		}
		canon := func(r vmResult) string {
			// function values print as (fn 0); traces with map iteration order inside are compared as is (maps have <= 2 entries and are encoded sorted)
			return r.line
		}
		for k := 0; k < 2; k++ {
			again := runVM(stmt, -1, 3*time.Second)
			if canon(again) != canon(first) {
				o.Fail(Failure{Oracle: "repeatable", Key: "rerun-differs", Input: src, Detail: fmt.Sprintf("run 1: %s\nrun %d: %s", first.line, k+2, again.line)})
				break
			}
		}
		var wg sync.WaitGroup
		results := make([]vmResult, 8)
		for g := 0; g < 8; g++ {
			wg.Add(1)
			go func(g int) {
				defer wg.Done()
				results[g] = runVM(stmt, -1, 5*time.Second)
			}(g)
		}
		wg.Wait()
		for g, res := range results {
			if canon(res) != canon(first) {
				o.Fail(Failure{Oracle: "concurrent-runs-isolated", Key: "concurrent-run-differs", Input: src, Detail: fmt.Sprintf("alone: %s\ngoroutine %d: %s", first.line, g, res.line)})
				break
			}
		}
		if after := dumpTree(stmt); after != before {
			o.Fail(Failure{Oracle: "tree-unchanged", Key: "tree-modified", Input: src, Detail: "the parsed tree differs after execution: " + firstDiff(before, after)})
		}
	}
	// two environments never observe each other's bindings (same tree, one defines, the other reads)
	def, _ := parser.ParseSrc("secret = 7\nfunc leak() { return secret }")
	read, _ := parser.ParseSrc("probe(secret ?? \"unseen\")\nprobe(leak ?? \"unseen\")")
	e1, e2 := env.NewEnv(), env.NewEnv()
	_ = e1
	_ = e2
	r1 := runVM(def, -1, time.Second)
	r2 := runVM(read, -1, time.Second)
	o.Sum.Evaluations++
	if r1.err != nil || len(r2.trace) != 2 || r2.trace[0] != r2.trace[1] || !strings.Contains(r2.trace[0], "756e7365656e") {
		o.Fail(Failure{Oracle: "environments-isolated", Key: "env-leak", Input: "secret = 7 in one environment; read in another", Detail: fmt.Sprint(r2.trace, r2.err)})
	}
	isolationTypes(o)
	isolationHistories(o)
	isolationLater(o)
	isolationCopies(o)
	// hidden shared state: a run that writes through every handle it can obtain (pointers to computed values, elements of
	// literals, imported package tables, builtin results) must not change what an unrelated run computes afterwards
	probeSrc := "probe([2 + 4, 1 - 2, 0 * 9, 4000 + 95, len(\"abc\"), [1, 2][0], \"a\" + \"b\", 1.5 * 2, true && true, nil ?? 7, {\"k\": 6}.k, -(-6), 6 % 7, 3 << 1, 13 >> 1, 6 | 0, 7 & 6])"
	poison := []string{
		"a = 2 + 4\np = &a\n*p = 100",
		"a = 1 - 2\np = &a\n*p = 55",
		"a = 0 * 9\np = &a\n*p = 1",
		"a = len(\"abc\")\np = &a\n*p = 99",
		"a = 3 << 1\np = &a\n*p = -6",
		"a = true && true\np = &a\n*p = false",
		"a = \"a\" + \"b\"\np = &a\n*p = \"zz\"",
		"a = 1.5 * 2\np = &a\n*p = 0.5",
		"a = nil\np = &a\ntry { *p = 1 } catch e { }",
		"x = [2 + 4][0]\np = &x\n*p = 100",
		"for i = 0; i < 10; i++ { q = &i; *q = *q + 0 }\nj = 6\nq = &j\n*q = 100",
		"func f() { return 2 + 4 }\nr = f()\np = &r\n*p = 100",
	}
	ps, perr := parser.ParseSrc(probeSrc)
	if perr != nil {
		o.Fail(Failure{Oracle: "isolation-template", Key: "isolation-template-parse", Input: probeSrc, Detail: perr.Error()})
		return
	}
	baseline := runVM(ps, -1, time.Second)
	for _, psrc := range poison {
		st, err := parser.ParseSrc(psrc)
		if err != nil {
			o.Fail(Failure{Oracle: "isolation-template", Key: "isolation-template-parse", Input: psrc, Detail: err.Error()})
			continue
		}
		_ = runVM(st, -1, time.Second)
		after := runVM(ps, -1, time.Second)
		o.Sum.Evaluations++
		o.Sum.Hist["poison-attempt"]++
		if after.line != baseline.line {
			o.Fail(Failure{Oracle: "runs-isolated", Key: "hidden-shared-state", Input: psrc + "\n--- then, in a fresh environment ---\n" + probeSrc,
				Detail: fmt.Sprintf("before the first script ran the probe gave %s; afterwards %s", baseline.line, after.line)})
			break
		}
	}
}

func firstDiff(a, b string) string {
	n := len(a)
	if len(b) < n {
		n = len(b)
	}
	for i := 0; i < n; i++ {
		if a[i] != b[i] {
			lo := i - 60
			if lo < 0 {
				lo = 0
			}
			hiA, hiB := i+60, i+60
			if hiA > len(a) {
				hiA = len(a)
			}
			if hiB > len(b) {
				hiB = len(b)
			}
			return fmt.Sprintf("before ...%s... after ...%s...", a[lo:hiA], b[lo:hiB])
		}
	}
	return fmt.Sprintf("lengths %d vs %d", len(a), len(b))
}

// typeSrcs use type names inside plain and composite type expressions; what a name means is decided by the environment.
var typeSrcs = []string{
	"x = make(T)\nprobe(x)",
	"probe(make([]T, 2))",
	"probe(make([][]T, 1))",
	"m = make(map[string]T)\nm[\"a\"] = make(T)\nprobe(m)",
	"m = map[string]T{}\nprobe(m)",
	"a = []T{}\na += make(T)\nprobe(a)",
	"for i = 0; i < 2; i++ { probe(make([]T, 1)) }",
	"func f() { return make([]T, 1) }\nprobe(f())\nprobe(f())",
	"p = make(*T)\nprobe(*p)",
	"c = make(chan T, 1)\nc <- make(T)\nprobe(<-c)",
	"func g() { return make([]U, 1) }\nmake(type U, 1)\nprobe(g())\nmake(type U, \"s\")\nprobe(g())\nprobe(make([]T, 1))",
	"make(type V, make([]T, 1))\nprobe(make(V))\nprobe(make([]V, 1))",
	"r = \"fresh\"\ntry { make(W)\nr = \"W already defined\" } catch e { }\nmake(type W, 1.5)\nprobe(r)\nprobe(make([]W, 1))",
	"make(type A, 1)\nmodule M { }\nsnap = M\nmake(type B, \"x\")\nr = \"isolated\"\ntry { make(snap.B)\nr = \"later type visible in the snapshot\" } catch e { }\nprobe(r)",
	"module N { make(type Q, 2) }\nprobe(make(N.Q))\nprobe(make([]N.Q, 1))\nprobe(make([]T, 1))",
}

// isolationTypes: one shared tree run in environments that bind the type name T differently (each run must equal the run
// of a freshly parsed tree in an equally prepared environment), and in an environment, its copies made before any run,
// and an equal freshly built one (all must agree: equal fresh environments, no shared tables).
func isolationTypes(o *Out) {
	presets := []struct {
		name string
		v    interface{}
	}{{"int64", int64(0)}, {"string", ""}, {"float64", 1.5}, {"[]bool", []bool{}}, {"int64", int64(0)}}
	prep := func(i int) func(*env.Env) {
		return func(e *env.Env) {
			_ = e.DefineType("T", presets[i].v)
			_ = e.DefineType("Base", int64(0))
			_ = e.Define("k", int64(3))
		}
	}
	for _, src := range typeSrcs {
		shared, err := parser.ParseSrc(src)
		if err != nil {
			o.Fail(Failure{Oracle: "isolation-template", Key: "isolation-template-parse", Input: src, Detail: err.Error()})
			continue
		}
		before := dumpTree(shared)
		want := make([]string, len(presets))
		for i := range presets {
			fresh, _ := parser.ParseSrc(src)
			want[i] = runVMWith(fresh, -1, 2*time.Second, prep(i)).line
		}
		if strings.Contains(src, "snap = M") && !strings.Contains(want[0], "trace=((s 69736f6c61746564))") {
			o.Fail(Failure{Oracle: "environments-isolated", Key: "env-leak:snapshot", Input: src,
				Detail: "a module value taken before a type was defined resolves that type: " + want[0]})
		}
		for i := range presets {
			got := runVMWith(shared, -1, 2*time.Second, prep(i)).line
			o.Sum.Evaluations++
			o.Sum.Hist["type-rebinding-run"]++
			if got != want[i] {
				o.Fail(Failure{Oracle: "runs-isolated", Key: "shared-tree-remembers-types", Input: fmt.Sprintf("%s\n--- one tree, run %d, in an environment where T = %s (earlier runs bound T differently)", src, i+1, presets[i].name),
					Detail: fmt.Sprintf("a freshly parsed tree gives %s; the shared tree gives %s", want[i], got)})
				break
			}
		}
		var wg sync.WaitGroup
		got := make([]string, 8)
		for g := 0; g < 8; g++ {
			wg.Add(1)
			go func(g int) {
				defer wg.Done()
				got[g] = runVMWith(shared, -1, 5*time.Second, prep(g%4)).line
			}(g)
		}
		wg.Wait()
		for g := range got {
			if got[g] != want[g%4] {
				o.Fail(Failure{Oracle: "concurrent-runs-isolated", Key: "shared-tree-remembers-types:concurrent", Input: fmt.Sprintf("%s\n--- one tree, 8 goroutines, T bound to int64/string/float64/[]bool", src),
					Detail: fmt.Sprintf("alone with T = %s: %s; goroutine %d: %s", presets[g%4].name, want[g%4], g, got[g])})
				break
			}
		}
		if after := dumpTree(shared); after != before {
			o.Fail(Failure{Oracle: "tree-unchanged", Key: "tree-modified", Input: src, Detail: "the parsed tree differs after execution: " + firstDiff(before, after)})
		}
		// equal environments: the original, copies taken before any run, an equal new one
		e1 := env.NewEnv()
		prep(0)(e1)
		e2, e3, e4 := e1.DeepCopy(), e1.Copy(), env.NewEnv()
		prep(0)(e4)
		var lines []string
		for _, e := range []*env.Env{e1, e2, e3, e4} {
			lines = append(lines, runVMOn(e, shared, -1, 2*time.Second).line)
		}
		o.Sum.Evaluations++
		o.Sum.Hist["equal-environments"]++
		names := []string{"the environment", "its DeepCopy taken beforehand", "its Copy taken beforehand", "an equal new environment"}
		for i := 1; i < len(lines); i++ {
			if lines[i] != lines[0] {
				o.Fail(Failure{Oracle: "environments-isolated", Key: "env-leak:copy", Input: src + "\n--- run in " + names[0] + ", then in " + names[i],
					Detail: fmt.Sprintf("first: %s; then: %s", lines[0], lines[i])})
				break
			}
		}
		// concurrently on an environment and its deep copy (race detector)
		c1 := env.NewEnv()
		prep(0)(c1)
		c2 := c1.DeepCopy()
		var wg2 sync.WaitGroup
		for _, e := range []*env.Env{c1, c2} {
			wg2.Add(1)
			go func(e *env.Env) {
				defer wg2.Done()
				_ = runVMOn(e, shared, -1, 5*time.Second)
			}(e)
		}
		wg2.Wait()
	}
}

// isolationHistories: what one run does inside function bodies, blocks and modules (types it defines, names it binds, depth
// it recurses to) must not show in an unrelated run in another environment - one after the other and at the same time.
func isolationHistories(o *Out) {
	poisons := []string{
		"func f() {\nmake(type Secret, {\"k\": 1})\nmake(type T, \"s\")\nreturn 1\n}\nf()\nf()",
		"func f(a, b, c, d, e) {\nmake(type Secret, 1.5)\nmake(type T, 1.5)\n}\nf(1, 2, 3, 4, 5)",
		"if true {\nmake(type Secret, 1)\nmake(type T, [1])\n}\nfor i = 0; i < 2; i++ {\nmake(type Secret, i)\n}",
		"module mod {\nmake(type Secret, 1)\nmake(type T, true)\nfunc g() { make(type Secret, 2) }\n}\nmod.g()",
		"func f() {\nvar hidden = 1\nhidden2 = 2\nfunc inner() { make(type Secret, 3) }\ninner()\n}\nf()",
		"go func() {\nmake(type Secret, 4)\n}()\nfunc() {\ndefer func() { make(type T, 5) }()\n}()",
		// stores through everything that evaluates to nil (a missing entry, a function without result, the value of a two-value lookup)
		"conf = {}\ntry {\nconf.db[\"host\"] = 1\n} catch e {\n}\ntry {\nconf[\"db\"][\"port\"] = 1\n} catch e {\n}\ntry {\nconf.db.user = 1\n} catch e {\n}",
		"cache = {}\nentry, ok = cache[\"k\"]\ntry {\nentry[\"n\"] = 1\n} catch e {\n}\ntry {\nentry.m = 1\n} catch e {\n}\nfunc f() { }\ntry {\nf()[\"x\"] = 1\n} catch e {\n}\ntry {\nf().y = 2\n} catch e {\n}",
		"x = nil\ntry {\nx[\"k\"] = 1\n} catch e {\n}\ntry {\nx[0] = 1\n} catch e {\n}\ny = nil\ntry {\ny += [1]\n} catch e {\n}\ntry {\n*y = 3\n} catch e {\n}",
	}
	probes := []string{
		"func g() {\nreturn make(Secret)\n}\ntry {\ng()\nprobe(\"Secret is defined\")\n} catch e {\nprobe(\"undefined\")\n}",
		"make(type T, 7)\nfunc g() {\nreturn make(T)\n}\nprobe(g())\nfunc h(a, b, c, d, e) {\nreturn make([]T, 1)\n}\nprobe(h(1, 2, 3, 4, 5))",
		"func g() {\nreturn [hidden ?? \"unseen\", hidden2 ?? \"unseen\"]\n}\nprobe(g())",
		"func g() {\nif true {\nreturn make(map[string]Secret)\n}\n}\ntry {\ng()\nprobe(\"Secret is defined\")\n} catch e {\nprobe(\"undefined\")\n}",
		"func f() { }\nm = {}\nv, ok = m[\"nope\"]\nprobe([f(), m[\"nope\"], m.nope, v, ok, nil ?? \"dflt\"])",
	}
	var base []string
	var trees []ast.Stmt
	for _, p := range probes {
		st, err := parser.ParseSrc(p)
		if err != nil {
			o.Fail(Failure{Oracle: "isolation-template", Key: "isolation-template-parse", Input: p, Detail: err.Error()})
			return
		}
		trees = append(trees, st)
		base = append(base, runVM(st, -1, 2*time.Second).line)
	}
	for _, ps := range poisons {
		st, err := parser.ParseSrc(ps)
		if err != nil {
			o.Fail(Failure{Oracle: "isolation-template", Key: "isolation-template-parse", Input: ps, Detail: err.Error()})
			continue
		}
		_ = runVM(st, -1, 2*time.Second)
		for i, tr := range trees {
			after := runVM(tr, -1, 2*time.Second).line
			o.Sum.Evaluations++
			o.Sum.Hist["history-probe"]++
			if after != base[i] {
				o.Fail(Failure{Oracle: "environments-isolated", Key: "env-leak:history", Input: ps + "\n--- then, in a fresh environment ---\n" + probes[i],
					Detail: fmt.Sprintf("before the first script ran the probe gave %s; afterwards %s", base[i], after)})
				break
			}
		}
	}
	// many runs that are deep in recursion at the same time: each has its own stack budget
	deep, err := parser.ParseSrc("func r(n) {\nif n == 0 {\npause()\nreturn 0\n}\nreturn 1 + r(n - 1)\n}\nprobe(r(900))")
	if err != nil {
		o.Fail(Failure{Oracle: "isolation-template", Key: "isolation-template-parse", Input: "deep recursion", Detail: err.Error()})
		return
	}
	withPause := func(e *env.Env) { _ = e.Define("pause", func() { time.Sleep(60 * time.Millisecond) }) }
	solo := runVMWith(deep, -1, 5*time.Second, withPause).line
	var wg sync.WaitGroup
	got := make([]string, 24)
	for g := range got {
		wg.Add(1)
		go func(g int) {
			defer wg.Done()
			got[g] = runVMWith(deep, -1, 10*time.Second, withPause).line
		}(g)
	}
	wg.Wait()
	o.Sum.Evaluations++
	o.Sum.Hist["concurrent-deep-recursion"]++
	for g := range got {
		if got[g] != solo {
			o.Fail(Failure{Oracle: "concurrent-runs-isolated", Key: "concurrent-run-differs:deep-recursion", Input: "func r(n) { if n == 0 { pause(); return 0 }; return 1 + r(n - 1) }; probe(r(900))  -- 24 runs at the same time, separate environments",
				Detail: fmt.Sprintf("alone: %s; goroutine %d: %s", solo, g, got[g])})
			break
		}
	}
}
