package main

import (
	"fmt"
	"math/rand"
	"strings"
	"time"

	"github.com/mattn/anko/parser"

	"veriftools/internal/astser"
	"veriftools/internal/vals"
)

func init() { streams["order"] = streamOrder }

// Expression trees whose leaves are probe calls, over every call shape and operator/literal
// form, with an independent reference evaluator predicting the probe order (C07 oracle).
type onode struct {
	kind string
	k    int64
	kids []*onode
	fn   string
	lead int // leadspread: number of leading arguments
}

const orderPreamble = `func f0() { return nil }
func f1(a) { return a }
func f2(a, b) { return a }
func f3(a, b, c) { return a }
func f4(a, b, c, d) { return a }
func f5(a, b, c, d, e) { return a }
func f6(a, b, c, d, e, f) { return a }
func gv(a, rest...) { return a }
func gv0(rest...) { return len(rest) }
`

type ogen struct {
	r *rand.Rand
	n int64
}

func (g *ogen) lit() *onode { g.n++; return &onode{kind: "lit", k: g.n} }

// intExpr: an expression whose value is an int (when it does not fail)
func (g *ogen) intExpr(d int) *onode {
	if d <= 0 {
		if g.r.Intn(3) == 0 {
			return g.lit()
		}
		return &onode{kind: "probe", kids: []*onode{g.lit()}}
	}
	d--
	ints := func(n int) []*onode {
		xs := make([]*onode, n)
		for i := range xs {
			xs[i] = g.intExpr(d)
		}
		return xs
	}
	switch g.r.Intn(35) {
	case 30, 31:
		// f(a, b, [c, d]...): leading arguments, then the spread operand, for a fixed-arity script function (k = parameters,
		// the first kids up to the marker are the leading arguments)
		np := 2 + g.r.Intn(5)
		nl := 1 + g.r.Intn(2)
		return &onode{kind: "leadspread", fn: fmt.Sprintf("f%d", np), k: int64(np), lead: nl, kids: ints(nl + g.r.Intn(np+1))}
	case 34:
		// a + chain whose first partial sum fails (number + list): the operands behind it are not evaluated
		return &onode{kind: "addchainfail", kids: ints(3)}
	case 33:
		// an index expression whose container is not indexable (an integer, nil from a missing map entry): container, then
		// the index operand, THEN the error
		return &onode{kind: "badindex", k: int64(g.r.Intn(2)), kids: ints(2)}
	case 32:
		// x in [e1, e2, ...] with the list written as a literal and a match on the FIRST element: every element is still evaluated
		v := int64(g.r.Intn(5))
		first := &onode{kind: "probe", kids: []*onode{{kind: "lit", k: v}}}
		same := &onode{kind: "probe", kids: []*onode{{kind: "lit", k: v}}}
		return &onode{kind: "inlist", kids: append([]*onode{first, same}, ints(1+g.r.Intn(3))...)}
	case 27:
		// a[low:high] / a[low:high:max]: the bounds are evaluated once each, low first
		return &onode{kind: "slicebounds", k: int64(2 + g.r.Intn(2)), kids: ints(4)}
	case 28, 29:
		// the container and the index of an index expression, also inside the comma-ok form
		return &onode{kind: "indexops", k: int64(g.r.Intn(2)), kids: ints(3)}
	case 23, 24, 25:
		// any strict binary operator: left operand, then right operand (its own value is made irrelevant by gv0)
		ops := []string{"-", "*", "/", "&", "|", "<<", ">>", "<", "<=", ">", ">=", "==", "!=", "in"}
		return &onode{kind: "binop", fn: ops[g.r.Intn(len(ops))], kids: ints(2)}
	case 26:
		// the address of an element handed to a Go function: container and index are evaluated once
		return &onode{kind: "addrarg", kids: ints(2)}
	case 0, 1:
		return &onode{kind: "probe", kids: []*onode{g.intExpr(d)}}
	case 2, 3:
		return &onode{kind: "add", kids: ints(2)}
	case 4:
		return &onode{kind: "tern", kids: []*onode{g.cond(d), g.intExpr(d), g.intExpr(d)}}
	case 5:
		l := g.intExpr(d)
		if g.r.Intn(2) == 0 {
			l = &onode{kind: "nil"}
		}
		return &onode{kind: "nilco", kids: []*onode{l, g.intExpr(d)}}
	case 6:
		n := 1 + g.r.Intn(3)
		return &onode{kind: "index", kids: append(ints(n), &onode{kind: "lit", k: int64(g.r.Intn(n + 1))}), k: int64(n)}
	case 7, 8, 9:
		// script function with exactly its arity, or one more / one less
		np := 1 + g.r.Intn(6)
		na := np
		switch g.r.Intn(6) {
		case 0:
			na = np + 1
		case 1:
			na = np - 1
		}
		return &onode{kind: "call", fn: fmt.Sprintf("f%d", np), k: int64(np), kids: ints(na)}
	case 10:
		return &onode{kind: "callv", fn: "gv", kids: ints(g.r.Intn(4))}
	case 11:
		return &onode{kind: "callv0", fn: "gv0", kids: ints(g.r.Intn(4))}
	case 12:
		// spread call of a fixed-arity script function
		np := 1 + g.r.Intn(6)
		return &onode{kind: "spread", fn: fmt.Sprintf("f%d", np), k: int64(np), kids: ints(np - 1 + g.r.Intn(3))}
	case 13:
		return &onode{kind: "gostub", fn: "probe2", k: 2, kids: ints(1 + g.r.Intn(3))}
	case 14:
		return &onode{kind: "gostub", fn: "probe3", k: 3, kids: ints(2 + g.r.Intn(3))}
	case 15:
		return &onode{kind: "govar", fn: "vprobe", k: 0, kids: ints(g.r.Intn(4))}
	case 16:
		return &onode{kind: "govar", fn: "fv", k: 1, kids: ints(g.r.Intn(4))}
	case 17:
		return &onode{kind: "gostub", fn: "typed", k: 1, kids: ints(1)}
	case 18:
		// conversion failure in argument position 2 of typed2(a, int64): later work is skipped
		return &onode{kind: "failconv", kids: ints(1)}
	case 19:
		return &onode{kind: "gospread", fn: "probe2", k: 2, kids: ints(1 + g.r.Intn(3))}
	case 20:
		return &onode{kind: "govspread", fn: "vprobe", kids: ints(g.r.Intn(3))}
	case 21:
		// typed variadic Go function: arguments converted one by one, as they are evaluated; k = position of a
		// value that does not convert (or -1)
		n := 1 + g.r.Intn(4)
		bad := int64(-1)
		if g.r.Intn(2) == 0 {
			bad = int64(g.r.Intn(n))
		}
		return &onode{kind: "vtyped", fn: "vtyped", k: bad, kids: ints(n)}
	}
	return g.lit()
}

func (g *ogen) cond(d int) *onode {
	c := &onode{kind: "lit", k: int64(g.r.Intn(2))}
	switch g.r.Intn(4) {
	case 0:
		return &onode{kind: "probe", kids: []*onode{c}}
	case 1:
		return &onode{kind: "and", kids: []*onode{g.condLeaf(), g.condLeaf()}}
	case 2:
		return &onode{kind: "or", kids: []*onode{g.condLeaf(), g.condLeaf()}}
	}
	return c
}

func (g *ogen) condLeaf() *onode {
	return &onode{kind: "probe", kids: []*onode{{kind: "lit", k: int64(g.r.Intn(2))}}}
}

func joinKids(ks []*onode) string {
	xs := make([]string, len(ks))
	for i, k := range ks {
		xs[i] = k.src()
	}
	return strings.Join(xs, ", ")
}

func (n *onode) src() string {
	switch n.kind {
	case "lit":
		return fmt.Sprint(n.k)
	case "nil":
		return "nil"
	case "probe":
		return "probe(" + n.kids[0].src() + ")"
	case "add":
		return "(" + n.kids[0].src() + " + " + n.kids[1].src() + ")"
	case "and":
		return "(" + n.kids[0].src() + " && " + n.kids[1].src() + ")"
	case "or":
		return "(" + n.kids[0].src() + " || " + n.kids[1].src() + ")"
	case "tern":
		return "(" + n.kids[0].src() + " ? " + n.kids[1].src() + " : " + n.kids[2].src() + ")"
	case "nilco":
		return "(" + n.kids[0].src() + " ?? " + n.kids[1].src() + ")"
	case "index":
		m := len(n.kids) - 1
		return "[" + joinKids(n.kids[:m]) + "][" + n.kids[m].src() + "]"
	case "call", "callv", "callv0", "gostub", "govar":
		return n.fn + "(" + joinKids(n.kids) + ")"
	case "spread", "gospread", "govspread":
		return n.fn + "([" + joinKids(n.kids) + "]...)"
	case "leadspread":
		return n.fn + "(" + joinKids(n.kids[:n.lead]) + ", [" + joinKids(n.kids[n.lead:]) + "]...)"
	case "inlist":
		return "gv0(" + n.kids[0].src() + " in [" + joinKids(n.kids[1:]) + "])"
	case "addchainfail":
		return "gv0(" + n.kids[0].src() + " + [" + n.kids[1].src() + "] + " + n.kids[2].src() + ")"
	case "badindex":
		if n.k == 0 {
			return "(" + n.kids[0].src() + ")[" + n.kids[1].src() + "]"
		}
		return "{\"k\": " + n.kids[0].src() + "}[\"missing\"][" + n.kids[1].src() + "]"
	case "binop":
		r := n.kids[1].src()
		if n.fn == "in" {
			r = "[" + r + "]"
		}
		return "gv0(" + n.kids[0].src() + " " + n.fn + " " + r + ")"
	case "addrarg":
		return "gv0(id(&[" + n.kids[0].src() + ", 7][0 * " + n.kids[1].src() + "]))"
	case "slicebounds":
		b := "[" + n.kids[0].src() + ", 0, 0, 0][0 * " + n.kids[1].src() + ":0 * " + n.kids[2].src() + " + 1"
		if n.k == 3 {
			b += ":0 * " + n.kids[3].src() + " + 2"
		}
		return "gv0(" + b + "])"
	case "indexops":
		if n.k == 1 {
			// the comma-ok statement form, as an expression through a function literal
			return "gv0(func() {\nq1, q2 = [" + n.kids[0].src() + ", " + n.kids[1].src() + "][0 * " + n.kids[2].src() + "]\nreturn q1\n}())"
		}
		return "gv0([" + n.kids[0].src() + ", " + n.kids[1].src() + "][0 * " + n.kids[2].src() + "])"
	case "failconv":
		return "typed2(" + n.kids[0].src() + ", \"notanint\")"
	case "vtyped":
		xs := make([]string, len(n.kids))
		for i, k := range n.kids {
			xs[i] = k.src()
			if int64(i) == n.k {
				xs[i] = "[" + k.src() + "]" // a list does not convert to int64
			}
		}
		return "vtyped(" + strings.Join(xs, ", ") + ")"
	}
	return "?"
}

// ref evaluates the node: value (int64, nil or bool) and whether it failed; appends the probe trace.
func (n *onode) ref(tr *[]string) (interface{}, bool) {
	evalAll := func(ks []*onode) ([]interface{}, bool) {
		vs := make([]interface{}, 0, len(ks))
		for _, k := range ks {
			v, bad := k.ref(tr)
			if bad {
				return nil, true
			}
			vs = append(vs, v)
		}
		return vs, false
	}
	record := func(vs []interface{}) {
		for _, v := range vs {
			*tr = append(*tr, vals.Encode(v))
		}
	}
	truth := func(v interface{}) bool {
		switch x := v.(type) {
		case int64:
			return x != 0
		case bool:
			return x
		}
		return false
	}
	switch n.kind {
	case "lit":
		return n.k, false
	case "nil":
		return nil, false
	case "probe":
		v, bad := n.kids[0].ref(tr)
		if bad {
			return nil, true
		}
		*tr = append(*tr, vals.Encode(v))
		return v, false
	case "add":
		vs, bad := evalAll(n.kids)
		if bad {
			return nil, true
		}
		a, _ := vs[0].(int64)
		b, _ := vs[1].(int64)
		return a + b, false
	case "and":
		l, bad := n.kids[0].ref(tr)
		if bad {
			return nil, true
		}
		if !truth(l) {
			return false, false
		}
		r, bad := n.kids[1].ref(tr)
		return truth(r), bad
	case "or":
		l, bad := n.kids[0].ref(tr)
		if bad {
			return nil, true
		}
		if truth(l) {
			return true, false
		}
		r, bad := n.kids[1].ref(tr)
		return truth(r), bad
	case "tern":
		c, bad := n.kids[0].ref(tr)
		if bad {
			return nil, true
		}
		if truth(c) {
			return n.kids[1].ref(tr)
		}
		return n.kids[2].ref(tr)
	case "nilco":
		l, bad := n.kids[0].ref(tr)
		if !bad && l != nil {
			return l, false
		}
		return n.kids[1].ref(tr)
	case "index":
		m := len(n.kids) - 1
		vs, bad := evalAll(n.kids)
		if bad {
			return nil, true
		}
		idx := vs[m].(int64)
		if idx < 0 || int(idx) >= m {
			return nil, true
		}
		return vs[idx], false
	case "call":
		if len(n.kids) != int(n.k) {
			return nil, true // rejected for its argument count: nothing evaluated
		}
		vs, bad := evalAll(n.kids)
		if bad {
			return nil, true
		}
		return vs[0], false
	case "callv":
		if len(n.kids) < 1 {
			return nil, true
		}
		vs, bad := evalAll(n.kids)
		if bad {
			return nil, true
		}
		return vs[0], false
	case "callv0":
		vs, bad := evalAll(n.kids)
		if bad {
			return nil, true
		}
		return int64(len(vs)), false
	case "leadspread":
		// leading arguments left to right, then the elements of the spread list; together they must supply the parameters
		// (more argument expressions than parameters: rejected for its argument count, nothing is evaluated)
		if n.lead+1 > int(n.k) {
			return nil, true
		}
		vs, bad := evalAll(n.kids)
		if bad {
			return nil, true
		}
		if len(vs) < int(n.k) {
			return nil, true
		}
		return vs[0], false
	case "addchainfail":
		evalAll(n.kids[:2])
		return nil, true
	case "badindex":
		evalAll(n.kids)
		return nil, true
	case "binop", "addrarg", "indexops", "inlist":
		if _, bad := evalAll(n.kids); bad {
			return nil, true
		}
		return int64(1), false
	case "slicebounds":
		ks := n.kids[:3]
		if n.k == 3 {
			ks = n.kids[:4]
		}
		if _, bad := evalAll(ks); bad {
			return nil, true
		}
		return int64(1), false
	case "spread":
		// f([a, b, ...]...) : the list is evaluated, then it must supply at least the parameters
		vs, bad := evalAll(n.kids)
		if bad {
			return nil, true
		}
		if len(vs) < int(n.k) {
			return nil, true
		}
		return vs[0], false
	case "gostub":
		if len(n.kids) != int(n.k) {
			return nil, true
		}
		vs, bad := evalAll(n.kids)
		if bad {
			return nil, true
		}
		record(vs)
		return vs[0], false
	case "govar":
		if len(n.kids) < int(n.k) {
			return nil, true
		}
		vs, bad := evalAll(n.kids)
		if bad {
			return nil, true
		}
		record(vs)
		if n.fn == "vprobe" {
			return int64(len(vs)), false
		}
		return vs[0], false
	case "gospread":
		vs, bad := evalAll(n.kids)
		if bad {
			return nil, true
		}
		if len(vs) < int(n.k) {
			return nil, true
		}
		record(vs[:n.k])
		return vs[0], false
	case "govspread":
		vs, bad := evalAll(n.kids)
		if bad {
			return nil, true
		}
		record(vs)
		return int64(len(vs)), false
	case "failconv":
		if _, bad := n.kids[0].ref(tr); bad {
			return nil, true
		}
		return nil, true // "notanint" does not convert to int64: the stub is never called
	case "vtyped":
		var vs []interface{}
		for i, k := range n.kids {
			v, bad := k.ref(tr)
			if bad {
				return nil, true
			}
			if int64(i) == n.k {
				return nil, true // this argument does not convert: later arguments are not evaluated, the function is not called
			}
			vs = append(vs, v)
		}
		record(vs)
		return int64(len(vs)), false
	}
	return nil, true
}

// operand order in statements whose operands interact: `x op= e` stands for `x = x op e` (x is read BEFORE e runs; an undefined
// x fails before e runs); the operands of an assignment TARGET are evaluated once, also when the store has to replace the
// container it found (append at index len, first store into a nil map, string element)
var orderTemplates = []struct {
	src  string
	want []string
}{
	{"x = 1\nfunc bump() {\nx = 100\nreturn probe(5)\n}\nx += bump()\nprobe(x)", []string{"(i 5)", "(i 6)"}},
	// an operand written twice is evaluated twice: `x ? x : y` evaluates x as the condition and again as the chosen operand
	{"a = [5]\nr = a[probe(0)] ? a[probe(0)] : 9\nprobe(r)", []string{"(i 0)", "(i 0)", "(i 5)"}},
	{"m = {\"in\": {\"k\": 3}}\nr = m[probe(\"in\")].k ? m[probe(\"in\")].k : 0\nprobe(r)", []string{"(s 696e)", "(s 696e)", "(i 3)"}},
	{"a = [0, 7]\nr = a[probe(0)] ? a[probe(0)] : a[probe(1)]\nprobe(r)", []string{"(i 0)", "(i 1)", "(i 7)"}},
	{"a = [5]\nr = (a[probe(0)]) ? a[probe(0)] : 9\nr2 = a[probe(0)] ?? a[probe(0)]\nprobe([r, r2])", []string{"(i 0)", "(i 0)", "(i 0)", "(l (i 5) (i 5))"}},
	// a call through a function value that is nil fails as a call: its arguments have been evaluated, once, in order
	{"try {\nwantsnil(probe(1), probe(2))\n} catch e {\nprobe(-1)\n}", []string{"(i 1)", "(i 2)", "(i -1)"}},
	{"try {\nwantsnilv(probe(1), probe(2), probe(3))\n} catch e {\nprobe(-1)\n}", []string{"(i 1)", "(i 2)", "(i 3)", "(i -1)"}},
	{"x = wantsnil(probe(1), probe(2)) ?? probe(3)\nprobe(x)", []string{"(i 1)", "(i 2)", "(i 3)", "(i 3)"}},
	{"go wantsnil(probe(1), probe(2))\nprobe(3)", []string{"(i 1)", "(i 2)", "(i 3)"}},
	{"l = [wantsnil]\ntry {\nl[0](probe(1), probe(2))\n} catch e {\nprobe(-1)\n}", []string{"(i 1)", "(i 2)", "(i -1)"}},
	{"x = 10\nfunc bump() {\nx = 100\nreturn probe(1)\n}\nx -= bump()\nprobe(x)", []string{"(i 1)", "(i 9)"}},
	{"x = 2\nfunc bump() {\nx = 100\nreturn probe(3)\n}\nx *= bump()\nprobe(x)", []string{"(i 3)", "(i 6)"}},
	{"try {\nnosuch += probe(1)\n} catch e {\nprobe(-1)\n}", []string{"(i -1)"}},
	{"try {\nnosuch -= probe(1)\n} catch e {\nprobe(-1)\n}", []string{"(i -1)"}},
	{"s = \"a\"\nfunc t() {\ns = \"z\"\nreturn probe(\"b\")\n}\ns += t()\nprobe(s)", []string{"(s 62)", "(s 6162)"}},
	{"a = [[1]]\nfunc k() {\nprobe(7)\nreturn 0\n}\na[k()][1] = 2\nprobe(a)", []string{"(i 7)", "(l (l (i 1) (i 2)))"}},
	{"a = [[1], [5]]\nn = 0\nfunc k() {\nn++\nreturn n - 1\n}\na[k()][1] = 2\nprobe([a, n])", []string{"(l (l (l (i 1) (i 2)) (l (i 5))) (i 1))"}},
	{"ms = make([]map[string]int64, 2)\nn = 0\nfunc k() {\nn++\nreturn n - 1\n}\nms[k()][\"x\"] = 1\nprobe([len(ms[0]), len(ms[1]), n])", []string{"(l (i 1) (i 0) (i 1))"}},
	{"ss = [\"ab\", \"cd\"]\nn = 0\nfunc k() {\nn++\nreturn n - 1\n}\nss[k()][2] = \"!\"\nprobe([ss, n])", []string{"(l (l (s 616221) (s 6364)) (i 1))"}},
	// `target op= e` and `target++` evaluate the operands of the TARGET once (known finding C07: the grammar expands them to
	// `target = target op e` sharing the target's subtree, which the interpreter evaluates for the read and again for the store)
	{"r = [0, 0]\nn = 0\nfunc k() {\nn++\nreturn 0\n}\nr[k()] += 5\nprobe([r, n])", []string{"(l (l (i 5) (i 0)) (i 1))"}},
	{"q = [0, 0]\nn = 0\nfunc k() {\nn++\nreturn 0\n}\nq[k()]++\nprobe([q, n])", []string{"(l (l (i 1) (i 0)) (i 1))"}},
	{"rc = [0, 0, 0]\na = make(chan int64, 3)\na <- 0\na <- 1\na <- 2\nrc[<-a] += 5\nprobe([rc, len(a)])", []string{"(l (l (i 5) (i 0) (i 0)) (i 2))"}},
	// a literal is evaluated every time control reaches it - also one made of signs and negations only, in a loop, in a function called again
	{"r = 0\nfor i = 0; i < 3; i++ {\nx = [-probe(i), 1]\nr += x[0]\n}\nprobe(r)", []string{"(i 0)", "(i 1)", "(i 2)", "(i -3)"}},
	{"func f() {\nreturn [!probe(true), -probe(2), ^probe(0)]\n}\nf()\nf()\nprobe(9)", []string{"(b 1)", "(i 2)", "(i 0)", "(b 1)", "(i 2)", "(i 0)", "(i 9)"}},
	{"n = 0\nfunc next() {\nn++\nreturn n\n}\nfunc g() {\nreturn [-next()]\n}\nprobe([g(), g(), g()])", []string{"(l (l (i -1)) (l (i -2)) (l (i -3)))"}},
	{"for k in [1, 2] {\nm = {\"a\": -probe(k)}\n}", []string{"(i 1)", "(i 2)"}},
	// the operand of a slice expression is evaluated once, whichever bounds are written
	{"func pop() {\nprobe(\"pop\")\nreturn [1, 2, 3]\n}\nprobe(pop()[probe(1):])", []string{"(s 706f70)", "(i 1)", "(l (i 2) (i 3))"}},
	{"func pop() {\nprobe(\"pop\")\nreturn [1, 2, 3]\n}\nprobe(pop()[:probe(2)])", []string{"(s 706f70)", "(i 2)", "(l (i 1) (i 2))"}},
	{"func pop() {\nprobe(\"pop\")\nreturn \"abc\"\n}\nprobe(pop()[probe(0):probe(1)])", []string{"(s 706f70)", "(i 0)", "(i 1)", "(s 61)"}},
	{"q = [[1, 2], [3, 4, 5]]\nn = 0\nfunc take() {\nn++\nreturn q[n - 1]\n}\nprobe([take()[1:], n])", []string{"(l (l (i 2)) (i 1))"}},
	// an argument a Go function's parameter does not accept is evaluated once, the call fails, nothing is evaluated again
	{"try {\nwantsptr(probe(1))\n} catch e {\nprobe(-1)\n}", []string{"(i 1)", "(i -1)"}},
	{"n = 0\nfunc k() {\nn++\nreturn n\n}\ntry {\nwantsptr(k())\n} catch e {\nprobe(-1)\n}\nprobe(n)", []string{"(i -1)", "(i 1)"}},
	{"a = [1, 2]\ntry {\nwantsptr(a[probe(0)])\n} catch e {\nprobe(-1)\n}", []string{"(i 0)", "(i -1)"}},
	{"try {\nwantsptr2(probe(1), probe(2))\n} catch e {\nprobe(-1)\n}", []string{"(i 1)", "(i 2)", "(i -1)"}},
	{"c = make(chan int64, 2)\nc <- 1\nc <- 2\ntry {\nwantsptr(<-c)\n} catch e {\nprobe(-1)\n}\nprobe(len(c))", []string{"(i -1)", "(i 1)"}},
	{"x = 5\ntry {\nwantsptr(x++)\n} catch e {\nprobe(-1)\n}\nprobe(x)", []string{"(i -1)", "(i 6)"}},
	{"try {\nwantsstr(probe(1))\n} catch e {\nprobe(-1)\n}", []string{"(i 1)", "(i -1)"}},
	{"try {\nwantsints(probe(1), probe(2))\n} catch e {\nprobe(-1)\n}", []string{"(i 1)", "(i -1)"}},
	{"try {\nwantsints([probe(1), probe(\"x\")], probe(2))\n} catch e {\nprobe(-1)\n}", []string{"(i 1)", "(s 78)", "(i -1)"}},
	{"func f() {\ngo wantsptr(probe(1))\n}\ntry {\nf()\n} catch e {\nprobe(-1)\n}", []string{"(i 1)", "(i -1)"}},
	{"func f() {\ndefer wantsptr(probe(1))\nprobe(2)\n}\ntry {\nf()\n} catch e {\nprobe(-1)\n}", []string{"(i 1)", "(i -1)"}},
	{"st = [{\"l\": [1]}]\nn = 0\nfunc k() {\nn++\nreturn 0\n}\nst[k()].l[1] = 2\nprobe([st[0].l, n])", []string{"(l (l (i 1) (i 2)) (i 1))"}},
}

func streamOrder(o *Out, r *rand.Rand, n int, thorough bool) {
	o.Sum.Rule = "statements built from expression trees whose leaves are probe calls: script functions of 0-6 parameters (direct path and reflect path), variadic script " +
		"functions, Go functions fixed / variadic, spread calls, wrong argument counts, a failing conversion in a later argument, + ?: ?? && || index, list and map " +
		"literals, return lists, multi-assignment, defer; each statement in its own try so that errors are observable; expected probe order from an independent " +
		"reference evaluator; distinct by request hash"
	// fixed forms with their reference traces
	for _, c := range orderTemplates {
		st, err := parser.ParseSrc(c.src)
		if err != nil {
			o.Fail(Failure{Oracle: "order-template-parses", Key: "order-template-parse", Input: c.src, Detail: err.Error()})
			continue
		}
		res := runVM(st, -1, 3*time.Second)
		if strings.Contains(c.src, "wants") {
			o.Sum.Evaluations++ // these host functions are not part of the model: reference trace only
		} else {
			o.Case(fmt.Sprintf("(run %d _ %s)", modelFuel, astser.Prog(st)), res.line, c.src, true)
		}
		o.Sum.Hist["order-template"]++
		if res.hung || res.panicked || res.err != nil || strings.Join(c.want, " ") != strings.Join(res.trace, " ") {
			o.Fail(Failure{Oracle: "order-reference-trace", Key: "order-template:" + firstLine(c.src), Input: c.src,
				Detail: fmt.Sprintf("expected probe order %v, interpreter produced %v (err %v)", c.want, res.trace, res.err)})
		}
	}
	for i := 0; i < n; i++ {
		g := &ogen{r: r}
		var b strings.Builder
		b.WriteString(orderPreamble)
		var want []string
		ns := 1 + r.Intn(3)
		for j := 0; j < ns; j++ {
			d := 1 + r.Intn(3)
			var stmt string
			bad := false
			switch r.Intn(12) {
			case 8, 9: // typed map / slice literals: key_i then value_i, elements in order
				ks := []*onode{g.intExpr(d), g.intExpr(d), g.intExpr(d), g.intExpr(d)}
				if r.Intn(2) == 0 {
					stmt = "map[int64]interface{" + ks[0].src() + ": " + ks[1].src() + ", " + ks[2].src() + ": " + ks[3].src() + "}"
				} else {
					stmt = "[]interface{" + joinKids(ks) + "}"
				}
				for _, k := range ks {
					if _, bd := k.ref(&want); bd {
						bad = true
						break
					}
				}
			case 7: // go call of a script function: the caller evaluates the arguments once, in order, before the goroutine starts
				np := 1 + r.Intn(6)
				ks := make([]*onode, np)
				for a := range ks {
					ks[a] = g.intExpr(d)
				}
				fn := fmt.Sprintf("f%d", np)
				switch r.Intn(4) {
				case 0:
					fn = "gv"
				case 1:
					fn = "func(" + strings.Join([]string{"a", "b", "c", "d", "e", "f"}[:np], ", ") + ") { return a }"
				}
				stmt = "go " + fn + "(" + joinKids(ks) + ")"
				for _, k := range ks {
					if _, bd := k.ref(&want); bd {
						bad = true
						break
					}
				}
			case 0: // list literal
				ks := []*onode{g.intExpr(d), g.intExpr(d), g.intExpr(d)}
				stmt = "[" + joinKids(ks) + "]"
				for _, k := range ks {
					if _, bd := k.ref(&want); bd {
						bad = true
						break
					}
				}
			case 1: // map literal: key_i then value_i
				ks := []*onode{g.intExpr(d), g.intExpr(d), g.intExpr(d), g.intExpr(d)}
				stmt = "{" + ks[0].src() + ": " + ks[1].src() + ", " + ks[2].src() + ": " + ks[3].src() + "}"
				for _, k := range ks {
					if _, bd := k.ref(&want); bd {
						bad = true
						break
					}
				}
			case 2: // return list from a function literal
				ks := []*onode{g.intExpr(d), g.intExpr(d)}
				stmt = "func() { return " + joinKids(ks) + " }()"
				for _, k := range ks {
					if _, bd := k.ref(&want); bd {
						bad = true
						break
					}
				}
			case 3: // multi-assignment right-hand side
				ks := []*onode{g.intExpr(d), g.intExpr(d)}
				stmt = "ma, mb = " + joinKids(ks)
				for _, k := range ks {
					if _, bd := k.ref(&want); bd {
						bad = true
						break
					}
				}
			case 11: // one right side for several targets: evaluated once, whatever it yields (a number, nil, an empty list)
				e1 := g.intExpr(d)
				switch r.Intn(4) {
				case 0:
					stmt = "ma, mb = " + e1.src() + "\nprobe(ma)"
				case 1:
					stmt = "var mc, md, me = " + e1.src() + "\nprobe(mc)"
				case 2:
					stmt = "ma, mb = (nil ?? " + e1.src() + ")\nprobe(ma)"
				default:
					stmt = "var mc, md = id(nil ?? " + e1.src() + ")\nprobe(mc)"
				}
				v, bd := e1.ref(&want)
				bad = bd
				if !bad {
					want = append(want, vals.Encode(v))
				}
			case 10: // defer of a Go function with typed parameters: a value that does not convert fails AT THE DEFER STATEMENT,
				// the operands after it and the rest of the body do not run
				e1, e2 := g.intExpr(d), g.intExpr(d)
				switch r.Intn(3) {
				case 0:
					stmt = "func() { defer vtyped(" + e1.src() + ", \"notanint\", " + e2.src() + "); probe(-5) }()"
					_, _ = e1.ref(&want)
				case 1:
					stmt = "func() { defer typed2(" + e1.src() + ", \"notanint\"); probe(-5) }()"
					_, _ = e1.ref(&want)
				default:
					// the list literal is evaluated (it is an operand), then it does not convert to int64
					stmt = "func() { defer typed2(" + e1.src() + ", [" + e2.src() + "]); probe(-5) }()"
					if _, b1 := e1.ref(&want); !b1 {
						_, _ = e2.ref(&want)
					}
				}
				bad = true
			case 4: // defer: arguments now, the call (a probe2 recording them) when the try block... at program end
				ks := []*onode{g.intExpr(d), g.intExpr(d)}
				stmt = "func() { defer probe2(" + joinKids(ks) + "); probe(-5) }()"
				var vs []interface{}
				for _, k := range ks {
					v, bd := k.ref(&want)
					if bd {
						bad = true
						break
					}
					vs = append(vs, v)
				}
				if !bad {
					want = append(want, vals.Encode(int64(-5)))
					for _, v := range vs {
						want = append(want, vals.Encode(v))
					}
				}
			default:
				e := g.intExpr(d + 1)
				stmt = e.src()
				_, bad = e.ref(&want)
			}
			b.WriteString("try {\n" + stmt + "\n} catch e {\nprobe(-1)\n}\n")
			if bad {
				want = append(want, vals.Encode(int64(-1)))
			}
		}
		src := b.String()
		st, err := parser.ParseSrc(src)
		if err != nil {
			o.Fail(Failure{Oracle: "order-template-parses", Key: "order-template-parse", Input: src, Detail: err.Error()})
			continue
		}
		res := runVM(st, -1, 3*time.Second)
		o.Case(fmt.Sprintf("(run %d _ %s)", modelFuel, astser.Prog(st)), res.line, src, len(want) > 1)
		o.Sum.Hist[fmt.Sprintf("probes:%d", min(len(want)/5*5, 40))]++
		if res.hung || res.panicked {
			o.Fail(Failure{Oracle: "no-panic", Key: "order-panic", Input: src, Detail: fmt.Sprint(res.panicVal, res.hung)})
			continue
		}
		if strings.Join(want, " ") != strings.Join(res.trace, " ") || res.err != nil {
			o.Fail(Failure{Oracle: "order-reference-trace", Key: "order-trace", Input: src, Detail: fmt.Sprintf("reference evaluator expects probe order %v, interpreter produced %v (err %v)", want, res.trace, res.err)})
		}
	}
}
