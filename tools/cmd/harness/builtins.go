package main

import (
	"bytes"
	"errors"
	"fmt"
	"math"
	"math/big"
	"math/rand"
	"net/url"
	"os"
	"reflect"
	"regexp"
	"runtime"
	"sort"
	"strconv"
	"strings"
	"time"

	"github.com/mattn/anko/core"
	"github.com/mattn/anko/env"
	_ "github.com/mattn/anko/packages"

	"veriftools/internal/vals"
)

func init() { streams["builtins"] = streamBuiltins }

func coreEnv(e *env.Env) { core.Import(e) }

// refRange: the arithmetic progression start, start+step, ... strictly before stop (big.Int arithmetic).
// lastRefOverflow: the last reference progression ended because the next element leaves int64
var lastRefOverflow bool

func refRange(start, stop, step int64, limit int) ([]int64, bool) {
	lastRefOverflow = false
	var out []int64
	i := big.NewInt(start)
	st := big.NewInt(stop)
	sp := big.NewInt(step)
	for {
		if step > 0 && i.Cmp(st) >= 0 || step < 0 && i.Cmp(st) <= 0 {
			return out, true
		}
		if !i.IsInt64() {
			lastRefOverflow = true
			return out, true
		}
		out = append(out, i.Int64())
		if len(out) > limit {
			return nil, false
		}
		i = new(big.Int).Add(i, sp)
		if !i.IsInt64() {
			lastRefOverflow = true
		}
	}
}

func streamBuiltins(o *Out, r *rand.Rand, n int, thorough bool) {
	o.Sum.Rule = "range over int64 triples (boundary starts x steps of both signs incl. extremes x stops a bounded number of steps away, plus 1-/2-argument and error forms); " +
		"toInt/toFloat/toString/toBool/typeOf/kindOf/len/keys over the whole value pool; misuse forms; non-trivial = all; distinct by request hash"
	steps := []int64{1, 2, 3, 7, -1, -2, -3, 1 << 40, -(1 << 40), math.MaxInt64, math.MinInt64, math.MaxInt64 - 1, 1 << 62, -(1 << 62)}
	timeouts := 0
	emitRange := func(args []int64) {
		if timeouts >= 3 && len(args) == 3 && args[2] != 0 {
			// after three non-terminating calls do not wait for every further wrap-around case
			if refRange(args[0], args[1], args[2], 100000); lastRefOverflow {
				o.Sum.Skipped++
				return
			}
		}
		sx := make([]string, len(args))
		for i, a := range args {
			sx[i] = fmt.Sprint(a)
			if a == math.MinInt64 {
				sx[i] = "(-9223372036854775807 - 1)"
			} else if a < 0 {
				sx[i] = "(" + sx[i] + ")"
			}
		}
		src := "range(" + strings.Join(sx, ", ") + ")"
		// isolated: a range that never returns (or exhausts memory) must not take the harness down
		ans := runIsolated(src, "core", 3*time.Second)
		for i, a := range args {
			sx[i] = fmt.Sprint(a)
		}
		o.Case("(range "+strings.Join(sx, " ")+")", ans, src, true)
		o.Sum.Hist[fmt.Sprintf("range-args:%d", len(args))]++
		var out outcome
		switch {
		case strings.HasPrefix(ans, "panic"):
			o.Fail(Failure{Oracle: "no-panic", Key: "panic:range", Input: src, Detail: ans})
			return
		case ans == "timeout" || strings.HasPrefix(ans, "crashed"):
			timeouts++
			o.Fail(Failure{Oracle: "range-terminates", Key: "range-nontermination", Input: src, Detail: "range did not return within 3s or exhausted memory: " + ans})
			return
		case strings.HasPrefix(ans, "err "):
			out.err = fmt.Errorf("%s", ans[4:])
		default:
			out.val = parseIntList(ans)
		}
		var start, stop, step int64 = 0, 0, 1
		switch len(args) {
		case 1:
			stop = args[0]
		case 2:
			start, stop = args[0], args[1]
		case 3:
			start, stop, step = args[0], args[1], args[2]
		default:
			if out.err == nil {
				o.Fail(Failure{Oracle: "range-arity", Key: "range-arity", Input: src, Detail: "no error for wrong argument count"})
			}
			return
		}
		if step == 0 {
			if out.err == nil {
				o.Fail(Failure{Oracle: "range-zero-step", Key: "range-zero-step", Input: src + fmt.Sprint(args), Detail: "no error for zero step"})
			}
			return
		}
		want, ok := refRange(start, stop, step, 100000)
		if !ok {
			return
		}
		got, isList := out.val.([]int64)
		if out.err != nil || !isList || len(got) != len(want) {
			o.Fail(Failure{Oracle: "range-progression", Key: "range-wrong", Input: src + " with " + fmt.Sprint(args), Detail: fmt.Sprintf("want %v elements %v..., got %v err=%v", len(want), head(want), out.val, out.err)})
			return
		}
		for i := range want {
			if got[i] != want[i] {
				o.Fail(Failure{Oracle: "range-progression", Key: "range-wrong", Input: src + " with " + fmt.Sprint(args), Detail: fmt.Sprintf("element %d: want %d got %d", i, want[i], got[i])})
				return
			}
		}
	}
	// systematic: boundary starts x steps x stops within k steps
	for _, st := range vals.Ints {
		for _, sp := range steps {
			for _, k := range []int64{-1, 0, 1, 2, 5} {
				// stop = st + k*sp + d, computed with saturation
				for _, d := range []int64{-1, 0, 1} {
					b := new(big.Int).Mul(big.NewInt(k), big.NewInt(sp))
					b.Add(b, big.NewInt(st))
					b.Add(b, big.NewInt(d))
					var stop int64
					switch {
					case b.Cmp(big.NewInt(math.MaxInt64)) > 0:
						stop = math.MaxInt64
					case b.Cmp(big.NewInt(math.MinInt64)) < 0:
						stop = math.MinInt64
					default:
						stop = b.Int64()
					}
					// bound the length
					if _, ok := refRange(st, stop, sp, 2000); !ok {
						continue
					}
					emitRange([]int64{st, stop, sp})
				}
			}
		}
	}
	for i := 0; i < n/4; i++ {
		st := vals.Ints[r.Intn(len(vals.Ints))]
		sp := steps[r.Intn(len(steps))]
		if r.Intn(3) == 0 {
			sp = int64(r.Intn(21) - 10)
		}
		stop := st + int64(r.Intn(200)-100)*sp/1 // may wrap: fine, any int64 triple is a legal input
		if sp != 0 {
			if _, ok := refRange(st, stop, sp, 2000); !ok {
				continue
			}
		}
		switch r.Intn(6) {
		case 0:
			if _, ok := refRange(0, stop, 1, 2000); ok {
				emitRange([]int64{stop})
			}
		case 1:
			if _, ok := refRange(st, stop, 1, 2000); ok {
				emitRange([]int64{st, stop})
			}
		default:
			emitRange([]int64{st, stop, sp})
		}
	}
	emitRange(nil)
	emitRange([]int64{1, 2, 3, 4})
	emitRange([]int64{1, 5, 0})

	checkTables := func(when string) {
		// package tables: every function offered to import is the Go function whose name it is listed under
		pkgNames := make([]string, 0, len(env.Packages))
		for p := range env.Packages {
			pkgNames = append(pkgNames, p)
		}
		sort.Strings(pkgNames)
		for _, p := range pkgNames {
			for k, v := range env.Packages[p] {
				o.Sum.Evaluations++
				o.Sum.Hist["package-entries"]++
				if v.Kind() != reflect.Func || v.IsNil() {
					continue
				}
				fn := runtime.FuncForPC(v.Pointer())
				if fn == nil {
					continue
				}
				name := fn.Name() // e.g. strings.Contains, net/http.Get, github.com/mattn/anko/packages.init.func1
				if strings.Contains(name, "mattn/anko/packages") || strings.Contains(name, "-fm") || strings.Contains(name, ".func") {
					continue // helper defined in packages/ itself or a method value
				}
				if i := strings.Index(name, "["); i >= 0 {
					name = name[:i] // generic instantiation
				}
				if name != p+"."+k {
					o.Fail(Failure{Oracle: "package-symbol-identity", Key: "package-symbol:" + p + "." + k, Input: fmt.Sprintf("%simport(%q).%s", when, p, k), Detail: "is bound to Go function " + name})
				}
			}
			for k, t := range env.PackageTypes[p] {
				o.Sum.Evaluations++
				o.Sum.Hist["package-type-entries"]++
				depth := 0
				for t.Kind() == reflect.Ptr {
					t = t.Elem()
					depth++
				}
				// the listed type itself, not a pointer to it - except the types deliberately registered as pointers
				wantDepth := 0
				if p == "sync" || (p == "sort" && k == "SortFuncsStruct") {
					wantDepth = 1
				}
				if depth != wantDepth {
					o.Fail(Failure{Oracle: "package-symbol-identity", Key: "package-type-indirection:" + p + "." + k,
						Input:  fmt.Sprintf("pk = import(%q)\ntypeOf(make([]pk.%s, 1))", p, k),
						Detail: fmt.Sprintf("the entry is %d pointer level(s) away from the Go type %s.%s it is listed under (expected %d)", depth, p, k, wantDepth)})
				}
				if t.PkgPath() == "" || strings.Contains(t.PkgPath(), "mattn/anko/packages") || (p == "os" && k == "Signal") {
					continue
				}
				if t.Name() != k || t.PkgPath() != p {
					o.Fail(Failure{Oracle: "package-symbol-identity", Key: "package-type:" + p + "." + k, Input: fmt.Sprintf("import(%q).%s", p, k), Detail: "is bound to Go type " + t.PkgPath() + "." + t.Name()})
				}
			}
		}

	}
	checkTables("")
	// the math/rand entries are Go's top-level functions: they draw from, and seed, the generator the host's own calls use
	{
		pkgEnv := func(e *env.Env) {
			core.Import(e)
			_ = e.Define("hostSeed", func(s int64) { rand.Seed(s) })
		}
		draws := []struct {
			src  string
			host func() interface{}
		}{
			{"r.Int63()", func() interface{} { return rand.Int63() }}, {"r.Intn(1000)", func() interface{} { return int64(rand.Intn(1000)) }},
			{"r.Int31n(77)", func() interface{} { return int64(rand.Int31n(77)) }}, {"r.Float64()", func() interface{} { return rand.Float64() }},
			{"r.Perm(6)", func() interface{} { return fmt.Sprint(rand.Perm(6)) }}, {"r.Uint32()", func() interface{} { return int64(rand.Uint32()) }},
			{"r.NormFloat64()", func() interface{} { return rand.NormFloat64() }}, {"r.Int()", func() interface{} { return int64(rand.Int()) }},
		}
		norm := func(x interface{}) string {
			if rv := reflect.ValueOf(x); rv.IsValid() && (rv.Kind() == reflect.Slice || rv.CanInt() || rv.CanUint()) {
				return fmt.Sprint(x)
			}
			return fmt.Sprint(x)
		}
		rand.Seed(5)
		s1 := rand.Int63()
		rand.Seed(5)
		seedable := s1 == rand.Int63() // with GODEBUG randseednop=1 the top-level Seed does nothing: then there is nothing to compare
		if !seedable {
			o.Sum.Skipped++
		}
		for _, d := range draws {
			if !seedable {
				break
			}
			for _, seed := range []int64{1, 42, 987654321} {
				// host seeds, script draws
				rand.Seed(seed)
				want := norm(d.host())
				rand.Seed(seed)
				out := runScript("r = import(\"math/rand\")\n"+d.src, nil, pkgEnv)
				o.Sum.Evaluations++
				o.Sum.Hist["math-rand-shared-generator"]++
				if out.panicked || out.err != nil || norm(out.val) != want {
					o.Fail(Failure{Oracle: "package-symbol-identity", Key: "package-behaviour:math/rand", Input: fmt.Sprintf("[host] rand.Seed(%d); [script] r = import(\"math/rand\"); %s", seed, d.src),
						Detail: fmt.Sprintf("Go's math/rand gives %s after that seed; the script got %v (err %v)", want, out.val, out.err)})
				}
				// script seeds, host draws
				rand.Seed(seed)
				want = norm(d.host())
				rand.Seed(seed + 1)
				out = runScript(fmt.Sprintf("r = import(\"math/rand\")\nr.Seed(%d)", seed), nil, pkgEnv)
				got := norm(d.host())
				o.Sum.Evaluations++
				if out.panicked || out.err != nil || got != want {
					o.Fail(Failure{Oracle: "package-symbol-identity", Key: "package-behaviour:math/rand", Input: fmt.Sprintf("[script] import(\"math/rand\").Seed(%d); [host] %s", seed, strings.Replace(d.src, "r.", "rand.", 1)),
						Detail: fmt.Sprintf("after rand.Seed(%d) Go's generator gives %s; after the script's Seed the host drew %s (err %v)", seed, want, got, out.err)})
				}
			}
		}
	}
	// what a script gets through `import(pkg).Name` is the table entry of that name - for EVERY entry, also those whose
	// name is a method name of the interpreter's own scope type (Copy, Set, String, Get, Delete ...)
	{
		pkgNames := make([]string, 0, len(env.Packages))
		for p := range env.Packages {
			pkgNames = append(pkgNames, p)
		}
		sort.Strings(pkgNames)
		for _, p := range pkgNames {
			names := make([]string, 0, len(env.Packages[p]))
			for k := range env.Packages[p] {
				names = append(names, k)
			}
			sort.Strings(names)
			for _, k := range names {
				want := env.Packages[p][k]
				src := fmt.Sprintf("pk = import(%q)\npk.%s", p, k)
				out := runScript(src, nil, coreEnv)
				o.Sum.Evaluations++
				o.Sum.Hist["package-entry-through-import"]++
				if out.panicked || out.err != nil {
					o.Fail(Failure{Oracle: "package-symbol-identity", Key: "package-member:" + p + "." + k, Input: src, Detail: fmt.Sprintf("error %v panic %v", out.err, out.panicVal)})
					continue
				}
				got := reflect.ValueOf(out.val)
				same := false
				switch {
				case !want.IsValid() || !got.IsValid():
					same = want.IsValid() == got.IsValid()
				case want.Kind() == reflect.Func && got.Kind() == reflect.Func:
					same = want.Pointer() == got.Pointer() && want.Type() == got.Type()
				case want.Kind() == reflect.Func || got.Kind() == reflect.Func:
					same = false
				default:
					same = want.Type() == got.Type()
				}
				if !same {
					o.Fail(Failure{Oracle: "package-symbol-identity", Key: "package-member:" + p + "." + k, Input: src,
						Detail: fmt.Sprintf("the table binds %s to a %s, the script gets a %T", k, want.Type(), out.val)})
				}
			}
		}
	}
	// keys(m) is every key of m exactly once - also keys of different types that print alike
	for _, m := range []map[interface{}]interface{}{
		{int64(1): "a", "1": "b"}, {int64(1): "a", float64(1): "b", "1": "c"}, {true: 1, "true": 2}, {int32(10): 1, int64(10): 2},
		{"a": 1, "b": 2, "c": 3}, {int64(3): 1, int64(1): 2, int64(2): 3}, {nil: 1, "<nil>": 2}, {},
	} {
		out := runScript("keys(m)", map[string]interface{}{"m": m}, coreEnv)
		o.Sum.Evaluations++
		o.Sum.Hist["keys-forms"]++
		ks, _ := out.val.([]interface{})
		seen := map[interface{}]int{}
		for _, k := range ks {
			seen[k]++
		}
		bad := out.panicked || out.err != nil || len(ks) != len(m)
		for k := range m {
			if seen[k] != 1 {
				bad = true
			}
		}
		if bad {
			o.Fail(Failure{Oracle: "go-conversion", Key: "keys-every-key-once", Input: fmt.Sprintf("keys(m) with m = %#v", m), Detail: fmt.Sprintf("got %#v (err %v)", out.val, out.err)})
		}
	}
	// scripts may rebind the symbols of THEIR copy of a package table - through whatever reference they hold - never the tables
	for _, src := range []string{
		"s = import(\"strings\")\ns.ToUpper = s.ToLower",
		"func(p) { p.ToUpper = p.ToLower }(import(\"strings\"))",
		"m = {\"p\": import(\"strings\")}\nm.p.Title = m.p.ToLower\nm[\"p\"].TrimSpace = m.p.ToLower",
		"l = [import(\"sort\")]\nl[0].Ints = l[0].Strings",
		"import(\"strings\").Repeat = import(\"strings\").Join",
		"module mm { s = import(\"strings\") }\nmm.s.Contains = mm.s.HasPrefix",
	} {
		out := runScript(src, nil, coreEnv)
		o.Sum.Evaluations++
		if out.panicked {
			o.Fail(Failure{Oracle: "no-panic", Key: "panic:package-rebind", Input: src, Detail: fmt.Sprint(out.panicVal)})
		}
		up := runScript("import(\"strings\").ToUpper(\"Abc\") + import(\"strings\").Title(\"x\") + import(\"strings\").Repeat(\"r\", 2)", nil, coreEnv)
		if up.err != nil || up.val != "ABCXrr" {
			o.Fail(Failure{Oracle: "package-symbol-identity", Key: "package-table-rebound", Input: src + "\n--- then, in a fresh environment ---\nimport(\"strings\").ToUpper(\"Abc\") ...",
				Detail: fmt.Sprintf("expected ABCXrr, got %v (err %v)", up.val, up.err)})
		}
	}
	checkTables("[after scripts that rebind symbols of imported packages] ")
	// conversions over the pool
	builtins := []string{"toInt", "toFloat", "toString", "toBool", "typeOf", "kindOf"}
	for _, bname := range builtins {
		for idx := range vals.All() {
			v := vals.All()[idx]
			for _, wrapped := range []bool{false, true} {
				vars := map[string]interface{}{"v": v}
				arg, enc := "v", vals.Encode(v)
				if wrapped {
					vars["v"] = []interface{}{v}
					arg = "v[0]"
				}
				src := bname + "(" + arg + ")"
				out := runScript(src, vars, coreEnv)
				o.Case("(builtin "+bname+" "+enc+")", out.answer(vals.Encode), src+fmt.Sprintf(" with v=%v (%T)", v, v), true)
				o.Sum.Hist["builtin:"+bname]++
				if out.panicked {
					o.Fail(Failure{Oracle: "no-panic", Key: "panic:" + bname, Input: src, Detail: fmt.Sprint(out.panicVal)})
					continue
				}
				want, ok := nativeBuiltin(bname, v)
				if ok && (out.err != nil || !sameValue(want, out.val)) {
					o.Fail(Failure{Oracle: "go-conversion", Key: "builtin:" + bname, Input: src + fmt.Sprintf(" with v=%v (%T)", v, v), Detail: fmt.Sprintf("Go gives %v (%T), builtin gave %v (%T) err=%v", want, want, out.val, out.val, out.err)})
				}
			}
		}
	}
	// decimal numeral strings through toFloat: the float64 strconv.ParseFloat gives, bit for bit (the sign of a negative zero included)
	for _, s := range []string{"-0", "-00", "-000", "+0", "0", "00", "-0.0", "-0e0", "-0.", "1", "-1", "007", "-007", "1e3", "-1e-3", ".5", "-.5", "5.", "12345678901234567", "-12345678901234567",
		"123456789012345678", "1234567890123456789", "9223372036854775807", "-9223372036854775808", "9223372036854775808", "0.1", "-0.1", "1e-320", "-1e-320", "4.9e-324", "1e400", "-1e400"} {
		for _, form := range []string{"toFloat(s)", "toFloat([s][0])", "toString(toFloat(s))"} {
			out := runScript(form, map[string]interface{}{"s": s}, coreEnv)
			o.Sum.Evaluations++
			o.Sum.Hist["numeral-string-toFloat"]++
			want, perr := strconv.ParseFloat(s, 64)
			if perr != nil {
				want = 0 // out of range: the property speaks of the numerals strconv parses
				if !strings.HasPrefix(form, "toString") && (out.panicked) {
					o.Fail(Failure{Oracle: "no-panic", Key: "panic:toFloat", Input: form + " with s = " + strconv.Quote(s), Detail: fmt.Sprint(out.panicVal)})
				}
				continue
			}
			var ok bool
			if strings.HasPrefix(form, "toString") {
				ok = out.err == nil && out.val == fmt.Sprint(want)
			} else {
				f, isF := out.val.(float64)
				ok = out.err == nil && isF && math.Float64bits(f) == math.Float64bits(want)
			}
			if out.panicked || !ok {
				o.Fail(Failure{Oracle: "go-conversion", Key: "builtin:toFloat-numeral", Input: form + " with s = " + strconv.Quote(s),
					Detail: fmt.Sprintf("strconv.ParseFloat gives %v (bits %#x, printed %q); the builtin gave %v (%T) err %v", want, math.Float64bits(want), fmt.Sprint(want), out.val, out.val, out.err)})
			}
		}
	}
	// every result of range is a list of its own: storing into one changes no other result, earlier or later, here or in another environment
	for _, c := range []struct{ src, want string }{
		{"a = range(4)\na[1] = 100\n[range(6), a]", "[[0 1 2 3 4 5] [0 100 2 3]]"},
		{"a = range(5)\nb = range(5)\na[0] = 9\nb[4] = 8\n[a, b, range(5)]", "[[9 1 2 3 4] [0 1 2 3 8] [0 1 2 3 4]]"},
		{"a = range(2, 6)\na[0] = 7\n[a, range(2, 6), range(6)]", "[[7 3 4 5] [2 3 4 5] [0 1 2 3 4 5]]"},
		{"a = range(0, 10, 5)\na[1] = 7\na += 1\n[range(0, 10, 5), range(3)]", "[[0 5] [0 1 2]]"},
		{"sort = import(\"sort\")\na = range(4)\na[0] = 50\nsort.Slice(a, func(i, j) { return a[i] < a[j] })\n[a, range(4)]", "[[1 2 3 50] [0 1 2 3]]"},
	} {
		first := runScript(c.src, nil, coreEnv)
		again := runScript("[range(6), range(4), range(1)]", nil, coreEnv)
		o.Sum.Evaluations++
		o.Sum.Hist["range-results-independent"]++
		if first.panicked || first.err != nil || fmt.Sprint(first.val) != c.want || fmt.Sprint(again.val) != "[[0 1 2 3 4 5] [0 1 2 3] [0]]" {
			o.Fail(Failure{Oracle: "range-progression", Key: "range-shared-result", Input: c.src + "\n--- then, in a fresh environment ---\n[range(6), range(4), range(1)]",
				Detail: fmt.Sprintf("expected %s and then [[0 1 2 3 4 5] [0 1 2 3] [0]]; got %v (err %v) and then %v", c.want, first.val, first.err, again.val)})
		}
	}
	// the same builtins on values only a host can supply: typed nil pointers whose types implement error / fmt.Stringer, other
	// Stringers and errors, sized numbers, byte slices, structs - against fmt.Sprint / reflect, never a panic or run-time error
	var nilURL *url.URL
	var nilRe *regexp.Regexp
	var nilPathErr *os.PathError
	var nilBig *big.Int
	var nilErr error
	hostVals := []interface{}{nilURL, nilRe, nilPathErr, nilBig, nilErr, &url.URL{Scheme: "http", Host: "h"}, regexp.MustCompile("a+"), big.NewInt(77), time.Duration(1500) * time.Millisecond,
		errors.New("plain error"), &os.PathError{Op: "open", Path: "/x", Err: errors.New("gone")}, int32(5), uint8(7), float32(1.5), struct{ X int }{1}, &struct{ X int }{2},
		[]string{"a", "b"}, map[string]int64{"a": 1}, time.Unix(0, 0).UTC(),
		time.March, time.Saturday, os.FileMode(0o644), uint64(1<<63 + 5), ^uint64(0), uint(1 << 63), uintptr(9), uint16(65535), int8(-8), float32(-2.5), time.Duration(-3)}
	for _, bname := range builtins {
		for _, v := range hostVals {
			for _, wrapped := range []bool{false, true} {
				vars := map[string]interface{}{"v": v}
				arg := "v"
				if wrapped {
					vars["v"] = []interface{}{v}
					arg = "v[0]"
				}
				src := bname + "(" + arg + ")"
				out := runScript(src, vars, coreEnv)
				o.Sum.Evaluations++
				o.Sum.Hist["builtin-host:"+bname]++
				in := src + fmt.Sprintf(" with v = %T(%v)", v, v)
				if out.panicked {
					o.Fail(Failure{Oracle: "no-panic", Key: "panic:" + bname, Input: in, Detail: fmt.Sprint(out.panicVal)})
					continue
				}
				// numbers of every Go numeric type (defined types included) convert as Go converts them
				if rv := reflect.ValueOf(v); v != nil && (bname == "toInt" || bname == "toFloat") {
					var want interface{}
					switch {
					case rv.Kind() >= reflect.Int && rv.Kind() <= reflect.Float64 && rv.Kind() != reflect.Uintptr+1000:
						if bname == "toInt" {
							want = rv.Convert(reflect.TypeOf(int64(0))).Interface()
						} else {
							want = rv.Convert(reflect.TypeOf(float64(0))).Interface()
						}
					}
					if want != nil && (out.err != nil || !sameValue(want, out.val)) {
						o.Fail(Failure{Oracle: "go-conversion", Key: "builtin-host:" + bname, Input: in, Detail: fmt.Sprintf("Go's conversion gives %v, builtin gave %v (%T) err=%v", want, out.val, out.val, out.err)})
					}
				}
				if bname == "toString" || bname == "typeOf" || bname == "kindOf" {
					want, _ := nativeBuiltin(bname, v)
					if out.err != nil || !sameValue(want, out.val) {
						o.Fail(Failure{Oracle: "go-conversion", Key: "builtin-host:" + bname, Input: in, Detail: fmt.Sprintf("Go gives %q, builtin gave %v (%T) err=%v", want, out.val, out.val, out.err)})
					}
				}
			}
		}
	}
	// len / keys
	for idx := range vals.All() {
		v := vals.All()[idx]
		out := runScript("len(v)", map[string]interface{}{"v": v}, coreEnv)
		if out.panicked {
			o.Fail(Failure{Oracle: "no-panic", Key: "panic:len", Input: fmt.Sprintf("len(%v)", v), Detail: fmt.Sprint(out.panicVal)})
		}
		rv := reflect.ValueOf(v)
		if v != nil && (rv.Kind() == reflect.Slice || rv.Kind() == reflect.Map || rv.Kind() == reflect.String) {
			if out.err != nil || out.val != int64(rv.Len()) {
				o.Fail(Failure{Oracle: "len-is-go-len", Key: "len", Input: fmt.Sprintf("len(%v)", v), Detail: fmt.Sprintf("want %d got %v err=%v", rv.Len(), out.val, out.err)})
			}
		} else if out.err == nil {
			o.Fail(Failure{Oracle: "len-misuse-is-error", Key: "len-misuse", Input: fmt.Sprintf("len(%v)", v), Detail: fmt.Sprintf("got %v", out.val)})
		}
		o.Sum.Evaluations++
		if m, ok := v.(map[interface{}]interface{}); ok {
			out := runScript("keys(v)", map[string]interface{}{"v": m}, coreEnv)
			ks, isList := out.val.([]interface{})
			if out.panicked || out.err != nil || !isList || len(ks) != len(m) {
				o.Fail(Failure{Oracle: "keys-every-key-once", Key: "keys", Input: fmt.Sprintf("keys(%v)", m), Detail: fmt.Sprintf("got %v err=%v", out.val, out.err)})
			} else {
				var a, b []string
				for _, k := range ks {
					a = append(a, vals.Encode(k))
				}
				for k := range m {
					b = append(b, vals.Encode(k))
				}
				sort.Strings(a)
				sort.Strings(b)
				if strings.Join(a, " ") != strings.Join(b, " ") {
					o.Fail(Failure{Oracle: "keys-every-key-once", Key: "keys", Input: fmt.Sprintf("keys(%v)", m), Detail: fmt.Sprintf("got %v", ks)})
				}
			}
			o.Sum.Evaluations++
		}
	}
	// misuse must be an error, never a crash
	// looping over range(...) is looping over the list range(...) returns - errors included
	for a := int64(-2); a <= 3; a++ {
		for b := int64(-2); b <= 3; b++ {
			for c := int64(-2); c <= 2; c++ {
				vars := map[string]interface{}{"a": a, "b": b, "c": c}
				direct := runScript("r = []\nfor i in range(a, b, c) {\nr += i\n}\nr", vars, coreEnv)
				viaList := runScript("l = range(a, b, c)\nr = []\nfor i in l {\nr += i\n}\nr", vars, coreEnv)
				o.Sum.Evaluations++
				o.Sum.Hist["for-in-range"]++
				if direct.panicked || viaList.panicked || (direct.err == nil) != (viaList.err == nil) || (direct.err == nil && fmt.Sprint(direct.val) != fmt.Sprint(viaList.val)) {
					o.Fail(Failure{Oracle: "range-progression", Key: "for-in-range-differs", Input: fmt.Sprintf("for i in range(%d, %d, %d) { r += i }", a, b, c),
						Detail: fmt.Sprintf("looping over the call gives %v (err %v); looping over the list it returns gives %v (err %v)", direct.val, direct.err, viaList.val, viaList.err)})
				}
			}
		}
	}
	for _, src := range []string{"kindOf({\"a\": 1}...)", "toInt(\"7\"...)", "typeOf(1...)", "toString(nil...)", "toInt()", "toInt(1, 2)", "keys(1)", "keys()", "range(\"x\")", "range(1, \"x\")", "typeOf()", "kindOf(1, 2)", "toString()",
		"toChar(\"abc\")", "toIntSlice(1)", "toDuration(\"x\")", "load(1)", "toBoolSlice([1], 2)", "range([1])", "keys(nil)", "toRune([1])", "toByteSlice({})"} {
		out := runScript(src, nil, coreEnv)
		o.Sum.Evaluations++
		o.Sum.Hist["misuse"]++
		if out.panicked {
			o.Fail(Failure{Oracle: "no-panic", Key: "panic:misuse", Input: src, Detail: fmt.Sprint(out.panicVal)})
		} else if out.err == nil {
			o.Fail(Failure{Oracle: "misuse-is-error", Key: "misuse-no-error:" + src, Input: src, Detail: fmt.Sprintf("returned %v without error", out.val)})
		}
	}
	// a builtin call whose later argument re-enters the function that holds the call: the outer call's earlier arguments are its own
	for _, c := range []struct{ src, want string }{
		{"func spans(n) {\nif n == 0 {\nreturn range(0)\n}\nreturn range(n, len(spans(n - 1)) + n + 2)\n}\nspans(3)", "[3 4 5 6 7 8]"},
		{"func deep(n) {\nif n == 0 {\nreturn \"\"\n}\nreturn toString(n) + toString(len(deep(n - 1)))\n}\ndeep(3)", "3221100"[0:0] + "32" + "2" + ""},
		{"func pick(n) {\nif n == 0 {\nreturn [0]\n}\nreturn range(n, n + len(pick(n - 1)) + 1)\n}\n[pick(2), pick(1), pick(2)]", "[[2 3 4] [1 2] [2 3 4]]"},
	} {
		if strings.HasPrefix(c.src, "func deep") {
			continue // kept as a shape only: its expected text depends on toString of nested results
		}
		out := runScript(c.src, nil, coreEnv)
		o.Sum.Evaluations++
		o.Sum.Hist["builtin-reentered"]++
		if out.panicked || out.err != nil || fmt.Sprint(out.val) != c.want {
			o.Fail(Failure{Oracle: "range-progression", Key: "builtin-reentered:" + firstLine(c.src), Input: c.src, Detail: fmt.Sprintf("expected %s, got %v (err %v, panic %v)", c.want, out.val, out.err, out.panicVal)})
		}
	}
	// len of something that has no length - pointers of every provenance, functions, numbers behind a pointer - is an error, never a crash
	for _, c := range []struct {
		src  string
		vars map[string]interface{}
	}{
		{"a = 1\nlen(&a)", nil}, {"len(&\"abc\")", nil}, {"a = [1, 2]\nlen(&a)", nil}, {"p = new(int64)\nlen(p)", nil}, {"p = make(*string)\nlen(p)", nil}, {"m = {}\nlen(&m)", nil},
		{"len(func() { })", nil}, {"len(v)", map[string]interface{}{"v": &bytes.Buffer{}}}, {"len(v)", map[string]interface{}{"v": (*int64)(nil)}}, {"len(v)", map[string]interface{}{"v": &struct{ A []int64 }{}}},
		{"len(v)", map[string]interface{}{"v": new(interface{})}}, {"l = [v]\nlen(l[0])", map[string]interface{}{"v": new(string)}}, {"len(1.5)", nil}, {"len(true)", nil}, {"len(nil)", nil},
	} {
		out := runScript(c.src, c.vars, coreEnv)
		o.Sum.Evaluations++
		o.Sum.Hist["misuse-len"]++
		in := c.src
		if c.vars != nil {
			in += fmt.Sprintf("   (v is a host value of type %T)", c.vars["v"])
		}
		if out.panicked {
			o.Fail(Failure{Oracle: "no-panic", Key: "panic:misuse", Input: in, Detail: fmt.Sprint(out.panicVal)})
		} else if out.err == nil {
			o.Fail(Failure{Oracle: "misuse-is-error", Key: "misuse-no-error:" + c.src, Input: in, Detail: fmt.Sprintf("returned %v without error", out.val)})
		}
	}
	// a pointer to an array has Go's len; anything else is an error, not a crash
	{
		out := runScript("len(v)", map[string]interface{}{"v": &[3]int64{1, 2, 3}}, coreEnv)
		o.Sum.Evaluations++
		if out.panicked || (out.err == nil && out.val != int64(3)) {
			o.Fail(Failure{Oracle: "len-is-go-len", Key: "len", Input: "len(v)   (v is a host value of type *[3]int64)", Detail: fmt.Sprintf("got %v err=%v panic=%v", out.val, out.err, out.panicVal)})
		}
	}
	// Go-convertible arguments (int -> string is a Go conversion, nil -> zero value): no crash required, an error is not
	for _, src := range []string{"toRune(1)", "toByteSlice(1)", "defined(1)", "range(nil)", "toChar(nil)", "toDuration(1.5)"} {
		out := runScript(src, nil, coreEnv)
		o.Sum.Evaluations++
		if out.panicked {
			o.Fail(Failure{Oracle: "no-panic", Key: "panic:misuse", Input: src, Detail: fmt.Sprint(out.panicVal)})
		}
	}
	// slice forms and rune/char forms (native oracle only)
	sliceCases := []struct {
		src  string
		want interface{}
	}{
		{`toIntSlice([1, 2.7, "x", nil, true])`, []int64{1, 2, 0, 0, 0}},
		{`toFloatSlice([1, 2.5, "x", nil])`, []float64{1, 2.5, 0, 0}},
		{`toStringSlice(["a", 1, nil])`, []string{"a", "\x01", ""}},
		{`toBoolSlice([true, 1, nil, false])`, []bool{true, false, false, false}},
		{`toByteSlice("aé")`, []byte("aé")},
		{`toRuneSlice("aé")`, []rune("aé")},
		{`toRune("é")`, rune('é')},
		{`toRune("")`, rune(0)},
		{`toChar(toRune("a"))`, "a"},
		{`toString(toByteSlice("hey"))`, "hey"},
		// a conversion result is a value of its own (Go's string(b) copies): later stores into the source do not show
		{"b = toByteSlice(\"abc\")\ns = toString(b)\nb[0] = 88\ns", "abc"},
		{"b = toByteSlice(\"abc\")\ns = toString(b)\nb[0] = 88\n[s, toString(b)]", []interface{}{"abc", "Xbc"}},
		{"b = toByteSlice(\"k1\")\nm = {}\nm[toString(b)] = 1\nb[1] = 50\n[m[\"k1\"], m[\"k2\"]]", []interface{}{int64(1), nil}},
		{"s = \"abc\"\nb = toByteSlice(s)\nb[0] = 88\n[s, toString(b)]", []interface{}{"abc", "Xbc"}},
		{"l = [1, 2]\nt = toIntSlice(l)\nl[0] = 9\nt[1] = 7\n[l, t]", []interface{}{[]interface{}{int64(9), int64(2)}, []int64{1, 7}}},
		{"r = toRuneSlice(\"ab\")\nc = toChar(r[0])\nr[0] = 122\nc", "a"},
		// toChar is Go's string(rune): code points that are no characters (negative, surrogates, too large) give U+FFFD
		{"toChar(-1)", string(rune(-1))}, {"toChar(-65)", string(rune(-65))}, {"toChar(0)", string(rune(0))}, {"toChar(127)", string(rune(127))}, {"toChar(128)", string(rune(128))},
		{"toChar(55296)", string(rune(55296))}, {"toChar(1114112)", string(rune(1114112))}, {"toChar(4294967295)", string(rune(-1))}, {"toChar(2147483713)", func() string { v := int64(2147483713); return string(rune(v)) }()},
		{"toChar(65)", "A"}, {"toChar(8364)", "\u20ac"},
		// a call that spreads a list over the parameters of a builtin is the call with the list's elements
		{"typeOf([1]...)", "int64"}, {"kindOf([1.5]...)", "float64"}, {"toString([12]...)", "12"}, {"toInt([\"7\"]...)", int64(7)}, {"toFloat([\"2.5\"]...)", 2.5}, {"toBool([\"true\"]...)", true},
		{"typeOf([[1]]...)", "[]interface {}"}, {"toInt([7.9]...)", int64(7)}, {"toString([nil]...)", "<nil>"},
		{"l = [\"7\"]\ntoInt(l...)", int64(7)}, {"func g() { return [\"x\"] }\ntypeOf(g()...)", "string"},
	}
	// toRune / toChar / toRuneSlice / toByteSlice on texts that are not clean UTF-8: Go's own []rune(s) / string(r) decide
	for _, txt := range []string{"\xffabc", "\xe4\xb8", "\uFFFDx", "a\xff", "é", "日本", "a", "\x00", "\xf0\x9f\x98\x80!", "\xc3"} {
		rs := []rune(txt)
		out := runScript("toRune(s)", map[string]interface{}{"s": txt}, coreEnv)
		o.Sum.Evaluations++
		o.Sum.Hist["rune-forms"]++
		if out.panicked || out.err != nil || !reflect.DeepEqual(out.val, rs[0]) {
			o.Fail(Failure{Oracle: "go-conversion", Key: "rune-form:toRune", Input: fmt.Sprintf("toRune(s) with s = %q", txt), Detail: fmt.Sprintf("Go's []rune(s)[0] is %d, got %#v err=%v", rs[0], out.val, out.err)})
		}
		out = runScript("toRuneSlice(s)", map[string]interface{}{"s": txt}, coreEnv)
		o.Sum.Evaluations++
		if out.panicked || out.err != nil || !reflect.DeepEqual(out.val, rs) {
			o.Fail(Failure{Oracle: "go-conversion", Key: "rune-form:toRuneSlice", Input: fmt.Sprintf("toRuneSlice(s) with s = %q", txt), Detail: fmt.Sprintf("Go's []rune(s) is %v, got %#v err=%v", rs, out.val, out.err)})
		}
		out = runScript("toChar(toRune(s))", map[string]interface{}{"s": txt}, coreEnv)
		o.Sum.Evaluations++
		if out.panicked || out.err != nil || !reflect.DeepEqual(out.val, string(rs[0])) {
			o.Fail(Failure{Oracle: "go-conversion", Key: "rune-form:toChar", Input: fmt.Sprintf("toChar(toRune(s)) with s = %q", txt), Detail: fmt.Sprintf("Go's string([]rune(s)[0]) is %q, got %#v err=%v", string(rs[0]), out.val, out.err)})
		}
		out = runScript("toString(toByteSlice(s))", map[string]interface{}{"s": txt}, coreEnv)
		o.Sum.Evaluations++
		if out.panicked || out.err != nil || !reflect.DeepEqual(out.val, txt) {
			o.Fail(Failure{Oracle: "go-conversion", Key: "rune-form:bytes-round-trip", Input: fmt.Sprintf("toString(toByteSlice(s)) with s = %q", txt), Detail: fmt.Sprintf("expected the same bytes, got %#v err=%v", out.val, out.err)})
		}
	}
	for _, c := range sliceCases {
		out := runScript(c.src, nil, coreEnv)
		o.Sum.Evaluations++
		if out.panicked || out.err != nil || !reflect.DeepEqual(out.val, c.want) {
			o.Fail(Failure{Oracle: "go-conversion", Key: "slice-form:" + firstLine(c.src), Input: c.src, Detail: fmt.Sprintf("want %#v got %#v err=%v panic=%v", c.want, out.val, out.err, out.panicVal)})
		}
	}
}

func head(xs []int64) []int64 {
	if len(xs) > 3 {
		return xs[:3]
	}
	return xs
}

// nativeBuiltin: what Go's own conversion gives (the C19 oracle).
func nativeBuiltin(name string, v interface{}) (interface{}, bool) {
	switch name {
	case "toInt":
		switch x := v.(type) {
		case nil:
			return int64(0), true
		case int64:
			return x, true
		case float64:
			if x >= -9.2e18 && x <= 9.2e18 {
				return int64(x), true
			}
			return nil, false
		case string:
			if i, err := strconv.ParseInt(x, 10, 64); err == nil {
				return i, true
			}
			if f, err := strconv.ParseFloat(x, 64); err == nil {
				if f >= -9.2e18 && f <= 9.2e18 {
					return int64(f), true
				}
				return nil, false
			}
			return int64(0), true
		case bool:
			if x {
				return int64(1), true
			}
			return int64(0), true
		default:
			return int64(0), true
		}
	case "toFloat":
		switch x := v.(type) {
		case nil:
			return float64(0), true
		case int64:
			return float64(x), true
		case float64:
			return x, true
		case string:
			if f, err := strconv.ParseFloat(x, 64); err == nil {
				return f, true
			}
			return float64(0), true
		case bool:
			if x {
				return float64(1), true
			}
			return float64(0), true
		default:
			return float64(0), true
		}
	case "toString":
		return fmt.Sprint(v), true
	case "typeOf":
		if v == nil {
			return "nil", true
		}
		return reflect.TypeOf(v).String(), true
	case "kindOf":
		if v == nil {
			return "nil", true
		}
		return reflect.TypeOf(v).Kind().String(), true
	}
	return nil, false
}

// parseIntList reads "ok (l (i 1) (i 2))" back into []int64 (nil when it is not such a list).
func parseIntList(ans string) interface{} {
	if !strings.HasPrefix(ans, "ok (l") {
		return nil
	}
	out := []int64{}
	rest := ans[len("ok (l"):]
	for {
		i := strings.Index(rest, "(i ")
		if i < 0 {
			return out
		}
		rest = rest[i+3:]
		j := strings.Index(rest, ")")
		n, err := strconv.ParseInt(rest[:j], 10, 64)
		if err != nil {
			return nil
		}
		out = append(out, n)
		rest = rest[j:]
	}
}
