package main

import (
	"fmt"
	"github.com/mattn/anko/core"
	"github.com/mattn/anko/env"
	"github.com/mattn/anko/vm"
	"math/rand"
	"reflect"
	"strings"
	"time"

	"github.com/mattn/anko/parser"

	"veriftools/internal/astser"
	"veriftools/internal/vals"
)

func init() { streams["scope"] = streamScope }

// A scope template: a wrapper construct around a body; the body performs an action on the
// name x and leaves by one of the exit paths; afterwards the program reads x and binds y at
// top level. Expected values are computed here, from the template alone.
type scopeWrap struct {
	name string
	// build returns the source of the wrapper with the body placed in the block under test.
	build          func(body string) string
	inLoop, inFunc bool
	// ownX: the wrapper itself binds x in its own scope (loop variable, catch variable, parameter, C-for var)
	ownX bool
	// noRun: the block under test is never entered (all conditions false, empty ranges, no matching case)
	noRun bool
}

var scopeWraps = []scopeWrap{
	{"if-then", func(b string) string { return "if true {\n" + b + "\n}" }, false, false, false, false},
	{"else-if-body", func(b string) string { return "if false {\n} else if true {\n" + b + "\n}" }, false, false, false, false},
	{"else", func(b string) string { return "if false {\n} else {\n" + b + "\n}" }, false, false, false, false},
	{"try", func(b string) string { return "try {\n" + b + "\n} catch e {\n}" }, false, false, false, false},
	{"catch", func(b string) string { return "try {\nthrow 1\n} catch e {\n" + b + "\n}" }, false, false, false, false},
	{"finally", func(b string) string { return "try {\n} catch e {\n} finally {\n" + b + "\n}" }, false, false, false, false},
	{"loop", func(b string) string { return "q = 0\nfor {\nq++\nif q > 2 { break }\n" + b + "\n}" }, true, false, false, false},
	{"loop-cond", func(b string) string { return "q = 0\nfor q < 2 {\nq++\n" + b + "\n}" }, true, false, false, false},
	{"cfor", func(b string) string { return "for q = 0; q < 2; q++ {\n" + b + "\n}" }, true, false, false, false},
	{"cfor-var-x", func(b string) string { return "q = 0\nfor var x = 0; q < 2; q++ {\n" + b + "\n}" }, true, false, true, false},
	{"forin", func(b string) string { return "for v in [1, 2] {\n" + b + "\n}" }, true, false, false, false},
	{"forin-x", func(b string) string { return "for x in [\"l1\", \"l2\"] {\n" + b + "\n}" }, true, false, true, false},
	{"forin-map-x", func(b string) string { return "for k, x in {\"k\": \"mv\"} {\n" + b + "\n}" }, true, false, true, false},
	{"catch-var-x", func(b string) string { return "try {\nthrow \"cv\"\n} catch x {\n" + b + "\n}" }, false, false, true, false},
	{"switch-case", func(b string) string { return "switch 1 {\ncase 1:\n" + b + "\n}" }, false, false, false, false},
	{"switch-default", func(b string) string { return "switch 1 {\ncase 2:\n0\ndefault:\n" + b + "\n}" }, false, false, false, false},
	{"module", func(b string) string { return "module mm {\n" + b + "\n}" }, false, false, false, false},
	{"func", func(b string) string { return "func() {\n" + b + "\n}()" }, false, true, false, false},
	{"func-param-x", func(b string) string { return "func(x) {\n" + b + "\n}(\"pv\")" }, false, true, true, false},
	{"func5", func(b string) string { return "func(a1, a2, a3, a4, a5) {\n" + b + "\n}(1, 2, 3, 4, 5)" }, false, true, false, false},
	{"func-variadic", func(b string) string { return "func(a1, rest...) {\n" + b + "\n}(1, 2, 3)" }, false, true, false, false},
	{"nested-func", func(b string) string { return "func() {\nfunc() {\n" + b + "\n}()\n}()" }, false, true, false, false},
	{"deferred", func(b string) string { return "func() {\ndefer func() {\n" + b + "\n}()\n}()" }, false, true, false, false},
	{"recursion", func(b string) string {
		return "func rec(n) {\nif n > 0 {\nrec(n - 1)\n}\n" + b + "\n}\nrec(2)"
	}, false, true, false, false},
	{"if-false-no-else", func(b string) string { return "if false {\n" + b + "\n}" }, false, false, false, true},
	{"else-if-none", func(b string) string { return "if false {\n} else if false {\n" + b + "\n}" }, false, false, false, true},
	{"else-if-none-2", func(b string) string { return "if false {\n} else if 0 {\n} else if nil {\n" + b + "\n}" }, false, false, false, true},
	{"else-if-none-cond-binds", func(b string) string {
		return "if false {\n} else if func() { var x = \"c\"; return false }() {\n" + b + "\n}"
	}, false, false, false, true},
	{"loop-cond-false", func(b string) string { return "for false {\n" + b + "\n}" }, true, false, false, true},
	{"cfor-zero", func(b string) string { return "for q = 0; q < 0; q++ {\n" + b + "\n}" }, true, false, false, true},
	{"forin-empty", func(b string) string { return "for v in [] {\n" + b + "\n}" }, true, false, false, true},
	{"switch-no-match", func(b string) string { return "switch 1 {\ncase 2:\n" + b + "\n}" }, false, false, false, true},
	{"try-no-throw-catch", func(b string) string { return "try {\n} catch e {\n" + b + "\n}" }, false, false, false, true},
}

type scopeAction struct {
	name string
	src  string
	// assigns: plain assignment to x (updates the nearest existing binding)
	assigns bool
}

var scopeActions = []scopeAction{
	{"var", `var x = "inner"`, false},
	{"assign", `x = "assigned"`, true},
	{"var-then-assign", "var x = \"inner\"\nx = \"inner2\"", false},
	{"multi-var", `var x, z = "inner", 1`, false},
	{"func-decl", "func x() { return \"fn\" }", false},
	{"func-decl-and-call", "func x() { return \"fn\" }\nprobe(x())", false},
	{"multi-var-from-list", `var x, z = ["inner", 1]`, false},
	{"multi-var-from-call", "var x, z = func() { return \"inner\", 1 }()", false},
	{"read-only", `probe(x)`, false},
	{"incr-other", `z = 1`, false},
}

type scopeExit struct {
	name string
	src  string
	need string // "", "loop", "func"
}

var scopeExits = []scopeExit{
	{"fallthrough", "", ""},
	{"break", "break", "loop"},
	{"continue", "continue", "loop"},
	{"return", "return 5", "func"},
	{"throw-caught", "throw \"t\"", ""},
	{"runtime-error-caught", "1 % 0", ""},
	{"undefined-caught", "undefinedName", ""},
}

func streamScope(o *Out, r *rand.Rand, n int, thorough bool) {
	o.Sum.Rule = "scope templates: wrapper construct (24 kinds: branches, try/catch/finally, 5 loop forms, switch, module, functions of several shapes, deferred, recursion) " +
		"x action on the name x inside (var / assign / both / multi / read) x exit path (fallthrough, break, continue, return, caught throw, caught runtime error); " +
		"afterwards x is read and y is bound at top level; expected values computed from the template; exhaustive over the template set; distinct by request hash"
	for _, w := range scopeWraps {
		for _, a := range scopeActions {
			for _, ex := range scopeExits {
				if ex.need == "loop" && !w.inLoop {
					continue
				}
				if ex.need == "func" && !w.inFunc {
					continue
				}
				body := a.src
				if ex.src != "" {
					body += "\n" + ex.src
				}
				inner := w.build(body)
				throwing := strings.Contains(ex.name, "caught")
				for _, outerTry := range []bool{true, false} {
					if !outerTry && throwing {
						continue
					}
					// inside an outer try so that thrown / runtime errors are "caught later"; the variant without
					// it leaves nothing between the construct and the top level that could hide a leaked scope
					// the catch block of the enclosing try reads x: it must see the binding visible where the try stands
					src := "x = \"outer\"\nz = 0\ntry {\n" + inner + "\n} catch err {\nprobe(\"in-catch\")\nprobe(x)\n} finally {\nprobe(\"in-finally\")\nprobe(x)\n}\nprobe(x)\nvar y = \"after\"\ny2 = \"after2\"\n"
					if !outerTry {
						src = "x = \"outer\"\nz = 0\n" + inner + "\nprobe(x)\nvar y = \"after\"\ny2 = \"after2\"\n"
					}
					// expected x after: an assignment inside reaches the outer x unless the wrapper (or a var before it) rebinds x inside
					wantX := "outer"
					if a.assigns && !w.ownX && !w.noRun {
						wantX = "assigned"
					}
					// a finally / deferred body may not run if ... (all our wrappers run the body at least once)
					stmt, err := parser.ParseSrc(src)
					if err != nil {
						o.Fail(Failure{Oracle: "scope-template-parses", Key: "scope-template-parse", Input: src, Detail: err.Error()})
						continue
					}
					res := runVM(stmt, -1, 3*time.Second)
					key := w.name + "/" + a.name + "/" + ex.name
					o.Case(fmt.Sprintf("(run %d _ %s)", modelFuel, astser.Prog(stmt)), res.line, src, true)
					o.Sum.Hist["wrapper:"+w.name]++
					o.Sum.Hist["exit:"+ex.name]++
					if res.panicked || res.hung {
						o.Fail(Failure{Oracle: "no-panic", Key: "scope-panic:" + key, Input: src, Detail: fmt.Sprint(res.panicVal, res.hung)})
						continue
					}
					vars := parseVars(res.line)
					if res.err != nil {
						o.Fail(Failure{Oracle: "scope-caught-error", Key: "scope-error-escaped:" + key, Input: src, Detail: res.err.Error()})
						continue
					}
					if got := vars["x"]; got != vals.Encode(wantX) {
						o.Fail(Failure{Oracle: "scope-binding-visibility", Key: "scope-x:" + key, Input: src, Detail: fmt.Sprintf("x after the construct is %s, expected %q", got, wantX)})
					}
					if len(res.trace) == 0 || res.trace[len(res.trace)-1] != vals.Encode(wantX) {
						o.Fail(Failure{Oracle: "scope-binding-visibility", Key: "scope-read-x:" + key, Input: src, Detail: fmt.Sprintf("probe(x) after the construct saw %v, expected %q", res.trace, wantX)})
					}
					// reads of x inside the catch / finally block of the enclosing try
					for ti := 0; ti+1 < len(res.trace); ti++ {
						if (res.trace[ti] == vals.Encode("in-catch") || res.trace[ti] == vals.Encode("in-finally")) && res.trace[ti+1] != vals.Encode(wantX) {
							o.Fail(Failure{Oracle: "scope-binding-visibility", Key: "scope-x-in-handler:" + key, Input: src, Detail: fmt.Sprintf("x read in the catch/finally block of the enclosing try is %s, expected %q (trace %v)", res.trace[ti+1], wantX, res.trace)})
							break
						}
					}
					// execution continues in the scope that was current before: y and y2 land in the top-level scope
					if vars["y"] != vals.Encode("after") || vars["y2"] != vals.Encode("after2") {
						o.Fail(Failure{Oracle: "scope-restored", Key: "scope-not-restored:" + key, Input: src, Detail: fmt.Sprintf("top-level bindings after the construct: y=%q y2=%q (expected after/after2 in the global scope)", vars["y"], vars["y2"])})
					}
					// bindings made inside are not visible after: z only when assigned (z exists outside)
					if strings.HasPrefix(a.name, "multi-var") && vars["z"] != vals.Encode(int64(0)) {
						o.Fail(Failure{Oracle: "scope-binding-visibility", Key: "scope-z:" + key, Input: src, Detail: "var z inside the block changed the outer z: " + vars["z"]})
					}
					if _, leaked := vars["e"]; leaked {
						o.Fail(Failure{Oracle: "scope-binding-visibility", Key: "scope-catch-var-leak:" + key, Input: src, Detail: "catch variable e visible at top level"})
					}
					if _, leaked := vars["v"]; leaked {
						o.Fail(Failure{Oracle: "scope-binding-visibility", Key: "scope-loop-var-leak:" + key, Input: src, Detail: "for-in variable v visible at top level"})
					}
				}
			}
		}
	}
	// closures capture their defining scope by reference; invocations do not clobber each other
	closureCases := []struct{ src, want string }{
		{"x = 1\nf = func() { return x }\nx = 2\nprobe(f())", vals.Encode(int64(2))},
		{"mk = func() { var c = 0; return func() { c++; return c } }\na = mk()\nb = mk()\na()\na()\nprobe([a(), b()])", vals.Encode([]interface{}{int64(3), int64(1)})},
		{"func fact(n) { var k = n; if n <= 1 { return 1 }; r = fact(n - 1); return k * r }\nprobe(fact(5))", vals.Encode(int64(120))},
		{"func f(n) { var loc = n; if n > 0 { f(n - 1) }; return loc }\nprobe(f(3))", vals.Encode(int64(3))},
		{"x = \"g\"\nfunc f() { return x }\nfunc g() { var x = \"local\"; return f() }\nprobe(g())", vals.Encode("g")},
		{"module mm { var a = 1; func get() { return a } }\na = 5\nprobe([mm.a, mm.get()])", vals.Encode([]interface{}{int64(1), int64(1)})},
		{"module mm { var hidden = 1 }\nprobe(hidden ?? \"invisible\")", vals.Encode("invisible")},
		// a closure captures its defining scope BY REFERENCE, also when an enclosing scope was still empty when the block was entered
		{"holder = nil\nfunc setup() {\nif true {\nholder = func() { return prefix + \"-b\" }\n}\nprefix = \"x\"\nreturn holder()\n}\nprobe(setup())", vals.Encode("x-b")},
		{"holder = nil\nfunc setup() {\ntry {\nholder = func() { return late }\n} catch e {\n}\nvar late = 7\nreturn holder()\n}\nprobe(setup())", vals.Encode(int64(7))},
		{"hs = []\nfunc poll() {\nn = 0\nfor n < 2 {\nhs += func() { return last }\nn++\n}\nlast = 10\nreturn [hs[0](), hs[1]()]\n}\nprobe(poll())", vals.Encode([]interface{}{int64(10), int64(10)})},
		{"holder = nil\nfunc outer() {\nfunc inner() {\nfor x in [1] {\nholder = func() { return [a, b] }\n}\nb = 2\n}\ninner()\na = 1\nreturn holder()\n}\nprobe(outer())", vals.Encode([]interface{}{int64(1), int64(2)})},
		{"holder = nil\nfunc f() {\nswitch 1 {\ncase 1:\nholder = func() { return z }\n}\nz = \"late\"\nreturn holder()\n}\nprobe(f())", vals.Encode("late")},
		// the same call expression evaluated again looks its callee up again: nearest binding at that time
		{"func app(f, x) { return f(x) }\nprobe([app(id, 1), app(func(v) { return v + 100 }, 1), app(id, 2)])", vals.Encode([]interface{}{int64(1), int64(101), int64(2)})},
		{"say = id\nr = []\nfor i = 0; i < 3; i++ {\nr += say(i)\nsay = func(v) { return v * 10 }\n}\nprobe(r)", vals.Encode([]interface{}{int64(0), int64(10), int64(20)})},
		{"func each(xs, f) {\nfor x in xs {\nf(x)\n}\n}\ntotal = 0\neach([1, 2], probe)\neach([10, 20], func(x) { total += x })\nprobe(total)", vals.Encode(int64(30))},
		// a named function is bound once, in the scope of its declaration: assigning to the name inside the body reaches that binding
		{"loads = 0\nfunc config() {\nloads++\nconfig = func() { return \"cached\" }\nreturn \"loaded\"\n}\nr = [config(), config(), config()]\nprobe([r, loads])",
			vals.Encode([]interface{}{[]interface{}{"loaded", "cached", "cached"}, int64(1)})},
		{"func walk(n) {\nif n == 0 {\nreturn \"old\"\n}\nreturn walk(n - 1)\n}\nold = walk\nfunc walk(n) { return \"new\" }\nprobe(old(3))", vals.Encode("new")},
		{"func f() {\nf = 5\nreturn 1\n}\nf()\nprobe(f)", vals.Encode(int64(5))},
		// an item assignment that replaces the container (append by index, string element, first store into a nil map) stores
		// into the binding that holds the container, wherever the statement runs
		{"a = []\nfor i in [1, 2, 3] {\na[len(a)] = i * 10\n}\nprobe(a)", vals.Encode([]interface{}{int64(10), int64(20), int64(30)})},
		{"stack = []\nfunc push(v) {\nstack[len(stack)] = v\nreturn len(stack)\n}\nprobe([push(1), push(2), stack])", vals.Encode([]interface{}{int64(1), int64(2), []interface{}{int64(1), int64(2)}})},
		{"s = \"ab\"\nif true {\ns[0] = \"A\"\ns[len(s)] = \"c\"\n}\nprobe(s)", vals.Encode("Abc")},
		{"s = \"ab\"\ntry {\ns[1] = \"B\"\n} catch e {\n}\nfunc() { s[0] = \"A\" }()\nprobe(s)", vals.Encode("AB")},
		{"a = [1]\nfunc grow() {\nfor {\na[len(a)] = 2\nbreak\n}\n}\ngrow()\nswitch 1 {\ncase 1:\na[len(a)] = 3\n}\nprobe(a)", vals.Encode([]interface{}{int64(1), int64(2), int64(3)})},
		{"g = probe\nfunc call2() { return g(5) }\ncall2()\ng = func(v) { return v + 1 }\nprobe(call2())", vals.Encode(int64(6))},
		// a var statement with several names evaluates ALL its right sides in the bindings that held before it, then binds
		{"a = 1\nb = 2\nif true {\nvar a, b = b, a\nprobe([a, b])\n}", vals.Encode([]interface{}{int64(2), int64(1)})},
		{"func f(x, y) {\nvar x, y = x + y, x * 10\nreturn [x, y]\n}\nprobe(f(3, 4))", vals.Encode([]interface{}{int64(7), int64(30)})},
		{"n = 5\nfunc g() {\nvar n, got = 50, func() { return n }()\nreturn [n, got]\n}\nprobe(g())", vals.Encode([]interface{}{int64(50), int64(5)})},
		{"c = \"outer\"\nr = nil\nfunc h() {\ntry {\nvar c, d = \"inner\", nosuch\n} catch e {\nr = c\n}\n}\nh()\nprobe(r)", vals.Encode("outer")},
		{"c = \"outer\"\nfunc h2() {\nvar r = nil\nfor k in [1] {\ntry {\nvar c, d, e2 = \"inner\", probe(1), nosuch\n} catch e {\n}\nr = c\n}\nreturn r\n}\nprobe(h2())", vals.Encode("outer")},
		{"x = 1\ny = 2\nz = 3\nfunc sw() {\nvar x, y, z = z, x, y\nreturn [x, y, z]\n}\nprobe([sw(), x, y, z])", vals.Encode([]interface{}{[]interface{}{int64(3), int64(1), int64(2)}, int64(1), int64(2), int64(3)})},
		// a closure made in a block that binds nothing keeps seeing the bindings of the place it was made in, also while and
		// after LATER blocks of the same invocation run under scopes that shadow the names it reads
		{"x = \"global\"\nfunc pick() {\nvar x = \"local\"\nvar get = nil\nif true {\nget = func() { return x }\n}\nvar seen = [get()]\nfor i = 0; i < 1; i++ {\nvar x = \"loop\"\nif i == 0 {\nseen += get()\n}\n}\nseen += get()\nreturn seen\n}\nprobe(pick())",
			vals.Encode([]interface{}{"local", "local", "local"})},
		{"func collect() {\nvar x = \"A\"\nvar fs = []\nif len(fs) == 0 {\nfs += func() { return \"first:\" + x }\n}\nswitch 1 {\ncase 1:\nvar x = \"B\"\nif true {\nfs += func() { return \"second:\" + x }\n}\n}\nreturn [fs[0](), fs[1]()]\n}\nprobe(collect())",
			vals.Encode([]interface{}{"first:A", "second:B"})},
		{"func h() {\nvar x = 1\nvar g = nil\nif x == 2 {\n} else if x == 1 {\ng = func() { return x }\n} else {\n}\nvar r = []\ntry {\nvar x = 50\nif true {\nr += g()\n} else {\n}\n} catch e {\n}\nfor k in [7] {\nvar x = k\nif k == 7 {\nr += g()\n}\n}\nreturn r\n}\nprobe(h())",
			vals.Encode([]interface{}{int64(1), int64(1)})},
		// a Go function that panics deep inside nested blocks of a try body: catch, finally and what follows run in the scope
		// of the try statement, not in the block that was executing
		{"x = \"outer\"\ntotal = 0\nseen = \"-\"\ntry {\nfor i = 0; i < 3; i++ {\nvar total = 100\nif i == 1 {\nvar x = \"inner\"\nboom()\n}\n}\n} catch e {\nseen = x\ntotal += 1\n} finally {\nseen += \"/\" + x\n}\nprobe([seen, total])",
			vals.Encode([]interface{}{"outer/outer", int64(1)})},
		{"func f() {\nvar who = \"f\"\nvar log = []\ntry {\nswitch 1 {\ncase 1:\nvar who = \"case\"\nfor n in [1, 2] {\nvar who = \"loop\"\nboom()\n}\n}\n} catch err {\nlog += \"catch sees \" + who\n}\nlog += \"after sees \" + who\nreturn log\n}\nprobe(f())",
			vals.Encode([]interface{}{"catch sees f", "after sees f"})},
		{"v = \"top\"\nr = (func() {\nvar v = \"fn\"\nif true {\nvar v = \"blk\"\nboom()\n}\n}() ?? v)\nprobe([r, v])", vals.Encode([]interface{}{"top", "top"})},
		// the arguments of a call are evaluated in the CALLER's bindings - also for a function literal called where it is
		// written, whose parameters carry the names the arguments read
		{"a = 1\nb = 2\nprobe(func(a, b) { return [a, b] }(b, a))", vals.Encode([]interface{}{int64(2), int64(1)})},
		{"func step(i) {\nreturn func(i, prev) { return [i, prev] }(i + 1, i)\n}\nprobe(step(5))", vals.Encode([]interface{}{int64(6), int64(5)})},
		{"a = \"arg\"\nprobe(func(first, a, b) { return first + \"/\" + a + \"/\" + b }(\"first\", a, a))", vals.Encode("first/arg/arg")},
		{"x = 10\nprobe(func(x, y, z) { return [x, y, z] }(x + 1, x + 2, func() { return x }()))", vals.Encode([]interface{}{int64(11), int64(12), int64(10)})},
		// a module declared in a block / function / module is a binding of that scope, whatever equally named module is visible
		// outside: the outer module is neither re-opened nor replaced
		{"module config { verbose = false }\nif true {\nmodule config { scratch = \"block-local\" }\nprobe(config.scratch)\n}\nprobe(config.scratch ?? \"undefined\")\nprobe(config.verbose)",
			vals.Encode(false)},
		{"module util { base = 1 }\nmodule c {\nmodule util { extra = 1 }\n}\nprobe([util.extra ?? \"none\", util.base])", vals.Encode([]interface{}{"none", int64(1)})},
		{"module m { v = 1 }\nfunc setup(verbose) {\nmodule m { seen = verbose }\nreturn m.seen\n}\nprobe([setup(true), m.seen ?? \"none\", m.v])", vals.Encode([]interface{}{true, "none", int64(1)})},
		// the variable(s) of a for-in loop live in the loop's scope: equally named variables outside keep their values
		{"v = 7\nk = 8\nfor v in [1, 2] {\n}\nfor k, v in {\"a\": 1} {\n}\nprobe([k, v])", vals.Encode([]interface{}{int64(8), int64(7)})},
		{"func f() {\nvar i = \"mine\"\nfor i in [1, 2, 3] {\ni = i * 2\n}\nreturn i\n}\nprobe(f())", vals.Encode("mine")},
		// the variable of a for-in loop is bound afresh for every element, whatever the body did to that name, for typed slices as for lists
		{"ts = make([]int64, 4)\nfor j = 0; j < 4; j++ {\nts[j] = j\n}\nseen = []\nfor i in ts {\nseen += i\nif i == 1 {\ni = 10\n}\n}\nprobe(seen)", vals.Encode([]interface{}{int64(0), int64(1), int64(2), int64(3)})},
		{"ts = make([]string, 3)\nts[0] = \"a\"\nts[1] = \"b\"\nts[2] = \"c\"\nseen = []\nfor s in ts {\nseen += s\nvar s = \"shadow\"\n}\nprobe(seen)", vals.Encode([]interface{}{"a", "b", "c"})},
		{"seen = []\nfor i in [0, 1, 2, 3] {\nseen += i\nif i == 1 {\ni = 10\n}\n}\nprobe(seen)", vals.Encode([]interface{}{int64(0), int64(1), int64(2), int64(3)})},
		{"tf = make([]float64, 3)\ntf[1] = 1.5\ntf[2] = 2.5\nt = 0\nfor v in tf {\nt += v\nv = 100\n}\nprobe(t)", vals.Encode(float64(4))},
		{"tb = make([]bool, 3)\ntb[2] = true\nn = 0\nfor q in tb {\nif q {\nn++\n}\nq = true\n}\nprobe(n)", vals.Encode(int64(1))},
		{"ts = make([]int64, 3)\nts[0] = 5\nts[1] = 6\nts[2] = 7\nseen = []\nfor i in ts {\nseen += i\ndelete(\"i\")\n}\nprobe(seen)", vals.Encode([]interface{}{int64(5), int64(6), int64(7)})},
	}
	closureCases = append(closureCases, []struct{ src, want string }{
		// a function literal evaluated twice in different scopes gives two closures, each over ITS defining scope - also when the literal declares
		// the captured name again somewhere inside (inner block, loop variable, catch variable, an inner literal's parameter, its own initialiser)
		{"func mk(n) { return func(c) { if c { var n = 100; return n }; return n } }\na = mk(1)\nb = mk(2)\nprobe([a(false), b(false), a(true)])", vals.Encode([]interface{}{int64(1), int64(2), int64(100)})},
		{"func mk(n) { return func() { for n in [7] { }; return n } }\na = mk(1)\nb = mk(2)\nprobe([a(), b()])", vals.Encode([]interface{}{int64(1), int64(2)})},
		{"func mk(n) { return func() { try { throw 1 } catch n { }; return n } }\na = mk(1)\nb = mk(2)\nprobe([a(), b()])", vals.Encode([]interface{}{int64(1), int64(2)})},
		{"func mk(n) { return func() { f = func(n) { return n }; return n + f(0) } }\na = mk(1)\nb = mk(2)\nprobe([a(), b()])", vals.Encode([]interface{}{int64(1), int64(2)})},
		{"func mk(n) { return func() { var n = n * 10; return n } }\na = mk(1)\nb = mk(2)\nprobe([a(), b()])", vals.Encode([]interface{}{int64(10), int64(20)})},
		{"fs = []\nfor i = 0; i < 3; i++ {\nfs += func(k) { return func() { if false { var k = 9 }; return k } }(i)\n}\nprobe([fs[0](), fs[1](), fs[2]()])", vals.Encode([]interface{}{int64(0), int64(1), int64(2)})},
		// `_` is a name like any other: assignment updates the nearest binding or creates one, reads see it
		{"_ = 1\nprobe(_)", vals.Encode(int64(1))},
		{"func f(_) {\n_ = 2\nreturn _\n}\nprobe(f(1))", vals.Encode(int64(2))},
		{"var _ = 1\nfunc() { _ = 7 }()\nprobe(_)", vals.Encode(int64(7))},
		{"_ = 0\nfor _ in [1, 2] {\n}\n_, k = [5, 6]\n_++\nprobe([_, k])", vals.Encode([]interface{}{int64(6), int64(6)})},
		{"_ = \"outer\"\nget = func() { return _ }\nif true {\n_ = \"set in block\"\n}\nprobe(get())", vals.Encode("set in block")},
		// a type bound under the name of a builtin type is a binding like any other: the nearest one is meant
		{"make(type int64, \"text\")\nprobe(make(int64))", vals.Encode("")},
		{"func f() {\nmake(type string, 1)\nreturn make(string)\n}\nprobe([f(), make(string)])", vals.Encode([]interface{}{int64(0), ""})},
		{"make(type bool, 1.5)\nmk = func() { return make([]bool, 1) }\nprobe(mk()[0])", vals.Encode(float64(0))},
		{"if true {\nmake(type float64, \"s\")\nprobe(make(float64))\n}\nprobe(make(float64))", vals.Encode(float64(0))},
		// delete(name, true) removes the NEAREST binding only: the name then refers to the enclosing binding again
		{"x = \"global\"\nfunc f() {\nvar x = \"local\"\ndelete(\"x\", true)\nreturn x\n}\nprobe([f(), x])", vals.Encode([]interface{}{"global", "global"})},
		{"x = 1\nfunc f() {\nvar x = 2\nif true {\nvar x = 3\ndelete(\"x\", true)\nreturn x\n}\n}\nprobe([f(), x])", vals.Encode([]interface{}{int64(2), int64(1)})},
		{"x = \"g\"\nfunc mk() {\nvar x = \"captured\"\nreturn func() { return x }\n}\nget = mk()\nfunc g(x) {\ndelete(\"x\", true)\nreturn x\n}\nprobe([g(\"param\"), get(), x])", vals.Encode([]interface{}{"g", "captured", "g"})},
		{"x = 1\nfor x in [5] {\ndelete(\"x\", true)\nprobe(x)\n}\nprobe(x)", vals.Encode(int64(1))},
		{"x = 1\nfunc f() {\nvar x = 2\ndelete(\"x\")\nreturn x\n}\nprobe([f(), x])", vals.Encode([]interface{}{int64(1), int64(1)})},
		// invocations of one function value running at the same time on several goroutines keep their own parameters
		// (5 parameters / variadic: the functions that go through reflect.MakeFunc; 2 parameters: the direct path)
		{"res = make(chan int64, 8)\nfunc same(a, b, c, d, e) {\nif a != b || b != c || c != d || d != e {\nreturn 1\n}\nreturn 0\n}\nfunc worker(k) {\nvar n = 0\nfor i = 0; i < 4000; i++ {\nn += same(k, k, k, k, k)\n}\nres <- n\n}\nfor k = 0; k < 8; k++ {\ngo worker(k)\n}\ntotal = 0\nfor k = 0; k < 8; k++ {\ntotal += <-res\n}\nprobe(total)", vals.Encode(int64(0))},
		{"res = make(chan int64, 8)\nfunc samev(a, rest...) {\nif a != rest[0] || a != rest[1] || len(rest) != 2 {\nreturn 1\n}\nreturn 0\n}\nfunc worker(k) {\nvar n = 0\nfor i = 0; i < 4000; i++ {\nn += samev(k, k, k)\n}\nres <- n\n}\nfor k = 0; k < 8; k++ {\ngo worker(k)\n}\ntotal = 0\nfor k = 0; k < 8; k++ {\ntotal += <-res\n}\nprobe(total)", vals.Encode(int64(0))},
		{"res = make(chan int64, 8)\nfunc same2(a, b) {\nvar la = a\nvar lb = b\nif la != lb {\nreturn 1\n}\nreturn 0\n}\nfunc worker(k) {\nvar n = 0\nfor i = 0; i < 4000; i++ {\nn += same2(k, k)\n}\nres <- n\n}\nfor k = 0; k < 8; k++ {\ngo worker(k)\n}\ntotal = 0\nfor k = 0; k < 8; k++ {\ntotal += <-res\n}\nprobe(total)", vals.Encode(int64(0))},
	}...)
	// a scope's external lookup belongs to THAT scope: a name it provides is nearer than the bindings of the enclosing scopes, from
	// the scope itself and from every block, function and closure below it (host arrangement: shared base scope, one child per session)
	func() {
		base := env.NewEnv()
		_ = base.Define("who", "outer")
		_ = base.Define("only_outer", "outer-only")
		_ = base.DefineType("Kind", int64(0))
		_ = base.DefineType("uint32", "") // the host binds a type under a builtin name
		session := base.NewEnv()
		session.SetExternalLookup(scopeLookup{vals: map[string]interface{}{"who": "external", "only_ext": "ext-only"}, types: map[string]reflect.Type{"Kind": reflect.TypeOf("")}})
		for _, c := range []struct{ src, want string }{
			{"who", "external"}, {"func f() { return who }\nf()", "external"}, {"x = nil\nif true {\nfor i in [1] {\nx = who\n}\n}\nx", "external"},
			{"g = func() { return func() { return who } }\ng()()", "external"}, {"only_outer", "outer-only"}, {"only_ext", "ext-only"},
			{"module m {\nfunc get() { return who }\n}\nm.get()", "external"}, {"typeOf(make(Kind))", "string"}, {"typeOf(make(uint32))", "string"}, {"func mk() { return typeOf(make([]uint32, 1)[0]) }\nmk()", "string"}, {"func mk() { return typeOf(make(Kind)) }\nmk()", "string"},
		} {
			e := session.NewEnv()
			core.Import(e)
			v, err := vm.Execute(e, nil, c.src)
			o.Sum.Evaluations++
			o.Sum.Hist["external-lookup-on-inner-scope"]++
			if err != nil || fmt.Sprint(v) != c.want {
				o.Fail(Failure{Oracle: "scope-binding-visibility", Key: "scope-external-lookup:" + firstLine(c.src), Input: "base scope: who = \"outer\", type Kind = int64; session scope (child) with an external lookup providing who = \"external\", type Kind = string; script in a child of the session scope:\n" + c.src,
					Detail: fmt.Sprintf("got %v (err %v), expected %s", v, err, c.want)})
			}
		}
	}()
	// binding histories: a block (function body, if block in a loop, top level) defines, assigns, deletes and re-defines a few
	// names that are also bound outside; afterwards every name must denote what a chain of two dictionaries says (the nearest
	// binding, the outer one again once the inner is deleted) - whatever was defined and deleted in that block before
	for it := 0; it < 60+n/20; it++ {
		names := []string{"a", "b", "c"}
		outer := map[string]int64{"a": 100, "b": 200, "c": 300}
		inner := map[string]int64{}
		var body strings.Builder
		steps := 4 + r.Intn(8)
		if it == 0 {
			steps = 0 // the history of the seeded change that first needed this family
			body.WriteString("var a = 1\nvar b = 2\ndelete(\"a\")\nvar b = 3\ndelete(\"b\")\n")
			inner = map[string]int64{}
		}
		for k := 0; k < steps; k++ {
			nm := names[r.Intn(3)]
			v := int64(1 + k)
			switch r.Intn(5) {
			case 0, 1:
				fmt.Fprintf(&body, "var %s = %d\n", nm, v)
				inner[nm] = v
			case 2:
				fmt.Fprintf(&body, "%s = %d\n", nm, v)
				if _, ok := inner[nm]; ok {
					inner[nm] = v
				} else {
					outer[nm] = v
				}
			default:
				fmt.Fprintf(&body, "delete(\"%s\")\n", nm)
				delete(inner, nm)
			}
		}
		look := func(nm string) int64 {
			if v, ok := inner[nm]; ok {
				return v
			}
			return outer[nm]
		}
		wantIn := []interface{}{look("a"), look("b"), look("c")}
		wantOut := []interface{}{outer["a"], outer["b"], outer["c"]}
		var src string
		switch it % 3 {
		case 0:
			src = "a = 100\nb = 200\nc = 300\nfunc f() {\n" + body.String() + "return [a, b, c]\n}\nprobe([f(), [a, b, c]])"
		case 1:
			src = "a = 100\nb = 200\nc = 300\ngot = nil\nfor i = 0; i < 1; i++ {\nif true {\n" + body.String() + "got = [a, b, c]\n}\n}\nprobe([got, [a, b, c]])"
		default:
			src = "a = 100\nb = 200\nc = 300\ngot = nil\ntry {\n" + body.String() + "got = [a, b, c]\n} catch e {\ngot = \"failed\"\n}\nprobe([got, [a, b, c]])"
		}
		stmt, err := parser.ParseSrc(src)
		if err != nil {
			o.Fail(Failure{Oracle: "scope-template-parses", Key: "scope-template-parse", Input: src, Detail: err.Error()})
			continue
		}
		res := runVM(stmt, -1, 3*time.Second)
		o.Case(fmt.Sprintf("(run %d _ %s)", modelFuel, astser.Prog(stmt)), res.line, src, true)
		o.Sum.Hist["binding-history"]++
		want := vals.Encode([]interface{}{wantIn, wantOut})
		if res.err != nil || len(res.trace) == 0 || res.trace[len(res.trace)-1] != want {
			o.Fail(Failure{Oracle: "scope-binding-visibility", Key: "scope-binding-history:" + firstLine(body.String()), Input: src,
				Detail: fmt.Sprintf("trace %v err %v, expected last probe %s (a chain of two dictionaries)", res.trace, res.err, want)})
		}
	}
	for _, c := range closureCases {
		stmt, err := parser.ParseSrc(c.src)
		if err != nil {
			o.Fail(Failure{Oracle: "scope-template-parses", Key: "scope-template-parse", Input: c.src, Detail: err.Error()})
			continue
		}
		res := runVM(stmt, -1, 3*time.Second)
		o.Case(fmt.Sprintf("(run %d _ %s)", modelFuel, astser.Prog(stmt)), res.line, c.src, true)
		if res.err != nil || len(res.trace) == 0 || res.trace[len(res.trace)-1] != c.want {
			o.Fail(Failure{Oracle: "closure-semantics", Key: "closure:" + firstLine(c.src), Input: c.src, Detail: fmt.Sprintf("trace %v err %v, expected last probe %s", res.trace, res.err, c.want)})
		}
	}
}

// parseVars extracts the vars=((name val) ...) part of a result line.
func parseVars(line string) map[string]string {
	out := map[string]string{}
	i := strings.Index(line, " vars=(")
	if i < 0 {
		return out
	}
	s := line[i+len(" vars=(") : len(line)-1]
	depth := 0
	start := -1
	for j := 0; j < len(s); j++ {
		switch s[j] {
		case '(':
			if depth == 0 {
				start = j
			}
			depth++
		case ')':
			depth--
			if depth == 0 && start >= 0 {
				ent := s[start+1 : j]
				if k := strings.Index(ent, " "); k > 0 {
					out[ent[:k]] = ent[k+1:]
				}
			}
		}
	}
	return out
}

// scopeLookup is an external lookup backed by two tables.
type scopeLookup struct {
	vals  map[string]interface{}
	types map[string]reflect.Type
}

func (l scopeLookup) Get(name string) (reflect.Value, error) {
	if v, ok := l.vals[name]; ok {
		return reflect.ValueOf(v), nil
	}
	return reflect.Value{}, fmt.Errorf("not found")
}

func (l scopeLookup) Type(name string) (reflect.Type, error) {
	if t, ok := l.types[name]; ok {
		return t, nil
	}
	return nil, fmt.Errorf("not found")
}
