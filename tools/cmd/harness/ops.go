package main

import (
	"context"
	"fmt"
	"math"
	"math/rand"
	"reflect"
	"regexp"
	"strconv"
	"strings"
	"time"

	"github.com/mattn/anko/ast"
	"github.com/mattn/anko/env"
	"github.com/mattn/anko/parser"
	"github.com/mattn/anko/vm"

	"veriftools/internal/vals"
)

func init() {
	streams["ops"] = streamOps
}

var decDigitsRe = regexp.MustCompile(`^[0-9]+$`)

var arithOps = []string{"+", "-", "*", "/", "%", "|", "&", "<<", ">>", "<", "<=", ">", ">="}
var eqOps = []string{"==", "!="}
var logicOps = []string{"&&", "||"}
var unOps = []string{"-", "^", "!"}

// operand tree
type tnode struct {
	op      string // "" = leaf
	l, r    *tnode // r == nil for unary
	val     interface{}
	wrapped bool // leaf read from a slice element (interface-typed)
	literal bool // leaf spelled as a literal when possible
}

type treeBuilder struct {
	vars map[string]interface{}
	n    int
}

func (tb *treeBuilder) src(t *tnode) string {
	if t.op == "" {
		if t.literal {
			if s, ok := vals.Literal(t.val); ok {
				// a negative literal directly after a binary minus would lex as "--"; parenthesise
				if strings.HasPrefix(s, "-") {
					return "(" + s + ")"
				}
				return s
			}
		}
		name := fmt.Sprintf("v%d", tb.n)
		tb.n++
		if t.wrapped {
			tb.vars[name] = []interface{}{t.val}
			return name + "[0]"
		}
		tb.vars[name] = t.val
		return name
	}
	if t.r == nil {
		return t.op + "(" + tb.src(t.l) + ")"
	}
	return "(" + tb.src(t.l) + ") " + t.op + " (" + tb.src(t.r) + ")"
}

func (t *tnode) sexp() string {
	if t.op == "" {
		e := vals.Encode(t.val)
		if t.wrapped && t.val != nil {
			e = "(w " + e + ")"
		}
		return "(v " + e + ")"
	}
	if t.r == nil {
		return "(un " + t.op + " " + t.l.sexp() + ")"
	}
	return "(bin " + t.op + " " + t.l.sexp() + " " + t.r.sexp() + ")"
}

func leaf(v interface{}, r *rand.Rand) *tnode {
	return &tnode{val: v, wrapped: r.Intn(3) == 0, literal: r.Intn(3) == 0}
}

// nativeBinary computes what Go computes for one operator on int64/float64 operands
// (the C05 oracle). ok=false when the oracle does not cover the combination.
func nativeBinary(op string, a, b interface{}) (res interface{}, isErr bool, ok bool) {
	ai, aInt := a.(int64)
	bi, bInt := b.(int64)
	af, aFl := a.(float64)
	bf, bFl := b.(float64)
	if !(aInt || aFl) || !(bInt || bFl) {
		return nil, false, false
	}
	tof := func(isInt bool, i int64, f float64) float64 {
		if isInt {
			return float64(i)
		}
		return f
	}
	x, y := tof(aInt, ai, af), tof(bInt, bi, bf)
	if aInt && bInt {
		switch op {
		case "+":
			return ai + bi, false, true
		case "-":
			return ai - bi, false, true
		case "*":
			return ai * bi, false, true
		case "/":
			return float64(ai) / float64(bi), false, true
		case "%":
			if bi == 0 {
				return nil, true, true
			}
			return ai % bi, false, true
		case "|":
			return ai | bi, false, true
		case "&":
			return ai & bi, false, true
		case "<<":
			return ai << uint64(bi), false, true
		case ">>":
			return ai >> uint64(bi), false, true
		case "<":
			return ai < bi, false, true
		case "<=":
			return ai <= bi, false, true
		case ">":
			return ai > bi, false, true
		case ">=":
			return ai >= bi, false, true
		}
		return nil, false, false
	}
	switch op {
	case "+":
		return x + y, false, true
	case "-":
		return x - y, false, true
	case "*":
		return x * y, false, true
	case "/":
		return x / y, false, true
	case "<":
		return x < y, false, true
	case "<=":
		return x <= y, false, true
	case ">":
		return x > y, false, true
	case ">=":
		return x >= y, false, true
	}
	return nil, false, false
}

func sameValue(a, b interface{}) bool {
	if fa, ok := a.(float64); ok {
		fb, ok := b.(float64)
		return ok && math.Float64bits(fa) == math.Float64bits(fb) || (ok && math.IsNaN(fa) && math.IsNaN(fb))
	}
	return vals.Encode(a) == vals.Encode(b)
}

func streamOps(o *Out, r *rand.Rand, n int, thorough bool) {
	o.Sum.Rule = "operator applications: every arithmetic/ordering/logical/unary operator x every pair of the numeric boundary pool (systematic), " +
		"plus random operand pairs over the whole value pool and random trees of depth <= 3; operands come from variables, slice elements or literals; " +
		"non-trivial = not both operands nil; distinct by request hash"
	emit := func(t *tnode, class string) outcome {
		tb := &treeBuilder{vars: map[string]interface{}{}}
		src := tb.src(t)
		out := runScript(src, tb.vars, nil)
		ans := out.answer(vals.Encode)
		o.Case("(tree "+t.sexp()+")", ans, src+"  with "+fmt.Sprint(tb.vars), true)
		o.Sum.Hist["class:"+class]++
		switch {
		case out.panicked:
			o.Sum.Hist["outcome:panic"]++
			o.Fail(Failure{Oracle: "no-panic", Key: "panic:" + fmt.Sprint(out.panicVal), Input: src + " with " + fmt.Sprint(tb.vars), Detail: fmt.Sprint(out.panicVal)})
		case out.err != nil:
			o.Sum.Hist["outcome:error"]++
		default:
			o.Sum.Hist["outcome:value"]++
		}
		return out
	}
	numeric := []interface{}{}
	for _, i := range vals.Ints {
		numeric = append(numeric, i)
	}
	for _, f := range vals.Floats {
		numeric = append(numeric, f)
	}
	// 1. systematic: every operator x numeric pair (quick: operands as variables; thorough also wrapped / literal)
	modes := 1
	if thorough {
		modes = 3
	}
	for _, op := range append(append([]string{}, arithOps...), logicOps...) {
		for _, a := range numeric {
			for _, b := range numeric {
				for m := 0; m < modes; m++ {
					t := &tnode{op: op, l: &tnode{val: a, wrapped: m == 1, literal: m == 2}, r: &tnode{val: b, wrapped: m == 1, literal: m == 2}}
					out := emit(t, "numeric-pair")
					// C05 oracle: the interpreter computes what Go computes
					if want, wantErr, ok := nativeBinary(op, a, b); ok && !out.panicked {
						if wantErr != (out.err != nil) || (!wantErr && !sameValue(want, out.val)) {
							o.Fail(Failure{Oracle: "go-arithmetic", Key: "arith:" + op, Input: fmt.Sprintf("%v %s %v (mode %d)", a, op, b, m),
								Detail: fmt.Sprintf("Go computes %v (%T, error=%v); interpreter gave %v (%T), err=%v", want, want, wantErr, out.val, out.val, out.err)})
						}
					}
				}
			}
		}
	}
	// == and != on two int64 operands are exact (never through float64): every ordered pair of the integer pool
	for _, op := range eqOps {
		for _, a := range vals.Ints {
			for _, b := range vals.Ints {
				for m := 0; m < modes; m++ {
					t := &tnode{op: op, l: &tnode{val: a, wrapped: m == 1, literal: m == 2}, r: &tnode{val: b, wrapped: m == 1, literal: m == 2}}
					out := emit(t, "int-pair-equality")
					want := (a == b) == (op == "==")
					if !out.panicked && (out.err != nil || !sameValue(want, out.val)) {
						o.Fail(Failure{Oracle: "go-arithmetic", Key: "int-eq:" + op, Input: fmt.Sprintf("%v %s %v (mode %d)", a, op, b, m),
							Detail: fmt.Sprintf("Go computes %v; interpreter gave %v (%T), err=%v", want, out.val, out.val, out.err)})
					}
				}
			}
		}
	}
	// string * n with counts of every Go type whose kind is int / int32 / int64 - defined types included (time.Month, a host's own
	// `type Level int`): the count is the number, whatever the type's name
	type opsLevel int
	type opsTicks int64
	for _, c := range []struct {
		name string
		v    interface{}
		n    int
	}{{"int64", int64(3), 3}, {"int", int(2), 2}, {"int32", int32(2), 2}, {"time.Month", time.Month(3), 3}, {"time.Weekday", time.Weekday(2), 2}, {"time.Duration", time.Duration(2), 2},
		{"Level", opsLevel(3), 3}, {"Ticks", opsTicks(0), 0}, {"Ticks", opsTicks(4), 4}} {
		for _, src := range []string{"\"ab\" * n", "s * n", "ss[0] * n", "\"ab\" * ns[0]"} {
			out := runScript(src, map[string]interface{}{"n": c.v, "s": "ab", "ss": []string{"ab"}, "ns": []interface{}{c.v}}, nil)
			o.Sum.Evaluations++
			o.Sum.Hist["repeat-count-types"]++
			want := strings.Repeat("ab", c.n)
			if out.panicked || out.err != nil || !sameValue(want, out.val) {
				o.Fail(Failure{Oracle: "go-arithmetic", Key: "repeat-count-type:" + c.name, Input: fmt.Sprintf("%s with n = %s(%v)", src, c.name, c.v),
					Detail: fmt.Sprintf("strings.Repeat gives %q; interpreter gave %v (%T), err=%v", want, out.val, out.val, out.err)})
			}
		}
	}
	for _, c := range []interface{}{time.Month(-1), opsLevel(-2)} {
		out := runScript("\"ab\" * n", map[string]interface{}{"n": c}, nil)
		o.Sum.Evaluations++
		if out.panicked || out.err == nil {
			o.Fail(Failure{Oracle: "go-arithmetic", Key: "repeat-count-type:negative", Input: fmt.Sprintf("\"ab\" * n with n = %T(%v)", c, c), Detail: fmt.Sprintf("a negative count is an error; got %v", out.val)})
		}
	}
	// float32 operands (host values, elements of a []float32, struct fields): as soon as one operand is a float the operation is
	// carried out in float64, the float32 widened exactly as Go's float64(x) does
	f32s := []float32{2.5, 1.1, 0.1, -0.25, 3, 16777216, 1.0 / 3}
	others := []interface{}{int64(2), int64(-3), int64(0), int64(1), 1.1, 0.5, 2.0, float32(1.1), float32(2.5)}
	for _, fa := range f32s {
		for _, ob := range others {
			for _, src := range []string{"a", "fs[0]", "st.F"} {
				for _, order := range []int{0, 1} {
					for _, op := range []string{"+", "-", "*", "/", "<", "<=", ">", ">="} {
						l, rr := src, "b"
						if order == 1 {
							l, rr = "b", src
						}
						toF := func(x interface{}) float64 {
							switch v := x.(type) {
							case int64:
								return float64(v)
							case float64:
								return v
							case float32:
								return float64(v)
							}
							return 0
						}
						x, y := float64(fa), toF(ob)
						if order == 1 {
							x, y = y, x
						}
						var want interface{}
						switch op {
						case "+":
							want = x + y
						case "-":
							want = x - y
						case "*":
							want = x * y
						case "/":
							want = x / y
						case "<":
							want = x < y
						case "<=":
							want = x <= y
						case ">":
							want = x > y
						case ">=":
							want = x >= y
						}
						text := l + " " + op + " " + rr
						out := runScript(text, map[string]interface{}{"a": fa, "b": ob, "fs": []float32{fa}, "st": &struct{ F float32 }{fa}}, nil)
						o.Sum.Evaluations++
						o.Sum.Hist["float32-operand"]++
						if out.panicked || out.err != nil || !sameValue(want, out.val) {
							o.Fail(Failure{Oracle: "go-arithmetic", Key: "float32-operand:" + op, Input: fmt.Sprintf("%s with a = fs[0] = st.F = float32(%v), b = %T(%v)", text, fa, ob, ob),
								Detail: fmt.Sprintf("Go computes %v in float64; interpreter gave %v (%T), err=%v", want, out.val, out.val, out.err)})
						}
					}
				}
			}
			neg := runScript("-a", map[string]interface{}{"a": fa}, nil)
			if neg.panicked || neg.err != nil || !sameValue(-float64(fa), neg.val) {
				o.Fail(Failure{Oracle: "go-arithmetic", Key: "float32-operand:neg", Input: fmt.Sprintf("-a with a = float32(%v)", fa), Detail: fmt.Sprintf("Go computes %v; interpreter gave %v (%T)", -float64(fa), neg.val, neg.val)})
			}
		}
	}
	// one + in the source, evaluated again and again with operands of other kinds (function body, loop body, +=): every evaluation decides anew
	for _, c := range []struct {
		src  string
		want interface{}
	}{{"func add(x, y) { return x + y }\n[add(1, 2), add(1, 2.5), add(1, \"2\"), add(1, 2)]", []interface{}{int64(3), 3.5, "12", int64(3)}},
		{"func add(x, y) { return x + y }\n[add(1, \"2\"), add(1, 2), add(1.5, 2), add(\"1\", 2), add(1, 2.5)]", []interface{}{"12", int64(3), 3.5, "12", 3.5}},
		{"s = 0\nfor v in [1, 2.5] {\ns += v\n}\ns", 3.5}, {"s = 0\nfor v in [1, \"x\", 2] {\ns += v\n}\ns", "1x2"},
		{"s = 9007199254740993\nfor v in [0, 0.0] {\ns = s + v\n}\ns", 9007199254740992.0}, {"r = []\nfor v in [2, 2.0, \"2\", 2] {\nr += [1 + v]\n}\nr", []interface{}{int64(3), 3.0, "12", int64(3)}},
		{"func m(x, y) { return x * y }\n[m(2, 3), m(2, 1.5), m(\"ab\", 2), m(2, 3)]", []interface{}{int64(6), 3.0, "abab", int64(6)}},
		{"func lt(x, y) { return x < y }\n[lt(1, 2), lt(1, 0.5), lt(9007199254740993, 9007199254740992), lt(1, 2)]", []interface{}{true, false, false, true}}} {
		out := runScript(c.src, nil, nil)
		o.Sum.Evaluations++
		o.Sum.Hist["class:operator-node-again"]++
		if out.panicked || out.err != nil || !sameValue(c.want, out.val) {
			o.Fail(Failure{Oracle: "go-arithmetic", Key: "operator-node-again", Input: c.src, Detail: fmt.Sprintf("each evaluation by its own operands gives %v; the interpreter gave %v err %v", c.want, out.val, out.err)})
		}
	}
	// chains: a + b + c is (a + b) + c - every + decides between concatenation, float64 and int64 on ITS two operands
	for _, c := range []struct {
		src  string
		want interface{}
	}{{"1 + 2 + \"a\"", "3a"}, {"1 + 2.5 + \"x\"", "3.5x"}, {"\"a\" + 1 + 2", "a12"}, {"1 + \"a\" + 2", "1a2"}, {"9223372036854775807 + 1 + \"!\"", "-9223372036854775808!"}, {"1 + 2 + 3 + \"x\"", "6x"},
		{"1 + 2 + 3 + 4.5", 10.5}, {"0.5 + 1 + \"s\" + 1 + 2", "1.5s12"}, {"a + b + \" items\"", "3 items"}, {"a + b + c + \"\"", "6"}, {"a * b + c + \"!\"", "5!"}, {"1 - 2 + \"a\"", "-1a"}} {
		out := runScript(c.src, map[string]interface{}{"a": int64(1), "b": int64(2), "c": int64(3)}, nil)
		o.Sum.Evaluations++
		o.Sum.Hist["class:plus-chain"]++
		if out.panicked || out.err != nil || !sameValue(c.want, out.val) {
			o.Fail(Failure{Oracle: "string-concat", Key: "plus-chain", Input: c.src + "  (a = 1, b = 2, c = 3)", Detail: fmt.Sprintf("left to right, pair by pair, the result is %v (%T); the interpreter gave %v (%T) err %v", c.want, c.want, out.val, out.val, out.err)})
		}
	}
	{
		var pool []interface{}
		for _, v := range vals.All() {
			switch x := v.(type) {
			case int64, float64:
				pool = append(pool, v)
			case string:
				if len(x) < 8 {
					pool = append(pool, v)
				}
			}
		}
		for i := 0; i < 400 && len(pool) > 0; i++ {
			vars := map[string]interface{}{"a": pool[r.Intn(len(pool))], "b": pool[r.Intn(len(pool))], "c": pool[r.Intn(len(pool))], "d": pool[r.Intn(len(pool))]}
			for _, pair := range [][2]string{{"a + b + c", "(a + b) + c"}, {"a + b + c + d", "((a + b) + c) + d"}, {"a - b + c", "(a - b) + c"}} {
				chain, paren := runScript(pair[0], vars, nil), runScript(pair[1], vars, nil)
				o.Sum.Evaluations++
				o.Sum.Hist["class:plus-chain-vs-parenthesised"]++
				if chain.panicked || paren.panicked || (chain.err == nil) != (paren.err == nil) || (chain.err == nil && (!sameValue(paren.val, chain.val) || fmt.Sprintf("%T", paren.val) != fmt.Sprintf("%T", chain.val))) {
					o.Fail(Failure{Oracle: "string-concat", Key: "plus-chain", Input: fmt.Sprintf("%s with a = %#v, b = %#v, c = %#v, d = %#v", pair[0], vars["a"], vars["b"], vars["c"], vars["d"]),
						Detail: fmt.Sprintf("%s gives %v (%T); the chain gives %v (%T) (errors %v / %v)", pair[1], paren.val, paren.val, chain.val, chain.val, paren.err, chain.err)})
				}
			}
		}
	}
	// integers of the other Go kinds (host values, bytes of a []byte, struct fields) against floats and strings, both orders: float64
	// as soon as one operand is a float, concatenation with a string - whichever side the integer is on
	{
		ints := []struct {
			v interface{}
			n int64
		}{{uint8(1), 1}, {uint8(200), 200}, {uint16(3), 3}, {uint32(7), 7}, {uint64(9), 9}, {uint(5), 5}, {int8(-4), -4}, {int16(6), 6}, {int32(-8), -8}, {int(11), 11}}
		for _, iv := range ints {
			for _, f := range []float64{1.5, -0.25, 2} {
				for _, op := range []string{"+", "-", "*", "<", "<=", ">", ">="} {
					for order := 0; order < 2; order++ {
						x, y := float64(iv.n), f
						text := "a " + op + " b"
						if order == 1 {
							x, y = f, float64(iv.n)
							text = "b " + op + " a"
						}
						var want interface{}
						switch op {
						case "+":
							want = x + y
						case "-":
							want = x - y
						case "*":
							want = x * y
						case "<":
							want = x < y
						case "<=":
							want = x <= y
						case ">":
							want = x > y
						case ">=":
							want = x >= y
						}
						for _, form := range []string{text, strings.NewReplacer("a", "xs[0]").Replace(text)} {
							out := runScript(form, map[string]interface{}{"a": iv.v, "b": f, "xs": []interface{}{iv.v}}, nil)
							o.Sum.Evaluations++
							o.Sum.Hist["other-integer-kind-against-float"]++
							if out.panicked || out.err != nil || !sameValue(want, out.val) || fmt.Sprintf("%T", want) != fmt.Sprintf("%T", out.val) {
								o.Fail(Failure{Oracle: "float-as-soon-as-one-operand-is", Key: "integer-kind-against-float:" + op, Input: fmt.Sprintf("%s with a = xs[0] = %T(%v), b = %v", form, iv.v, iv.v, f),
									Detail: fmt.Sprintf("in float64 the result is %v; the interpreter gave %v (%T) err %v", want, out.val, out.val, out.err)})
							}
						}
					}
				}
			}
			for order := 0; order < 2; order++ {
				text, want := "a + s", fmt.Sprint(iv.n)+"x"
				if order == 1 {
					text, want = "s + a", "x"+fmt.Sprint(iv.n)
				}
				out := runScript(text, map[string]interface{}{"a": iv.v, "s": "x"}, nil)
				o.Sum.Evaluations++
				if out.panicked || out.err != nil || out.val != want {
					o.Fail(Failure{Oracle: "string-concat", Key: "integer-kind-concat", Input: fmt.Sprintf("%s with a = %T(%v), s = \"x\"", text, iv.v, iv.v),
						Detail: fmt.Sprintf("a number and a string concatenate to %q; the interpreter gave %v (%T) err %v", want, out.val, out.val, out.err)})
				}
			}
		}
		out := runScript("bs = toByteSlice(\"A\")\n[bs[0] + 0.5, 0.5 + bs[0], bs[0] * 1.5, bs[0] - 0.5]", nil, coreEnv)
		o.Sum.Evaluations++
		if out.panicked || out.err != nil || fmt.Sprint(out.val) != "[65.5 65.5 97.5 64.5]" {
			o.Fail(Failure{Oracle: "float-as-soon-as-one-operand-is", Key: "integer-kind-against-float:byte", Input: "bs = toByteSlice(\"A\"); [bs[0] + 0.5, 0.5 + bs[0], bs[0] * 1.5, bs[0] - 0.5]",
				Detail: fmt.Sprintf("in float64: [65.5 65.5 97.5 64.5]; the interpreter gave %v (err %v)", out.val, out.err)})
		}
	}
	for _, op := range unOps {
		for _, a := range vals.All() {
			for m := 0; m < 3; m++ {
				t := &tnode{op: op, l: &tnode{val: a, wrapped: m == 1, literal: m == 2}}
				out := emit(t, "unary")
				if ai, ok := a.(int64); ok && !out.panicked && out.err == nil {
					var want interface{}
					switch op {
					case "-":
						want = -ai
					case "^":
						want = ^ai
					case "!":
						want = ai == 0
					}
					if !sameValue(want, out.val) {
						o.Fail(Failure{Oracle: "go-arithmetic", Key: "unary:" + op, Input: fmt.Sprintf("%s%v (mode %d)", op, a, m), Detail: fmt.Sprintf("Go computes %v; interpreter gave %v (%T)", want, out.val, out.val)})
					}
				}
				if af, ok := a.(float64); ok && op == "-" && !out.panicked && out.err == nil {
					if !sameValue(-af, out.val) {
						o.Fail(Failure{Oracle: "go-arithmetic", Key: "unary:" + op, Input: fmt.Sprintf("%s%v (mode %d)", op, a, m), Detail: fmt.Sprintf("Go computes %v; interpreter gave %v (%T)", -af, out.val, out.val)})
					}
				}
			}
		}
	}
	// 1a'. string operands: + with a string operand concatenates (the other operand as decimal text), also with the empty
	// string; a string of decimal digits - leading zeros included - counts as that decimal number for - * % | & << >>
	for _, str := range vals.Strs {
		for _, i := range []int64{0, 1, 5, -3, 4096, 10} {
			for order := 0; order < 2; order++ {
				var a, b interface{} = str, i
				if order == 1 {
					a, b = i, str
				}
				t := &tnode{op: "+", l: &tnode{val: a}, r: &tnode{val: b}}
				out := emit(t, "string-operand")
				want := fmt.Sprint(a) + fmt.Sprint(b)
				if !out.panicked && (out.err != nil || !sameValue(want, out.val)) {
					o.Fail(Failure{Oracle: "string-concatenation", Key: "concat:+", Input: fmt.Sprintf("%#v + %#v", a, b),
						Detail: fmt.Sprintf("expected the string %q, got %#v (err %v)", want, out.val, out.err)})
				}
			}
			if !decDigitsRe.MatchString(str) {
				continue
			}
			n, perr := strconv.ParseInt(str, 10, 64)
			if perr != nil {
				continue
			}
			for _, op := range []string{"-", "*", "%", "|", "&", "<<", ">>"} {
				for order := 0; order < 2; order++ {
					var a, b interface{} = str, i
					x, y := n, i
					if order == 1 {
						a, b = i, str
						x, y = i, n
					}
					if op == "*" && order == 0 {
						continue // string * int repeats the string
					}
					t := &tnode{op: op, l: &tnode{val: a}, r: &tnode{val: b}}
					out := emit(t, "string-operand")
					if want, wantErr, ok := nativeBinary(op, x, y); ok && !out.panicked {
						if wantErr != (out.err != nil) || (!wantErr && !sameValue(want, out.val)) {
							o.Fail(Failure{Oracle: "go-arithmetic", Key: "digit-string:" + op, Input: fmt.Sprintf("%#v %s %#v", a, op, b),
								Detail: fmt.Sprintf("the digit string denotes %d, so Go computes %v (error=%v); interpreter gave %v (%T), err=%v", n, want, wantErr, out.val, out.val, out.err)})
						}
					}
				}
			}
		}
	}
	// 1b. "carried out in float64 as soon as one operand is a float": a float against every value of the pool, both orders;
	// when the operator yields a value at all it is a float64 (string repetition and list append aside), and when the
	// other operand denotes a number (numeric string, bool) it is the float64 result on that number
	for _, op := range []string{"-", "*", "+"} {
		for _, f := range []float64{0.5, -2.25, 7.75, 1e18} {
			for _, other := range vals.All() {
				// the property quantifies over int64, float64 and string operands
				switch other.(type) {
				case int64, float64:
				case string:
					if op != "-" {
						continue // + concatenates, * repeats
					}
				default:
					continue
				}
				var denotes *float64
				switch x := other.(type) {
				case int64:
					v := float64(x)
					denotes = &v
				case float64:
					denotes = &x
				case bool:
					v := 0.0
					if x {
						v = 1
					}
					denotes = &v
				case string:
					if decFloatRe.MatchString(x) || decIntRe.MatchString(x) {
						if v, err := strconv.ParseFloat(strings.ReplaceAll(x, "_", ""), 64); err == nil {
							denotes = &v
						}
					}
				}
				for order := 0; order < 2; order++ {
					var a, b interface{} = f, other
					if order == 1 {
						a, b = other, f
					}
					t := &tnode{op: op, l: &tnode{val: a}, r: &tnode{val: b}}
					out := emit(t, "float-against-pool")
					if out.panicked || out.err != nil {
						continue
					}
					got, isFloat := out.val.(float64)
					if !isFloat {
						o.Fail(Failure{Oracle: "float-as-soon-as-one-operand-is", Key: "float-result-kind:" + op, Input: fmt.Sprintf("%v (%T) %s %v (%T)", a, a, op, b, b),
							Detail: fmt.Sprintf("one operand is a float64 but the result is %v (%T)", out.val, out.val)})
						continue
					}
					if denotes != nil {
						x, y := f, *denotes
						if order == 1 {
							x, y = *denotes, f
						}
						want := map[string]float64{"-": x - y, "*": x * y, "+": x + y}[op]
						if !sameValue(want, got) {
							o.Fail(Failure{Oracle: "float-as-soon-as-one-operand-is", Key: "float-result-value:" + op, Input: fmt.Sprintf("%v (%T) %s %v (%T)", a, a, op, b, b),
								Detail: fmt.Sprintf("in float64 the result is %v; the interpreter gave %v", want, got)})
						}
					}
				}
			}
		}
	}
	// 1c. small integers are values, not shared cells: a script that writes through every handle it can get to a small result
	// (compound assignment, increment, address-of) must not change what later arithmetic - anywhere in the process - computes
	poisons := []string{
		"i = 0\ni++\np = &i\n*p = 50", "i = 5\ni += 1\np = &i\n*p = 77", "i = 3\ni--\np = &i\n*p = -9", "i = 2\ni *= 2\np = &i\n*p = 1000", "i = 7\ni -= 7\np = &i\n*p = 5",
		"i = 1\ni |= 2\np = &i\n*p = 44", "i = 7\ni &= 3\np = &i\n*p = 45", "i = 10\ni /= 2\np = &i\n*p = 46", "i = 1\ni <<= 3\np = &i\n*p = 47", "n = len(\"abc\")\np = &n\n*p = 48",
		"r = &(2000 + 48)\n*r = 1", "p = &(1 + 2)\n*p = 70", "p = &len(\"abcd\")\n*p = 71", "p = &(-(-2))\n*p = 72", "p = &(3 * 3)\n*p = 73", "p = &((1 + 4))\n*p = 74", "p = &(6 % 4)\n*p = 75",
		"func f() { return 5 + 5 }\np = &f()\n*p = 76", "i = 20\ni++\nfunc g(q) { *q = 78 }\ng(&i)", "m = {\"k\": 10 + 1}\np = &m.k\n*p = 79", "a = [11 + 1]\np = &a[0]\n*p = 80",
		"a = 2 + 4\np = &a\n*p = 100", "for i = 0; i < 5; i++ {\np = &i\n}\nj = 4\nj++\nq = &j\n*q = 99", "x = [1 + 1][0]\np = &x\n*p = 60", "func f() { return 1 + 2 }\nr = f()\nr++\np = &r\n*p = 61",
	}
	checks := []struct {
		src  string
		want int64
	}{{"0 + 1", 1}, {"3 - 2", 1}, {"5 + 1", 6}, {"4 - 2", 2}, {"2 * 2", 4}, {"0 * 7", 0}, {"1 | 2", 3}, {"7 & 3", 3}, {"1 << 3", 8}, {"len(\"abc\")", 3}, {"2 + 4", 6}, {"4 + 1", 5}, {"1 + 1", 2}, {"1 + 2", 3}, {"3 + 1", 4},
		{"n = 0\nfor i = 0; i < 3; i++ {\nn++\n}\nn", 3}, {"-(-1)", 1}, {"10 % 7", 3}, {"16 >> 2", 4},
		{"2040 + 8", 2048}, {"len(\"abcd\")", 4}, {"-(-2)", 2}, {"3 * 3", 9}, {"6 % 4", 2}, {"5 + 5", 10}, {"20 + 1", 21}, {"10 + 1", 11}, {"11 + 1", 12}, {"40 + 1", 41}}
	hostPoison := "[host] vm.Execute(e, \"i = 40; i++\"); p, _ := e.Addr(\"i\"); if p can be set: *p = 81"
poisonLoop:
	for _, ps := range append([]string{hostPoison}, poisons...) {
		if ps == hostPoison {
			// the host side of the same history: the address the Env hands out for a variable bound to a small result
			_ = runScript("i = 40\ni++", nil, func(e *env.Env) {
				defer func() {
					if a, err := e.Addr("i"); err == nil && a.Kind() == reflect.Ptr && !a.IsNil() && a.Elem().CanSet() && a.Elem().Kind() == reflect.Int64 {
						a.Elem().SetInt(81)
					}
				}()
				_, _ = vm.Execute(e, nil, "i = 40\ni++")
			})
		} else {
			_ = runScript(ps, nil, nil)
		}
		for _, c := range checks {
			out := runScript(c.src, nil, nil)
			o.Sum.Evaluations++
			o.Sum.Hist["class:after-poison"]++
			if out.panicked || out.err != nil || !sameValue(c.want, out.val) {
				o.Fail(Failure{Oracle: "go-arithmetic", Key: "small-int-shared-cell", Input: ps + "\n--- then, in a fresh environment ---\n" + c.src,
					Detail: fmt.Sprintf("Go computes %d; after the first script the interpreter gives %v (err %v)", c.want, out.val, out.err)})
				// the table is shared by the whole process: histories after this one would be blamed for the same write
				break poisonLoop
			}
		}
	}
	// 2. random pairs over the whole pool (strings, containers, nil, bools included)
	all := vals.All()
	allOps := append(append(append([]string{}, arithOps...), logicOps...), eqOps...)
	for i := 0; i < n; i++ {
		a, b := all[r.Intn(len(all))], all[r.Intn(len(all))]
		op := allOps[r.Intn(len(allOps))]
		if sa, ok := a.(string); ok && op == "*" {
			// resource class (astronomically large allocations) is outside C05/C01: bound the repeat size
			if bi, ok := b.(int64); ok && bi > 0 && (len(sa) == 0 || bi > int64(60000/len(sa))) && len(sa) > 0 {
				o.Sum.Skipped++
				continue
			}
		}
		t := &tnode{op: op, l: leaf(a, r), r: leaf(b, r)}
		out := emit(t, "mixed-pair")
		// string tower oracle
		if sa, ok := a.(string); ok && op == "+" && !out.panicked {
			switch bv := b.(type) {
			case string:
				if out.err != nil || out.val != sa+bv {
					o.Fail(Failure{Oracle: "string-concat", Key: "concat", Input: fmt.Sprintf("%q + %q", sa, bv), Detail: fmt.Sprintf("got %v err=%v", out.val, out.err)})
				}
			case int64, float64:
				if out.err != nil || out.val != sa+fmt.Sprint(bv) {
					o.Fail(Failure{Oracle: "string-concat", Key: "concat-number", Input: fmt.Sprintf("%q + %v", sa, bv), Detail: fmt.Sprintf("want %q got %v err=%v", sa+fmt.Sprint(bv), out.val, out.err)})
				}
			}
		}
		if sa, ok := a.(string); ok && op == "*" && !out.panicked {
			if bi, ok := b.(int64); ok && bi >= 0 && bi < 1000 {
				if out.err != nil || out.val != strings.Repeat(sa, int(bi)) {
					o.Fail(Failure{Oracle: "string-repeat", Key: "repeat", Input: fmt.Sprintf("%q * %d", sa, bi), Detail: fmt.Sprintf("got %v err=%v", out.val, out.err)})
				}
			}
		}
	}
	// 3. random trees of depth <= 3 over numerics (result independent of path / shape)
	var mk func(d int) *tnode
	mk = func(d int) *tnode {
		if d == 0 || r.Intn(4) == 0 {
			return leaf(numeric[r.Intn(len(numeric))], r)
		}
		if r.Intn(6) == 0 {
			return &tnode{op: unOps[r.Intn(len(unOps))], l: mk(d - 1)}
		}
		return &tnode{op: allOps[r.Intn(len(allOps))], l: mk(d - 1), r: mk(d - 1)}
	}
	for i := 0; i < n; i++ {
		emit(mk(3), "tree")
	}
	// 4. result sweep (implementation only): every operator producing each integer of a dense range around
	// zero and around every power of two - the results an interning / caching scheme for integers would key on
	sweepSrc := []struct{ name, src string }{
		{"+", "a + b"}, {"-", "a - c"}, {"*", "a1 * b"}, {"neg", "-n"}, {"^", "^x"}, {"|", "a1 | z"}, {"%", "a1 % big"}, {"<<", "h << b"}, {">>", "d >> b"},
		{"++", "p++\np"}, {"--", "u--\nu"}, {"+=", "q += b\nq"},
	}
	type sw struct {
		name string
		stmt ast.Stmt
	}
	var sws []sw
	for _, x := range sweepSrc {
		st, err := parser.ParseSrc(x.src)
		if err != nil {
			o.Fail(Failure{Oracle: "sweep-template-parses", Key: "sweep-parse", Input: x.src, Detail: err.Error()})
			continue
		}
		sws = append(sws, sw{x.name, st})
	}
	var targets []int64
	if thorough {
		for v := int64(-(1 << 18)); v <= 1<<18; v++ {
			targets = append(targets, v)
		}
	} else {
		for v := int64(-300); v <= 5000; v++ {
			targets = append(targets, v)
		}
	}
	for k := uint(13); k <= 40; k++ {
		for d := int64(-130); d <= 130; d++ {
			targets = append(targets, int64(1)<<k+d, -(int64(1)<<k)+d)
		}
	}
	reported := map[string]bool{}
	for _, v := range targets {
		e := env.NewEnv()
		for name, val := range map[string]int64{"a": v - 1, "b": 1, "c": -1, "a1": v, "n": -v, "x": ^v, "z": 0, "big": math.MaxInt64, "h": v >> 1, "d": v << 1, "u": v + 1, "p": v - 1, "q": v - 1} {
			_ = e.Define(name, val)
		}
		for _, x := range sws {
			if (x.name == "<<" && v&1 != 0) || (x.name == ">>" && (v<<1)>>1 != v) || (x.name == "%" && v < 0) {
				continue
			}
			o.Sum.Evaluations++
			o.Sum.Hist["sweep:"+x.name]++
			got, err := func() (r interface{}, err error) {
				defer func() {
					if p := recover(); p != nil {
						err = fmt.Errorf("panic: %v", p)
					}
				}()
				return vm.RunContext(context.Background(), e.NewEnv(), nil, x.stmt)
			}()
			if gi, ok := got.(int64); err != nil || !ok || gi != v {
				if !reported[x.name] {
					reported[x.name] = true
					o.Fail(Failure{Oracle: "go-arithmetic", Key: "int-result:" + x.name, Input: fmt.Sprintf("operator %s with operands chosen so that Go computes %d", x.name, v),
						Detail: fmt.Sprintf("interpreter gave %v (%T), err=%v", got, got, err)})
				}
			}
		}
	}
}
