package main

import (
	"context"
	"fmt"
	"math/rand"
	"reflect"
	"sort"
	"strings"
	"sync"
	"time"

	"github.com/mattn/anko/core"
	"github.com/mattn/anko/env"
	"github.com/mattn/anko/parser"
	"github.com/mattn/anko/vm"

	"veriftools/internal/gen"
)

func init() { streams["nopanic"] = streamNoPanic }

// richEnv binds the identifiers the generators use to values of every class a script can construct
// itself, plus Go functions over such values (some of which panic: the interpreter must contain that).
func richEnv() *env.Env {
	e := env.NewEnv()
	core.Import(e)
	must := func(err error) {
		if err != nil {
			panic(err)
		}
	}
	_, err := vm.Execute(e, nil, `
a = 1
b = "str"
c = [1, "two", 3.5, nil, [4]]
x = {"k": 1, "l": [1, 2], 3: nil}
y = 2.5
g = func(p, q...) { return p }
f = func(p) { return p }
m = nil
module m { v = 1; func h(z) { return z } }
ch = make(chan int64, 2)
ok = true
v = nil
_t1 = make([]int64, 2)
ts = make([]string, 1)
tm = make(map[string]int64)
pt = new(int64)
pn = new(string)
fz = func() { return }
u = "héllo日本語x"
st = make(struct { A []int64, B map[string]int64 })
st2 = make(struct { S struct { A []int64 } })
`)
	must(err)
	must(e.Define("id", func(x interface{}) interface{} { return x }))
	must(e.Define("sum", func(xs ...int64) int64 {
		s := int64(0)
		for _, x := range xs {
			s += x
		}
		return s
	}))
	must(e.Define("swap", func(p, q interface{}) (interface{}, interface{}) { return q, p }))
	must(e.Define("arr2", func(a [2]int64) int64 { return a[0] + a[1] }))
	must(e.Define("sendonly", (chan<- int64)(make(chan int64, 1))))
	must(e.Define("recvonly", (<-chan int64)(make(chan int64, 1))))
	must(e.Define("parr2", func(a *[2]int64) int64 { return a[0] + a[1] }))
	must(e.Define("hparr", &struct{ P *[2]int64 }{}))
	must(e.Define("harr", [3]int64{1, 2, 3}))
	must(e.Define("harrs", [][3]int64{{1, 2, 3}}))
	must(e.Define("hemb", &npOuter{}))
	must(e.Define("hembv", npOuter{}))
	must(e.Define("hembs", []npOuter{{}}))
	must(e.Define("arr0", func(a [0]string) int64 { return 0 }))
	must(e.Define("arrs", func(a [][2]int64) int64 { return int64(len(a)) }))
	must(e.Define("boom", func() { panic("boom") }))
	must(e.Define("boomv", func(xs ...interface{}) interface{} { panic(fmt.Sprint("boomv", len(xs))) }))
	must(e.Define("nilerr", func() error { return nil }))
	must(e.Define("callcb", func(cb func()) { cb() }))
	must(e.Define("callcb1", func(cb func(int64) int64) int64 { return cb(1) }))
	var np *int64
	must(e.Define("nilptr", np))
	must(e.Define("nilslice", []interface{}(nil)))
	must(e.Define("nilmap", map[interface{}]interface{}(nil)))
	must(e.Define("ptrs", []*int64{nil, new(int64)}))
	must(e.Define("ppn", new(*int64)))      // non-nil pointer to a nil pointer
	must(e.Define("pni", new(interface{}))) // non-nil pointer to a nil interface
	cch := make(chan interface{}, 1)
	close(cch)
	must(e.Define("cch", cch))
	must(e.Define("p32", []*int32{}))
	must(e.Define("tim", map[int64]int64{1: 2}))
	must(e.Define("tm2", map[string]int64{"a": 1, "b": 2, "c": 3}))
	must(e.Define("rec", GoRec{A: 1, B: "b", C: []int64{1}}))
	must(e.Define("recp", &GoRec{A: 1}))
	return e
}

// noPanicInWorker runs one source text in the worker child: parse + execute with Debug=false.
// A panic of the calling goroutine is reported; a panic of a goroutine started by the script kills
// the child, which the parent sees.
func noPanicInWorker(src string) (answer string) {
	return noPanicInWorkerFor(src, 250*time.Millisecond)
}

// noPanicInWorkerFor: the same with a chosen time allowance (goroutine scenarios need longer).
func noPanicInWorkerFor(src string, allow time.Duration) (answer string) {
	defer func() {
		if p := recover(); p != nil {
			answer = "panic " + fmt.Sprint(p)
		}
	}()
	ctx, cancel := context.WithTimeout(context.Background(), allow)
	defer cancel()
	done := make(chan string, 1)
	go func() {
		defer func() {
			if p := recover(); p != nil {
				done <- "panic " + fmt.Sprint(p)
			}
		}()
		stmt, err := parser.ParseSrc(src)
		if err != nil {
			done <- "parse-error"
			return
		}
		_, err = vm.RunContext(ctx, richEnv(), &vm.Options{Debug: false}, stmt)
		if err != nil {
			done <- "err"
			return
		}
		done <- "ok"
	}()
	select {
	case a := <-done:
		// leave goroutines started by the script a moment to fail
		time.Sleep(2 * time.Millisecond)
		return a
	case <-time.After(allow + 1250*time.Millisecond):
		return "stuck"
	}
}

// goroutine scenarios: script goroutines that share only what the interpreter synchronises itself - variables of
// enclosing scopes, modules, channels, type definitions - never one container. A fatal runtime error ("concurrent map
// iteration and map write") cannot be recovered and kills the host.
var concurrentScenarios = []string{
	// function literals of many arities (5+ parameters, variadic) evaluated by many goroutines at once in a fresh process
	"done = make(chan bool)\nfor g = 0; g < 12; g++ {\ngo func() {\nf5 = func(p0, p1, p2, p3, p4) { return 0 }\nf8 = func(p0, p1, p2, p3, p4, p5, p6, p7) { return 0 }\nf11 = func(p0, p1, p2, p3, p4, p5, p6, p7, p8, p9, p10) { return 0 }\nf14 = func(p0, p1, p2, p3, p4, p5, p6, p7, p8, p9, p10, p11, p12, p13) { return 0 }\nf17 = func(p0, p1, p2, p3, p4, p5, p6, p7, p8, p9, p10, p11, p12, p13, p14, p15, p16) { return 0 }\nf20 = func(p0, p1, p2, p3, p4, p5, p6, p7, p8, p9, p10, p11, p12, p13, p14, p15, p16, p17, p18, p19) { return 0 }\nf23 = func(p0, p1, p2, p3, p4, p5, p6, p7, p8, p9, p10, p11, p12, p13, p14, p15, p16, p17, p18, p19, p20, p21, p22) { return 0 }\nf26 = func(p0, p1, p2, p3, p4, p5, p6, p7, p8, p9, p10, p11, p12, p13, p14, p15, p16, p17, p18, p19, p20, p21, p22, p23, p24, p25) { return 0 }\nf29 = func(p0, p1, p2, p3, p4, p5, p6, p7, p8, p9, p10, p11, p12, p13, p14, p15, p16, p17, p18, p19, p20, p21, p22, p23, p24, p25, p26, p27, p28) { return 0 }\nf32 = func(p0, p1, p2, p3, p4, p5, p6, p7, p8, p9, p10, p11, p12, p13, p14, p15, p16, p17, p18, p19, p20, p21, p22, p23, p24, p25, p26, p27, p28, p29, p30, p31) { return 0 }\nf35 = func(p0, p1, p2, p3, p4, p5, p6, p7, p8, p9, p10, p11, p12, p13, p14, p15, p16, p17, p18, p19, p20, p21, p22, p23, p24, p25, p26, p27, p28, p29, p30, p31, p32, p33, p34) { return 0 }\nf38 = func(p0, p1, p2, p3, p4, p5, p6, p7, p8, p9, p10, p11, p12, p13, p14, p15, p16, p17, p18, p19, p20, p21, p22, p23, p24, p25, p26, p27, p28, p29, p30, p31, p32, p33, p34, p35, p36, p37) { return 0 }\nv0 = func(r...) { return 0 }\nv1 = func(q0, r...) { return 0 }\nv2 = func(q0, q1, r...) { return 0 }\nv3 = func(q0, q1, q2, r...) { return 0 }\nv4 = func(q0, q1, q2, q3, r...) { return 0 }\nv5 = func(q0, q1, q2, q3, q4, r...) { return 0 }\nv6 = func(q0, q1, q2, q3, q4, q5, r...) { return 0 }\nv7 = func(q0, q1, q2, q3, q4, q5, q6, r...) { return 0 }\nv8 = func(q0, q1, q2, q3, q4, q5, q6, q7, r...) { return 0 }\nv9 = func(q0, q1, q2, q3, q4, q5, q6, q7, q8, r...) { return 0 }\nv10 = func(q0, q1, q2, q3, q4, q5, q6, q7, q8, q9, r...) { return 0 }\nv11 = func(q0, q1, q2, q3, q4, q5, q6, q7, q8, q9, q10, r...) { return 0 }\ndone <- true\n}()\n}\nfor g = 0; g < 12; g++ {\n<-done\n}",
	"module mm { x = 1\n func get() { return x } }\nn = 0\ndone = make(chan bool)\ngo func() {\nfor i = 0; i < 30000; i++ {\nn = n + 1\n}\ndone <- true\n}()\nfor i = 0; i < 3000; i++ {\ny = mm\n}\n<-done",
	"module mm { x = 1 }\ndone = make(chan bool)\ngo func() {\nfor i = 0; i < 20000; i++ {\nvar fresh = i\nfresh2 = i\n}\ndone <- true\n}()\nfor i = 0; i < 3000; i++ {\nvar y = mm\n}\n<-done",
	"module mm { x = 1 }\ndone = make(chan bool)\ngo func() {\nfor i = 0; i < 20000; i++ {\nmm.x = i\n}\ndone <- true\n}()\nfor i = 0; i < 3000; i++ {\ns = toString(mm)\n}\n<-done",
	"done = make(chan bool)\ncnt = 0\nfor g = 0; g < 4; g++ {\ngo func() {\nfor i = 0; i < 5000; i++ {\ncnt = cnt + 1\n}\ndone <- true\n}()\n}\nfor g = 0; g < 4; g++ {\n<-done\n}",
	"done = make(chan bool)\nfor g = 0; g < 4; g++ {\ngo func(g) {\nfor i = 0; i < 300; i++ {\nmake(type T1, i)\nv = make(T1)\n}\ndone <- true\n}(g)\n}\nfor g = 0; g < 4; g++ {\n<-done\n}",
	"done = make(chan bool)\nfunc work(k) {\nvar acc = 0\nfor i = 0; i < 3000; i++ {\nacc += i\n}\ndone <- true\n}\nfor g = 0; g < 6; g++ {\ngo work(g)\n}\nfor g = 0; g < 6; g++ {\n<-done\n}",
	"module cfg { level = 1 }\ndone = make(chan bool)\ngo func() {\nfor i = 0; i < 10000; i++ {\ncfg.level = i\nglobalv = i\n}\ndone <- true\n}()\nfor i = 0; i < 2000; i++ {\nc2 = cfg\nc2.level = -1\n}\n<-done",
}

// degenerate forms: each is a family the grammar accepts (or nearly) with an empty / odd part
var degenerateForms = []string{
	// a dotted type path through something that is not a module fails - and leaves every scope usable
	"module zp { zc = 1 }\ntry {\nmake(zp.zc.T)\n} catch e {\n}\nzp.zc = 2\nzp.zc", "module zp { zc = 1 }\ntry {\nx = new(zp.zc.T)\n} catch e {\n}\nzp.d = 2", "module zp { module q { zc = 1 } }\ntry {\nmake(zp.q.zc.T)\n} catch e {\n}\nzp.q.zc = 2",
	"module zp { zc = 1 }\ntry {\nmake(zp.nosuch.T)\n} catch e {\n}\nzp.zc = 2", "zv = 1\ntry {\nmake(zv.T)\n} catch e {\n}\nzv = 2", "module zp { zc = 1 }\ntry {\nmake([]zp.zc.T)\n} catch e {\n}\ntry {\nmake(type zp.zc.T, 1)\n} catch e {\n}\nzp.zc = 3",
	// a module used as a TYPE: the zero value of that type is a nil scope pointer
	"module zm { x = 1 }\nmake(type ZM, zm)\nza = make([]ZM, 1)\nza[0].x", "module zm { x = 1 }\nmake(type ZM, zm)\nza = make([]ZM, 1)\nza[0].x = 2",
	"module zm { x = 1 }\nmake(type ZM, zm)\nza = make([]ZM, 1)\nzb = za[0]\nzb", "module zm { x = 1 }\nmake(type ZM, zm)\nza = make([]ZM, 1)\nvar zb = za[0]\nzb.x",
	"module zm { x = 1 }\nmake(type ZM, zm)\nzq = make(map[string]ZM)\nzq[\"a\"].x", "module zm { x = 1 }\nmake(type ZM, zm)\nzs = make(struct { M ZM })\nzs.M.x\nzs.M.x = 1\nzc = zs.M",
	"module zm { x = 1 }\nmake(type ZM, zm)\nza = make([]ZM, 1)\nfunc zf(a) { return a }\nzf(za[0])\nzf(za[0]).x", "module zm { x = 1 }\nmake(type ZM, zm)\nza = make([]ZM, 1)\nmake(za[0].T)\nza[0].f()",
	// texts cut off right behind an operator and a blank (the scanner looks ahead for `= <-`, `<-`, `...`)
	"a = ", "a =  ", "x = 1\nif x == 1 {\n\ty = ", "a = <", "a = <-", "a = <- ", "a, b = ", "var a = ", "a += ", "a[0] = ", "a.b = ", "a = [", "a = {", "a ? ", "a ?? ", "a . ", "a .. ", "f(a.", "a <", "a < ", "a <-", "<", "=", "= ", ".", "..",
	"var a =", "var a, b =", "a, b =", "a =", "= 1", "var = 1", "*a = 1", "*pt = 1", "*pn = 1", "*nilptr = 1", "*v = 1", "*c = 1", "*f = 1", "&1", "&a.b", "&c[9]", "*nilptr", "*a",
	"f(...)", "g(...)", "f(a...)", "f(c...)", "f(v...)", "g(c...)", "g(v...)", "g(1, v...)", "sum(c...)", "sum(nilslice...)", "sum(v...)", "sum(1, 2, [3]...)", "id(...)", "boom(...)",
	"go f(...)", "go boom()", "go boomv(1)", "go id(1, 2)", "go f()", "go m.h()", "go c()", "go nil()", "go v()", "go a()", "go g(c...)", "go callcb(boom)", "go callcb(func() { boom() })",
	"defer f(...)", "defer boom()", "defer v()", "defer a()", "func() { defer boom() }()", "func() { defer v() }()", "defer nilptr()",
	"for p in ptrs { p }", "for p in nilptr { }", "for p in nilslice { }", "for k, w in nilmap { }", "for p in ch { break }", "for p in v { }", "for p in a { }", "for p, q in c { }", "for in c { }",
	"b * 9223372036854775807", "b * -1", "c[9223372036854775807]", "c[-9223372036854775808]", "c[1:9223372036854775807]", "make([]int64, -1)", "make([]int64, 1, 0)", "make(chan int64, -1)",
	"make(v)", "make([]v)", "make(map[v]v)", "make(a.b)", "make(m.v)", "make(type T, 1)", "make(type int64, c)", "new(v)", "new(m)",
	"x[st] = 1", "x[st]", "delete(x, st)", "{st: 1}", "x[st2] = 1", "x[[st]] = 1", "x[rec] = 1", "x[rec]", "delete(x, rec)", "{rec: 1}", "st in [st]", "rec == rec", "st == st", "switch st { case st: 1 }",
	"\"\" + nilptr", "nilptr + \"\"", "b + ptrs[0]", "\"s\" + ptrs", "ptrs += nilptr", "ptrs += [nil]", "p32 += nilptr", "p32 += ptrs[0]", "p32 += [nil]", "_t1 += [nil]", "_t1 += [nil, 1]", "ts += [nil]",
	"_t1 += [[1]]", "ts += [1, nil]", "c += [nil]", "c += nilslice", "_t1 += nilslice", "nilslice += [nil]", "tim.b = 1", "tim.b", "tim[\"b\"] = 1", "tim[1.5] = 1", "delete(tim, \"b\")", "tm.k.j = 1", "tm[nil] = 1",
	"for k, w in x { delete(x, \"k\"); delete(x, \"l\"); delete(x, 3); k; w }", "for k, w in tm2 { delete(tm2, \"a\"); delete(tm2, \"b\"); y = w }", "for k in x { x[k + \"z\"] = 1 }",
	"toString(nilptr)", "toInt(nilptr)", "len(nilptr)", "nilptr == nilptr", "nilptr in ptrs", "ptrs[0] = 1", "ptrs[0] = nilptr", "*ptrs[0]", "*ptrs[1] = 2\n*ptrs[1]",
	"u[5]", "u[6]", "u[9]", "u[len(u) - 1]", "u[len(u)]", "for i = 0; i < len(u); i++ {\nu[i]\n}", "u[1:3]", "u[2:len(u)]", "u[0:100]", "u[7] = \"x\"\nu", "u[len(u)] = \"é\"\nu", "u[2] = \"語\"\nu[2]",
	"for ch in u { ch }", "u * 3", "u + u[1]", "toRunes(u)[3]", "len(toRunes(u))", "u[-1]", "\"é\"[1]", "\"é\"[2]", "\"日本\"[5]", "\"日本\"[2:4]", "b[1] = \"日\"\nb[2]",
	"tm[st] = 1", "x[f] = 1", "x[ch] = 1\nx[ch]", "x[pt] = 1", "x[m] = 1", "x[1.5] = 1\nx[1.5]", "x[nil] = 1\nx[nil]",
	"x[c] = 1", "x[x] = 1", "delete(x, c)", "delete(x, x)", "delete(a)", "delete(c, 1)", "delete(v, 1)", "delete(nilmap, 1)", "nilmap[1] = 2", "nilmap.k = 2", "nilslice[0] = 1", "nilslice[0]", "nilptr.x", "nilptr.x = 1",
	"close(v)", "close(a)", "close(ch)\nclose(ch)", "close(ch)\nch <- 1", "v <- 1", "a <- 1", "<-v", "<-a", "ch <- c", "ch <- v", "v, ok = <-v", "c, c = <-ch",
	"callcb(v)", "callcb(a)", "callcb(func(p) { })", "callcb1(func() { })", "callcb1(func(p) { return \"s\" })", "callcb1(func(p) { throw 1 })", "callcb1(boom)", "callcb(boom)",
	"m.h(...)", "m.nope", "m.nope()", "m.v()", "m[1]", "m = 1\nm.v", "a.b.c", "v.w", "f.g", "c.len", "b.x = 1", "1.x", "\"s\".x()",
	"switch { }", "switch v { case: }", "switch c { case c: }", "switch x { case x: 1 }", "if { }", "for ; ; { break }", "for var i = 0; ; { break }", "try { } catch { }", "try { boom() } catch e { e.x }",
	"func(a, a) { }(1, 2)", "func(a...) { a[5] }()", "func() { return }()()", "f(f)(f)", "g()()", "id(id)(1)", "id(boom)()", "swap(1)", "swap(1, 2, 3)", "nilerr()()", "keys(v)", "keys(1)", "range(1, 2, 0)",
	"toString(boom)", "typeOf(v)", "kindOf(nilptr)", "len(v)", "len(a)", "len(nilmap)", "len(ch)", "a++\nv++\nc++", "b--", "c += c\nc -= 1", "x += x", "v += 1", "a /= 0", "a %= 0", "a <<= 64",
	"1 / 0", "1 % 0", "1.0 / 0", "-9223372036854775808 / -1", "-9223372036854775808 % -1", "1 << -1", "1 >> 9999", "^b", "-c", "!x", "-v",
	"a ? : 1", "v ?? v ?? v", "a in v", "a in a", "c in c", "x in c", "[c, x][1][c]", "{c: 1}", "{x: 1}", "{nil: 1}[nil]", "[...]", "[1, ]", "{1: }",
	"import(\"nope\")", "import(1)", "import(v)", "load(\"/nonexistent\")", "defined(1)", "dbg()", "print(boom)", "println(c, x, ch, f, m)", "printf(\"%d\", b)", "printf(a)",
	"a.b = 1", "m.v = 2\nm.v", "m.new = 1", "c[1:2] = [1]", "b[0] = 1", "b[9] = \"x\"", "b[0:1] = \"x\"", "_t1[0] = \"x\"", "_t1[2] = nil", "_t1 += \"x\"", "ts[0] = 1", "tm[1] = 1", "tm.k = \"x\"",
	"var a, b = 1", "a, b = [1]", "a, b = c", "a, b, c = f(1), 2", "[a, b] = c", "a.b, c[0] = 1, 2",
	"st.A = [1, 2, 3]\nfor q in st.A {\nst.A = st.A[:1]\n}", "st.A = [1, 2, 3]\nfor q in st.A {\nst.A = []\n}", "pp = new([]int64)\n*pp = [1, 2, 3]\nfor q in *pp {\n*pp = make([]int64, 0)\n}",
	"st2.S.A = [1, 2]\nfor q in st2.S.A {\nst2.S.A = st2.S.A[:0]\n}", "cc = [1, 2, 3]\nfor q in cc {\ncc = cc[:1]\n}", "st.B = {\"a\": 1, \"b\": 2}\nfor k, w in st.B {\nst.B = {}\n}",
	"st.A = [1, 2, 3]\nfor q in st.A {\nst.A += 4\nif len(st.A) > 8 { break }\n}", "kk = make(struct{Tag interface, N int64})\nkk.Tag = [1, 2]\nx[kk]", "kk = make(struct{Tag interface, N int64})\nkk.Tag = [1, 2]\nx[kk] = 2",
	"kk = make(struct{Tag interface, N int64})\nkk.Tag = {}\ndelete(x, kk)", "kk = make(struct{Tag interface, N int64})\nkk.Tag = f\n{kk: 1}", "kk = make(struct{Tag interface, N int64})\nkk.Tag = [1]\ntim[kk] = 2\nkk in [kk]",
	// an operand read from a slot that a LATER operand of the same construct replaces (the first operand must be a value by then)
	"qq = [1]\nfunc ff() { qq[0] = [1, 2]; return 5 }\nmm = {qq[0]: ff()}", "qq = [1]\nfunc ff() { qq[0] = {}; return 5 }\nmm = map[interface]int64{qq[0]: ff()}",
	"qq = [1]\nfunc ff() { qq[0] = [1, 2]; return 5 }\nmm = {qq[0]: ff(), 2: 3}\nmm[1]", "qq = make([]interface, 1)\nqq[0] = 1\nfunc ff() { qq[0] = func() { }; return 5 }\nmm = {qq[0]: ff()}",
	"st.A = [1]\nfunc ff() { st.A = nil; return 5 }\n{st.A: ff()}", "qq = [1]\nfunc ff() { qq[0] = [1, 2]; return 1 }\nswitch qq[0] { case ff(): 1 }", "qq = [1]\nfunc ff() { qq[0] = [1, 2]; return 1 }\nqq[0] in [ff(), qq[0]]",
	"qq = [[1]]\nfunc ff() { qq[0] = 7; return 0 }\nqq[0][ff()]", "qq = [[1, 2]]\nfunc ff() { qq[0] = 7; return 1 }\nqq[0][ff():]", "qq = [1]\nfunc ff() { qq[0] = [1]; return 0 }\nx[qq[0]] = ff()\nx[qq[0]]",
	// reflect.FuncOf refuses more than 128 words of signature: a function literal with very many parameters
	"ff = func(p0, p1, p2, p3, p4, p5, p6, p7, p8, p9, p10, p11, p12, p13, p14, p15, p16, p17, p18, p19, p20, p21, p22, p23, p24, p25, p26, p27, p28, p29, p30, p31, p32, p33, p34, p35, p36, p37, p38, p39, p40, p41, p42, p43, p44, p45, p46, p47, p48, p49, p50, p51, p52, p53, p54, p55, p56, p57, p58, p59, p60, p61, p62, p63, p64, p65, p66, p67, p68, p69, p70, p71, p72, p73, p74, p75, p76, p77, p78, p79, p80, p81, p82, p83, p84, p85, p86, p87, p88, p89, p90, p91, p92, p93, p94, p95, p96, p97, p98, p99, p100, p101, p102, p103, p104, p105, p106, p107, p108, p109, p110, p111, p112, p113, p114, p115, p116, p117, p118, p119, p120, p121, p122, p123, p124, p125, p126, p127, p128, p129) { return 1 }", "func gg(p0, p1, p2, p3, p4, p5, p6, p7, p8, p9, p10, p11, p12, p13, p14, p15, p16, p17, p18, p19, p20, p21, p22, p23, p24, p25, p26, p27, p28, p29, p30, p31, p32, p33, p34, p35, p36, p37, p38, p39, p40, p41, p42, p43, p44, p45, p46, p47, p48, p49, p50, p51, p52, p53, p54, p55, p56, p57, p58, p59, p60, p61, p62, p63, p64, p65, p66, p67, p68, p69, p70, p71, p72, p73, p74, p75, p76, p77, p78, p79, p80, p81, p82, p83, p84, p85, p86, p87, p88, p89, p90, p91, p92, p93, p94, p95, p96, p97, p98, p99, p100, p101, p102, p103, p104, p105, p106, p107, p108, p109, p110, p111, p112, p113, p114, p115, p116, p117, p118, p119, p120, p121, p122, p123, p124, p125, p126, p127, p128, p129, rest...) { return 1 }\ngg()", "func() { return func(p0, p1, p2, p3, p4, p5, p6, p7, p8, p9, p10, p11, p12, p13, p14, p15, p16, p17, p18, p19, p20, p21, p22, p23, p24, p25, p26, p27, p28, p29, p30, p31, p32, p33, p34, p35, p36, p37, p38, p39, p40, p41, p42, p43, p44, p45, p46, p47, p48, p49, p50, p51, p52, p53, p54, p55, p56, p57, p58, p59, p60, p61, p62, p63, p64, p65, p66, p67, p68, p69, p70, p71, p72, p73, p74, p75, p76, p77, p78, p79, p80, p81, p82, p83, p84, p85, p86, p87, p88, p89, p90, p91, p92, p93, p94, p95, p96, p97, p98, p99, p100, p101, p102, p103, p104, p105, p106, p107, p108, p109, p110, p111, p112, p113, p114, p115, p116, p117, p118, p119, p120, p121, p122, p123, p124, p125, p126, p127, p128, p129) { } }()",
	// Go functions with array parameters: Go converts a slice to an array only when it is long enough
	"arr2([1])", "arr2([1, 2])", "arr2([1, 2, 3])", "arr2([])", "arr2(make([]int64, 1))", "arr2(make([]int64, 3))", "arr2(make([]int64, 0))", "arr2(nilslice)", "arr2(c)", "arr2(\"ab\")", "arr0([1])", "arr0([])",
	"arrs([[1]])", "arrs([[1, 2, 3]])", "arrs([make([]int64, 1)])", "arrs(make([][]int64, 2))", "go arr2([1])", "defer arr2([1, 2, 3])", "arr2([1]...)",
	// host values a script meets through Go functions: arrays (not addressable when bound by value), structs embedding a nil pointer
	"harr[0:2]", "harr[1:]", "harr[:2]", "harr[0:1:2]", "harr[0]", "harr[5]", "harr[0] = 9", "harr[0:2] = [7, 8]", "for q in harr { q }", "len(harr)", "harr + 4", "harr + [4]", "harrs[0][0:2]", "harrs[0][0] = 5\nharrs",
	"x2 = harr\nx2[0:2]", "[harr][0][1:]", "id(harr)[0:2]", "harr == harr", "harr in [harr]", "toString(harr)", "keys(harr)", "harr...", "sum(harr...)", "arr2(harr)",
	"hemb.X", "hemb.Y", "hemb.X = 1", "hemb.Y = 1\nhemb.Y", "hemb.Get()", "hembv.X", "hembv.Y", "hembv.X = 1", "hembs[0].X", "hembs[0].X = 2", "toString(hemb)", "hemb == hemb", "for q in hembs { q.X }", "x3 = hemb\nx3.X", "[hemb][0].X", "hemb.npInner", "hemb.npInner.X",
	// types too large for a channel element (64 KiB: three levels of 16 fields over string) in every position a type expression stands in
	"make(type XA, make(struct {A0 string, A1 string, A2 string, A3 string, A4 string, A5 string, A6 string, A7 string, A8 string, A9 string, A10 string, A11 string, A12 string, A13 string, A14 string, A15 string}))\nmake(type XB, make(struct {B0 XA, B1 XA, B2 XA, B3 XA, B4 XA, B5 XA, B6 XA, B7 XA, B8 XA, B9 XA, B10 XA, B11 XA, B12 XA, B13 XA, B14 XA, B15 XA}))\nmake(type XC, make(struct {C0 XB, C1 XB, C2 XB, C3 XB, C4 XB, C5 XB, C6 XB, C7 XB, C8 XB, C9 XB, C10 XB, C11 XB, C12 XB, C13 XB, C14 XB, C15 XB}))\ncc = make(chan XC)", "make(type XA, make(struct {A0 string, A1 string, A2 string, A3 string, A4 string, A5 string, A6 string, A7 string, A8 string, A9 string, A10 string, A11 string, A12 string, A13 string, A14 string, A15 string}))\nmake(type XB, make(struct {B0 XA, B1 XA, B2 XA, B3 XA, B4 XA, B5 XA, B6 XA, B7 XA, B8 XA, B9 XA, B10 XA, B11 XA, B12 XA, B13 XA, B14 XA, B15 XA}))\nmake(type XC, make(struct {C0 XB, C1 XB, C2 XB, C3 XB, C4 XB, C5 XB, C6 XB, C7 XB, C8 XB, C9 XB, C10 XB, C11 XB, C12 XB, C13 XB, C14 XB, C15 XB}))\ncc = make(chan XC, 1)", "make(type XA, make(struct {A0 string, A1 string, A2 string, A3 string, A4 string, A5 string, A6 string, A7 string, A8 string, A9 string, A10 string, A11 string, A12 string, A13 string, A14 string, A15 string}))\nmake(type XB, make(struct {B0 XA, B1 XA, B2 XA, B3 XA, B4 XA, B5 XA, B6 XA, B7 XA, B8 XA, B9 XA, B10 XA, B11 XA, B12 XA, B13 XA, B14 XA, B15 XA}))\nmake(type XC, make(struct {C0 XB, C1 XB, C2 XB, C3 XB, C4 XB, C5 XB, C6 XB, C7 XB, C8 XB, C9 XB, C10 XB, C11 XB, C12 XB, C13 XB, C14 XB, C15 XB}))\nss = make([]chan XC, 1)", "make(type XA, make(struct {A0 string, A1 string, A2 string, A3 string, A4 string, A5 string, A6 string, A7 string, A8 string, A9 string, A10 string, A11 string, A12 string, A13 string, A14 string, A15 string}))\nmake(type XB, make(struct {B0 XA, B1 XA, B2 XA, B3 XA, B4 XA, B5 XA, B6 XA, B7 XA, B8 XA, B9 XA, B10 XA, B11 XA, B12 XA, B13 XA, B14 XA, B15 XA}))\nmake(type XC, make(struct {C0 XB, C1 XB, C2 XB, C3 XB, C4 XB, C5 XB, C6 XB, C7 XB, C8 XB, C9 XB, C10 XB, C11 XB, C12 XB, C13 XB, C14 XB, C15 XB}))\nmm = make(map[string]chan XC)", "make(type XA, make(struct {A0 string, A1 string, A2 string, A3 string, A4 string, A5 string, A6 string, A7 string, A8 string, A9 string, A10 string, A11 string, A12 string, A13 string, A14 string, A15 string}))\nmake(type XB, make(struct {B0 XA, B1 XA, B2 XA, B3 XA, B4 XA, B5 XA, B6 XA, B7 XA, B8 XA, B9 XA, B10 XA, B11 XA, B12 XA, B13 XA, B14 XA, B15 XA}))\nmake(type XC, make(struct {C0 XB, C1 XB, C2 XB, C3 XB, C4 XB, C5 XB, C6 XB, C7 XB, C8 XB, C9 XB, C10 XB, C11 XB, C12 XB, C13 XB, C14 XB, C15 XB}))\npp = new(chan XC)", "make(type XA, make(struct {A0 string, A1 string, A2 string, A3 string, A4 string, A5 string, A6 string, A7 string, A8 string, A9 string, A10 string, A11 string, A12 string, A13 string, A14 string, A15 string}))\nmake(type XB, make(struct {B0 XA, B1 XA, B2 XA, B3 XA, B4 XA, B5 XA, B6 XA, B7 XA, B8 XA, B9 XA, B10 XA, B11 XA, B12 XA, B13 XA, B14 XA, B15 XA}))\nmake(type XC, make(struct {C0 XB, C1 XB, C2 XB, C3 XB, C4 XB, C5 XB, C6 XB, C7 XB, C8 XB, C9 XB, C10 XB, C11 XB, C12 XB, C13 XB, C14 XB, C15 XB}))\nss = []chan XC{}", "make(type XA, make(struct {A0 string, A1 string, A2 string, A3 string, A4 string, A5 string, A6 string, A7 string, A8 string, A9 string, A10 string, A11 string, A12 string, A13 string, A14 string, A15 string}))\nmake(type XB, make(struct {B0 XA, B1 XA, B2 XA, B3 XA, B4 XA, B5 XA, B6 XA, B7 XA, B8 XA, B9 XA, B10 XA, B11 XA, B12 XA, B13 XA, B14 XA, B15 XA}))\nmake(type XC, make(struct {C0 XB, C1 XB, C2 XB, C3 XB, C4 XB, C5 XB, C6 XB, C7 XB, C8 XB, C9 XB, C10 XB, C11 XB, C12 XB, C13 XB, C14 XB, C15 XB}))\nmm = map[string]chan XC{}", "make(type XA, make(struct {A0 string, A1 string, A2 string, A3 string, A4 string, A5 string, A6 string, A7 string, A8 string, A9 string, A10 string, A11 string, A12 string, A13 string, A14 string, A15 string}))\nmake(type XB, make(struct {B0 XA, B1 XA, B2 XA, B3 XA, B4 XA, B5 XA, B6 XA, B7 XA, B8 XA, B9 XA, B10 XA, B11 XA, B12 XA, B13 XA, B14 XA, B15 XA}))\nmake(type XC, make(struct {C0 XB, C1 XB, C2 XB, C3 XB, C4 XB, C5 XB, C6 XB, C7 XB, C8 XB, C9 XB, C10 XB, C11 XB, C12 XB, C13 XB, C14 XB, C15 XB}))\nmake(type XD, make(chan XC))", "make(type XA, make(struct {A0 string, A1 string, A2 string, A3 string, A4 string, A5 string, A6 string, A7 string, A8 string, A9 string, A10 string, A11 string, A12 string, A13 string, A14 string, A15 string}))\nmake(type XB, make(struct {B0 XA, B1 XA, B2 XA, B3 XA, B4 XA, B5 XA, B6 XA, B7 XA, B8 XA, B9 XA, B10 XA, B11 XA, B12 XA, B13 XA, B14 XA, B15 XA}))\nmake(type XC, make(struct {C0 XB, C1 XB, C2 XB, C3 XB, C4 XB, C5 XB, C6 XB, C7 XB, C8 XB, C9 XB, C10 XB, C11 XB, C12 XB, C13 XB, C14 XB, C15 XB}))\nfunc() { return make(chan XC) }()", "make(type XA, make(struct {A0 string, A1 string, A2 string, A3 string, A4 string, A5 string, A6 string, A7 string, A8 string, A9 string, A10 string, A11 string, A12 string, A13 string, A14 string, A15 string}))\nmake(type XB, make(struct {B0 XA, B1 XA, B2 XA, B3 XA, B4 XA, B5 XA, B6 XA, B7 XA, B8 XA, B9 XA, B10 XA, B11 XA, B12 XA, B13 XA, B14 XA, B15 XA}))\nmake(type XC, make(struct {C0 XB, C1 XB, C2 XB, C3 XB, C4 XB, C5 XB, C6 XB, C7 XB, C8 XB, C9 XB, C10 XB, C11 XB, C12 XB, C13 XB, C14 XB, C15 XB}))\nvv = make(XC)\nlen([vv])",
	// the first store into a nil map under a key that is never found again (NaN); pointer-to-array parameters and fields
	"nm = make([]map[float64]int64, 1)\nnm[0][0.0 / 0.0] += 1", "nm = make([]map[float64]int64, 1)\nnm[0][0.0 / 0.0]++\nnm", "nm = make([]map[float64]int64, 1)\n[nm[0][0.0 / 0.0] = 1]",
	"nm = make([]map[float64]string, 1)\nx9 = (nm[0][0.0 / 0.0] = \"v\")\nx9", "nm = make([]map[interface]int64, 1)\nnm[0][0.0 / 0.0] += 2\nlen(nm[0])", "mm = {}\nmm[0.0 / 0.0] = 1\nmm[0.0 / 0.0] += 1\nlen(mm)",
	"st9 = make(struct { M map[float64]int64 })\nst9.M[0.0 / 0.0] += 1", "parr2([1])", "parr2([1, 2])", "parr2(make([]int64, 1))", "parr2(make([]int64, 2))", "parr2(make([]int64, 3))", "hparr.P = make([]int64, 1)", "hparr.P = [1, 2]\nhparr.P",
	"harr[3] = 1", "harr[len(harr)] = 1\nharr", "harrs[0][3] = 1", "x2 = harr\nx2[3] = 4", "harr += 1\nharr", "harr[3] += 1", "[harr][0][3] = 2",
	// directional channels (host values; the bundled time package hands out receive-only ones)
	"<-sendonly", "x8 = <-sendonly", "x8, ok8 = <-sendonly", "for q in sendonly { break }", "sendonly <- 1\nlen(sendonly)", "close(recvonly)", "recvonly <- 1", "ch <- recvonly", "sendonly <- recvonly", "recvonly <- sendonly",
	"tm9 = import(\"time\")\ntm9.After(1) <- 5", "tm9 = import(\"time\")\nclose(tm9.After(1))", "tm9 = import(\"time\")\ntk = tm9.NewTicker(1000000)\ntk.C <- 1", "len(recvonly)", "len(sendonly)",
	// member stores into nil maps with byte / rune keys; `in` on typed lists whose elements cannot be compared with ==
	"nm = make([]map[rune]int64, 1)\nnm[0].x = 1\nnm[0]", "nm = make([]map[byte]int64, 1)\nnm[0].x = 1", "nm = make([]map[rune]string, 1)\nnm[0].y = \"v\"\nnm[0].y", "mr = make(map[rune]int64)\nmr.x = 1\nmr.x", "st9 = make(struct { M map[rune]int64 })\nst9.M.k = 1",
	"aa = make([][]int64, 2)\naa[0] in aa", "aa = make([][]int64, 2)\naa[0] = [1]\n[1] in aa", "ms = make([]map[string]int64, 1)\nms[0] in ms", "ms = make([]map[string]int64, 1)\n{} in ms", "fs = make([]func(), 1)\nfs[0] in fs",
	"ss = make([]struct { A []int64 }, 2)\nss[0] in ss", "aa = make([][]int64, 1)\nswitch aa[0] { case aa[0]: 1 }", "aa = make([][]int64, 1)\naa[0] == aa[0]",
	// an unexported field: a refused store, THEN a read (a lookup remembered by the store path must not let the read through)
	"try { break } catch e9 { try { e9.s = \"x\" } catch err9 { }\ne9.s }", "try { break } catch e9 { try { e9.s = \"x\" } catch err9 { }\nx9 = e9.s\nx9 }", "try { hemb.npInner = 1 } catch err9 { }\nhemb.npInner",
	"try { continue } catch e9 { try { e9.s += \"x\" } catch err9 { }\n[e9.s] }", "try { hembv.npInner = nil } catch err9 { }\nhembv.npInner\nhembs[0].npInner", "try { break } catch e9 { for i9 = 0; i9 < 3; i9++ { try { e9.s = i9 } catch err9 { }\ntry { e9.s } catch err9 { } }\ne9.s }",
	// the value of make(type ...) is a type: nothing can be stored THROUGH it (Go keeps type descriptors in read-only memory)
	"t9 = make(type a9, 1)\nu9 = make(type b9, \"x\")\n*t9 = *u9", "t9 = make(type a9, 1)\n*t9 = 5", "t9 = make(type a9, [1])\nfunc f9(p) { *p = *p }\nf9(t9)\nmake(a9)", "t9 = make(type a9, 1.5)\nl9 = [t9]\n*l9[0] = *l9[0]\nmake(a9)",
	// bytes of a text the HOST handed out (type names, error texts): a store into the converted bytes must never reach the host's own memory
	"b9 = toByteSlice(typeOf(1))\nb9[0] = 73\ntypeOf(1)", "b9 = toByteSlice(kindOf(\"s\"))\nb9[0] = 73\nb9 += 1\nkindOf(\"s\")", "try { 1 % 0 } catch e9 { b9 = toByteSlice(toString(e9))\nb9[0] = 88\ntoString(b9) }",
	"b9 = toByteSlice(toString(1.5))\nb9[1] = 44\ntoString(1.5)", "r9 = toRuneSlice(typeOf(\"s\"))\nr9[0] = 83\ntypeOf(\"s\")",
	"func rec(n) { return rec(n) }", "type T struct", "struct", "chan", "map", "len", "return 1, ", "throw", "break", "continue", "return",
}

func streamNoPanic(o *Out, r *rand.Rand, n int, thorough bool) {
	o.Sum.Rule = "source texts executed with Debug=false in a child process over an environment binding every generator identifier to a value of each class (numbers, strings, nested " +
		"lists, maps, typed slices / maps, pointers incl. nil, channel, module, script functions, Go functions incl. panicking, variadic, multi-result, callback-taking): programs generated " +
		"over the whole grammar, byte- and token-level mutations of them, statement soups, ~230 degenerate forms (empty right-hand sides, zero-argument spreads, go/defer of non-functions and " +
		"of panicking Go functions, nil pointers / maps / slices, huge and negative sizes and indices, sends on closed channels, misuse of every builtin form), alone and wrapped in " +
		"functions / try / go / defer; oracle: the call returns (value or error), the calling goroutine does not panic, the process survives"
	syn := gen.NewSyn(r)
	wraps := []string{"%s", "func() {\n%s\n}()", "try {\n%s\n} catch e {\n}", "go func() {\n%s\n}()", "func() {\ndefer func() {\n%s\n}()\n}()", "for i = 0; i < 2; i++ {\n%s\n}", "if true {\n%s\n}", "module mm {\n%s\n}"}
	type item struct{ kind, src string }
	var items []item
	for _, d := range degenerateForms {
		for _, w := range wraps {
			items = append(items, item{"degenerate", fmt.Sprintf(w, d)})
		}
	}
	for i := 0; i < n; i++ {
		switch k := i % 10; {
		case k < 4:
			items = append(items, item{"generated", syn.Program(1+r.Intn(4), 1+r.Intn(3))})
		case k < 7:
			items = append(items, item{"mutated", mutateSrc(r, syn.Program(1+r.Intn(3), 1+r.Intn(3)))})
		case k < 9:
			// statement soup: degenerate forms joined with generated statements
			var b strings.Builder
			for j, m := 0, 1+r.Intn(4); j < m; j++ {
				if r.Intn(2) == 0 {
					b.WriteString(degenerateForms[r.Intn(len(degenerateForms))])
				} else {
					b.WriteString(syn.Stmt(1 + r.Intn(2)))
				}
				b.WriteString("\n")
			}
			items = append(items, item{"soup", b.String()})
		default:
			// two degenerate forms spliced at a random byte
			a, c := degenerateForms[r.Intn(len(degenerateForms))], degenerateForms[r.Intn(len(degenerateForms))]
			items = append(items, item{"splice", a[:r.Intn(len(a)+1)] + c[r.Intn(len(c)+1):]})
		}
	}
	noPanicSweep(o)
	reported := map[string]int{}
	var mu sync.Mutex
	var wg sync.WaitGroup
	jobs := make(chan item, 64)
	const nWorkers = 12
	for wi := 0; wi < nWorkers; wi++ {
		wg.Add(1)
		go func() {
			defer wg.Done()
			sl := &wslot{}
			defer sl.stop()
			for it := range jobs {
				t0 := time.Now()
				ans := sl.run(workReq{Kind: "nopanic", Src: it.src}, 6*time.Second)
				slow := time.Since(t0) > 150*time.Millisecond
				cls := strings.Fields(ans + " x")[0]
				mu.Lock()
				o.Sum.Evaluations++
				o.Sum.Hist["src:"+it.kind]++
				o.Sum.Hist["outcome:"+cls]++
				if slow {
					o.Sum.Hist["slow(>150ms)"]++
				}
				mu.Unlock()
				if cls == "ok" || cls == "err" || cls == "parse-error" {
					continue
				}
				// re-run alone in a fresh child to make sure this text is the culprit
				sl.stop()
				again := sl.run(workReq{Kind: "nopanic", Src: it.src}, 6*time.Second)
				cls2 := strings.Fields(again + " x")[0]
				mu.Lock()
				switch {
				case cls2 == "ok" || cls2 == "err" || cls2 == "parse-error":
					o.Sum.Hist["outcome:not-reproduced"]++
				case cls2 == "crashed" && (strings.Contains(again, "out of memory") || strings.Contains(again, "cannot allocate") || strings.Contains(again, "stack exceeds") || strings.Contains(again, "stack overflow")):
					// memory / stack exhaustion is outside the guarantee
					o.Sum.Hist["outcome:resource-exhaustion(excluded)"]++
				case (cls2 == "stuck" || cls2 == "timeout") && !strings.Contains(it.src, "for") && !strings.Contains(it.src, "<-") && !strings.Contains(it.src, "func") &&
					!strings.Contains(it.src, "go ") && !strings.Contains(it.src, "leep") && !strings.Contains(it.src, "range") && !strings.Contains(it.src, "*") && len(it.src) < 400:
					// a short straight-line text - no loop, no function, no channel operation, no repetition - that does not come back has wedged
					// the interpreter (a lock left held): the host's Execute never returns
					o.Sum.Hist["outcome:wedged"]++
					o.Fail(Failure{Oracle: "host-survives", Key: "host-wedged:" + firstWords(it.src, 4), Input: it.src, Detail: "a straight-line script did not return within 6s when run alone in a fresh process: " + again})
				case cls2 == "stuck" || cls2 == "timeout":
					// not returning in time is C02's business (defers piled up by an endless loop run after the interrupt); no fault of the host
					o.Sum.Hist["outcome:stuck-confirmed"]++
				default:
					key := "host-" + cls2
					reported[key]++
					if reported[key] <= 8 {
						o.Fail(Failure{Oracle: "host-survives", Key: key + ":" + firstWords(again, 6), Input: it.src, Detail: "child process: " + again})
					}
				}
				mu.Unlock()
			}
		}()
	}
	for _, it := range items {
		if strings.Contains(it.src, "rec(n)") && strings.Count(it.src, "rec(") > 2 {
			continue // unbounded recursion is outside the guarantee
		}
		jobs <- it
	}
	close(jobs)
	wg.Wait()
	// goroutine scenarios, one child each, a few repetitions (the faults are schedule-dependent)
	reps := 3
	if thorough {
		reps = 12
	}
	for _, src := range concurrentScenarios {
		for rep := 0; rep < reps; rep++ {
			sl := &wslot{}
			ans := sl.run(workReq{Kind: "nopanic-conc", Src: src}, 12*time.Second)
			sl.stop()
			o.Sum.Evaluations++
			o.Sum.Hist["src:goroutine-scenario"]++
			cls := strings.Fields(ans + " x")[0]
			o.Sum.Hist["outcome:"+cls]++
			if cls == "ok" || cls == "err" {
				continue
			}
			if cls == "crashed" && (strings.Contains(ans, "out of memory") || strings.Contains(ans, "cannot allocate")) {
				continue
			}
			if cls == "stuck" || cls == "timeout" {
				o.Sum.Hist["outcome:scenario-did-not-finish"]++
				continue // not returning is C02's / C13's business
			}
			o.Fail(Failure{Oracle: "host-survives", Key: "host-" + cls + ":goroutines:" + firstWords(ans, 8), Input: src, Detail: "child process: " + ans})
			break
		}
	}
	stopWorker()
	mergeHist(o.Sum.Hist, prefixHist("syn:", syn.Hist))
}

func firstWords(s string, n int) string {
	f := strings.Fields(s)
	if len(f) > n {
		f = f[:n]
	}
	return strings.Join(f, "_")
}

// operand pool of the systematic sweep: every value class, with the boundary values guards are written for
var sweepOperands = []string{
	"0", "1", "-1", "7", "64", "-64", "0.5", "-0.25", "1e-9", "2.5", "1e300", "0.0", "9223372036854775807", "-9223372036854775808",
	"\"\"", "\"0.5\"", "\"abc\"", "\"7\"", "u", "nil", "true", "false", "[]", "[1]", "[1, 2, 3]", "c", "{}", "x", "v", "nilptr", "nilslice", "nilmap",
	"f", "ch", "m", "_t1", "ts", "tm", "pt", "st", "make([]int64, 0)", "c[5:]", "fz()", "swap(1, 2)", "ppn", "pni", "cch", "ptrs[0]", "ptrs[1]",
}

// noPanicSweep runs, in this process under recover, every binary operator / compound assignment / index / slice / make /
// multiple-assignment form over all pairs of the operand pool: whatever the operands, the call must return.
func noPanicSweep(o *Out) {
	bin := []string{"+", "-", "*", "/", "%", "<<", ">>", "&", "|", "^", "==", "!=", "<", "<=", ">", ">=", "&&", "||", "??", "in"}
	asg := []string{"+=", "-=", "*=", "/=", "%=", "&=", "|=", "<<=", ">>="}
	var srcs []string
	for _, l := range sweepOperands {
		for _, r := range sweepOperands {
			for _, op := range bin {
				srcs = append(srcs, l+" "+op+" "+r)
			}
			for _, op := range asg {
				srcs = append(srcs, "zz = "+l+"\nzz "+op+" "+r)
			}
			srcs = append(srcs, "("+l+")["+r+"]", "("+l+")["+r+":]", "("+l+")[:"+r+"]", "zz = "+l+"\nzz["+r+"] = "+r, "("+l+")["+r+":"+r+"]", "true ? "+l+" : "+r,
				"switch "+l+" { case "+r+": 1 }", "for q in "+l+" { "+r+" }", "zz = "+l+"\nzp = &zz\nzp == "+r, "zz = "+l+"\nzp = &zz\n"+r+" in [zp]", "zz = "+l+"\nzp = &zz\nswitch "+r+" { case zp: 1 }", "make([]int64, "+l+", "+r+")", "g("+l+", "+r+")", "sum("+l+", "+r+")")
		}
		srcs = append(srcs, "p1, p2 = "+l, "var p1, p2 = "+l, "p1, p2, p3 = "+l, "p1, p2 = "+l+", "+l, "-("+l+")", "!("+l+")", "^("+l+")", "zz = "+l+"\nzz++", "zz = "+l+"\nzz--",
			"make(type TT, "+l+")", "zz = make(type TT, "+l+")\nzz", "[make(type TT, "+l+")]", "make(type TT, "+l+")\nmake(TT)", "make(type TT, "+l+")\nzz = make([]TT, 1)\nzz[0]", "make(type TT, "+l+")\nnew(TT)",
			"len("+l+")", "make([]int64, "+l+")", "make(chan int64, "+l+")", "toString("+l+")", "toInt("+l+")", "toFloat("+l+")", "toBool("+l+")", "keys("+l+")", "range("+l+")",
			"for q in "+l+" { break }", "delete("+l+", 1)", "cch <- "+l, "cch <- <- cch", "<- "+l, "zz, zo = <- "+l, "close("+l+")", "throw "+l, "return "+l, "sum("+l+"...)", "g(1, "+l+"...)", "func(p...) { return p }("+l+"...)", "*("+l+")", "zz = "+l+"\n&zz")
	}
	// every type the bundled packages offer, through every way a script can make a value of it
	var pkgs []string
	for pkg := range env.PackageTypes {
		pkgs = append(pkgs, pkg)
	}
	sort.Strings(pkgs)
	for _, pkg := range pkgs {
		var names []string
		for name := range env.PackageTypes[pkg] {
			names = append(names, name)
		}
		sort.Strings(names)
		for _, name := range names {
			pre := "pk = import(\"" + pkg + "\")\n"
			for _, form := range []string{"zz = make(pk.%s)\ntypeOf(zz)", "zz = make([]pk.%s, 2)\nzz[0]", "zz = new(pk.%s)\n*zz", "zz = make(chan pk.%s, 1)\nlen(zz)",
				"zz = make(map[string]pk.%s)\nzz[\"k\"]", "zz = make(pk.%s)\nzz == zz", "zz = make(pk.%s)\ntoString(zz)", "zz = make(*pk.%s)\nzz", "zz = make(struct { F pk.%s })\nzz.F"} {
				srcs = append(srcs, pre+fmt.Sprintf(form, name))
			}
			// the fields of a made struct value: read, and - for fields of an interface type with methods, nil in a made
			// value - a method selected and called through them
			st := env.PackageTypes[pkg][name]
			for st.Kind() == reflect.Ptr {
				st = st.Elem()
			}
			if st.Kind() == reflect.Struct {
				for fi := 0; fi < st.NumField() && fi < 12; fi++ {
					f := st.Field(fi)
					if f.PkgPath != "" {
						continue
					}
					mk := pre + "zz = make(pk." + name + ")\n"
					srcs = append(srcs, mk+"zz."+f.Name, mk+"zz."+f.Name+" = zz."+f.Name, mk+"zz."+f.Name+" == nil", mk+"len(zz."+f.Name+")", mk+"for q in zz."+f.Name+" { break }")
					if f.Type.Kind() == reflect.Interface && f.Type.NumMethod() > 0 {
						m := f.Type.Method(0).Name
						srcs = append(srcs, mk+"zz."+f.Name+"."+m, mk+"zz."+f.Name+"."+m+"()", mk+"yy = zz."+f.Name+"\nyy."+m, mk+"[zz."+f.Name+"][0]."+m)
					}
					if f.Type.Kind() == reflect.Ptr || f.Type.Kind() == reflect.Map || f.Type.Kind() == reflect.Func || f.Type.Kind() == reflect.Chan {
						srcs = append(srcs, mk+"*zz."+f.Name, mk+"zz."+f.Name+".x", mk+"zz."+f.Name+"()", mk+"zz."+f.Name+"[\"k\"]", mk+"zz."+f.Name+"[\"k\"] = 1")
					}
				}
			}
		}
	}
	e := richEnv()
	hasBig := func(src string) bool {
		return strings.Contains(src, "9223372036854775807") || strings.Contains(src, "9223372036854775808") || strings.Contains(src, "1e300")
	}
	for _, src := range srcs {
		if (strings.HasPrefix(src, "for q in ch") || strings.HasSuffix(src, "<- ch")) && !strings.HasSuffix(src, "<- cch") {
			continue // receiving from the empty open channel blocks
		}
		if hasBig(src) && (strings.Contains(src, "range(") || strings.Contains(src, "make(") || strings.Contains(src, "*")) {
			continue // allocations of that size are resource exhaustion, outside the guarantee (the child-process forms cover the guards)
		}
		var p interface{}
		var rerr error
		func() {
			defer func() { p = recover() }()
			ctx, cancel := context.WithTimeout(context.Background(), 2*time.Second)
			defer cancel()
			_, rerr = vm.ExecuteContext(ctx, e.DeepCopy(), nil, src)
		}()
		o.Sum.Evaluations++
		o.Sum.Hist["src:sweep"]++
		if p != nil {
			o.Fail(Failure{Oracle: "host-survives", Key: "host-panic:" + firstWords(fmt.Sprint(p), 6), Input: src, Detail: fmt.Sprint(p)})
			continue
		}
		if rerr != nil && strings.Contains(rerr.Error(), "interrupt") {
			continue // ran into the time limit: not run again without one
		}
		// the same text under a context that cannot be cancelled (vm.Execute): paths that test ctx.Done() differ
		bg := make(chan interface{}, 1)
		go func() {
			var q interface{}
			defer func() { q = recover(); bg <- q }()
			_, _ = vm.Execute(e.DeepCopy(), nil, src)
		}()
		select {
		case p = <-bg:
		case <-time.After(5 * time.Second):
			o.Sum.Hist["sweep-background-context:no-return-in-5s"]++
			continue
		}
		o.Sum.Evaluations++
		o.Sum.Hist["src:sweep-background-context"]++
		if p != nil {
			o.Fail(Failure{Oracle: "host-survives", Key: "host-panic:" + firstWords(fmt.Sprint(p), 6), Input: src, Detail: "under vm.Execute (context.Background): " + fmt.Sprint(p)})
		}
	}
}

// a host struct that embeds a pointer (nil unless set): promoted fields and methods go through it
type npInner struct{ X int64 }

func (i *npInner) Get() int64 { return i.X }

type npOuter struct {
	*npInner
	Y int64
}
