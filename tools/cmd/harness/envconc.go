package main

import (
	"encoding/json"
	"fmt"
	"io"
	"math/rand"
	"os"
	"os/exec"
	"path/filepath"
	"reflect"
	"sort"
	"strings"
	"sync"
	"sync/atomic"
	"time"

	"github.com/mattn/anko/env"
)

func init() {
	streams["envconc"] = streamEnvConcIsolated
	streams["envconc-inner"] = streamEnvConc
}

// The scenarios run in child processes, one per phase: a fatal runtime error of the implementation ("concurrent map
// iteration and map write", a panic while a lock is held) ends the child, and the parent reports it with the phase as input.
var envConcPhases = []struct{ name, what string }{
	{"lin", "2-3 goroutines x 2-3 operations on one shared scope, released together (all sequential orders enumerated)"},
	{"firsts", "4 goroutines: first DefineType + Define on a fresh scope"},
	{"shadow", "a symbol bound in the shared scope and in its parent: Set / Get / Type from one goroutine while another deletes and re-defines the inner binding"},
	{"listings", "several goroutines list the symbols / types of a scope (and print it) at the same moment, right after a definition and after a deletion: pure reads, each sees the whole table"},
	{"churn", "one goroutine deletes 400 old symbols of a scope while another defines 200 new ones; every Define that returned nil is there afterwards, every deleted symbol is gone"},
	{"snapshot", "writer: Define(v_i), DefineType(t_i) on one scope; readers: Copy / DeepCopy and symbol listings"},
	{"lockorder", "a chain of scopes root > mod > sub: Addr / Get / Set from the inner scopes (they climb to the parent) against path lookups from the outer scopes (they descend into modules), with definitions queued on every scope"},
	{"reentrant", "a scope whose external lookup calls back into the scope it serves: a lazy loader that binds what it loads (Get / Type / Addr through it), and a read-only alias lookup that resolves through the scope while other goroutines define symbols on it"},
	{"widevalues", "a variable holding a struct of 16 words with storage of its own: one goroutine sets it (SetValue with same-typed values whose fields are all equal), others Get it, Copy the scope and read the copy; every read sees the fields of one set"},
	{"modulestring", "a scope holding a module: one goroutine defines and deletes symbols inside the module while others print the outer scope (String), copy it and list its symbols"},
	{"typesnapshot", "one goroutine re-defines two type names again and again in a fixed order (first, then second, generation g = 1, 2, ...); others copy the scope: a copy shows the types of one moment - second is never newer than first"},
	{"oddvalues", "a scope that holds values reflect refuses to copy / set / read (an unexported field of a host struct): Copy, DeepCopy, String under recover, then ordinary operations on the same scope"},
	{"stress", "8 goroutines x 400 random operations incl. String, DefineType, Type, DeepCopy, symbol listings on one scope"},
}

func streamEnvConcIsolated(o *Out, r *rand.Rand, n int, thorough bool) {
	for _, ph := range envConcPhases {
		dir := filepath.Join(o.dir, "phase-"+ph.name)
		args := []string{"envconc-inner", "-seed", fmt.Sprint(o.Sum.Seed), "-n", fmt.Sprint(n), "-out", dir}
		if thorough {
			args = append(args, "-thorough")
		}
		cmd := exec.Command(os.Args[0], args...)
		cmd.Env = append(os.Environ(), "VERIF_ENVCONC_PHASE="+ph.name)
		tb := &tailBuf{}
		cmd.Stderr = io.MultiWriter(tb, os.Stderr)
		err := cmd.Run()
		var sum Summary
		b, rerr := os.ReadFile(filepath.Join(dir, "summary.json"))
		if rerr == nil {
			rerr = json.Unmarshal(b, &sum)
		}
		if err != nil || rerr != nil {
			head := tb.String()
			key := "env-fatal"
			if i := strings.Index(head, "fatal error: "); i >= 0 {
				key += ":" + firstWords(head[i+len("fatal error: "):], 6)
			} else if i := strings.Index(head, "panic: "); i >= 0 {
				key += ":" + firstWords(head[i+len("panic: "):], 6)
			}
			o.Fail(Failure{Oracle: "no-fatal-error", Key: key, Input: ph.what,
				Detail: fmt.Sprintf("the process running this scenario died (%v): %s", err, head)})
			continue
		}
		if o.Sum.Rule == "" {
			o.Sum.Rule = sum.Rule
		}
		o.Sum.Evaluations += sum.Evaluations
		o.Sum.Skipped += sum.Skipped
		mergeHist(o.Sum.Hist, sum.Hist)
		for _, f := range sum.Failures {
			o.Fail(f)
		}
		for _, sm := range sum.Samples {
			if len(o.Sum.Samples) < 4 {
				o.Sum.Samples = append(o.Sum.Samples, sm)
			}
		}
		for i := 0; i < sum.Distinct; i++ {
			o.hashes[fmt.Sprintf("%s-%d", ph.name, i)] = true
		}
	}
}

// aliasLookup is a read-only external lookup that resolves one name through the scope it serves
type aliasLookup struct{ e *env.Env }

func (l aliasLookup) Get(name string) (reflect.Value, error) {
	if name != "alias" {
		return reflect.Value{}, fmt.Errorf("not found")
	}
	return l.e.GetValue("target")
}

func (l aliasLookup) Type(name string) (reflect.Type, error) {
	if name != "Alias" {
		return nil, fmt.Errorf("not found")
	}
	return l.e.Type("int64")
}

type cop struct {
	kind string // define set get delete copy symbols delglobal defglobal
	name string
	val  int64
}

func (c cop) String() string { return fmt.Sprintf("%s(%s,%d)", c.kind, c.name, c.val) }

// childOf gives the (one) child scope of a shared scope used by the "c..." operations: lookups and updates that start
// below the shared scope and reach it through the parent link
var childMu sync.Mutex
var childOfEnv = map[*env.Env]*env.Env{}

func childOf(e *env.Env) *env.Env {
	childMu.Lock()
	defer childMu.Unlock()
	if c, ok := childOfEnv[e]; ok {
		return c
	}
	if len(childOfEnv) > 4096 {
		childOfEnv = map[*env.Env]*env.Env{}
	}
	c := e.NewEnv()
	childOfEnv[e] = c
	return c
}

// apply runs one operation on e and renders what the caller can observe.
func (c cop) apply(e *env.Env) string {
	switch c.kind {
	case "addr":
		p, err := e.Addr(c.name)
		if err != nil {
			return fmt.Sprint(err)
		}
		return fmt.Sprint(p.Elem().Interface())
	case "cget":
		v, err := childOf(e).Get(c.name)
		return fmt.Sprint(v, err)
	case "cset":
		return fmt.Sprint(childOf(e).Set(c.name, c.val))
	case "ctype":
		t, err := childOf(e).Type("T" + c.name)
		return fmt.Sprint(t, err)
	case "caddr":
		_, err := childOf(e).Addr(c.name)
		return fmt.Sprint(err)
	case "define":
		return fmt.Sprint(e.Define(c.name, c.val))
	case "set":
		return fmt.Sprint(e.Set(c.name, c.val))
	case "get":
		v, err := e.Get(c.name)
		return fmt.Sprint(v, err)
	case "delete":
		e.Delete(c.name)
		return "-"
	case "delglobal":
		e.DeleteGlobal(c.name)
		return "-"
	case "defglobal":
		return fmt.Sprint(e.DefineGlobal(c.name, c.val))
	case "symbols":
		s := e.GetValueSymbols()
		sort.Strings(s)
		return strings.Join(s, ",")
	case "copy":
		return snapshot(e.Copy())
	case "deftype":
		return fmt.Sprint(e.DefineType("T"+c.name, typeVals[int(c.val)%len(typeVals)]))
	case "type":
		t, err := e.Type("T" + c.name)
		return fmt.Sprint(t, err)
	case "types":
		s := e.GetTypeSymbols()
		sort.Strings(s)
		return strings.Join(s, ",")
	case "string":
		// the listing order is unspecified: compare the sorted lines
		ls := strings.Split(e.String(), "\n")
		sort.Strings(ls)
		return strings.Join(ls, "|")
	}
	return "?"
}

var typeVals = []interface{}{int64(0), "", 1.5, true}

// waitOrDeadlock waits for wg; when the goroutines have not finished after the deadline (every
// operation here takes microseconds) it records a deadlock, writes the summary and ends the
// process: the stuck goroutines cannot be recovered.
func waitOrDeadlock(o *Out, wg *sync.WaitGroup, desc string) {
	done := make(chan struct{})
	go func() { wg.Wait(); close(done) }()
	select {
	case <-done:
	case <-time.After(20 * time.Second):
		o.Fail(Failure{Oracle: "no-deadlock", Key: "env-deadlock", Input: desc,
			Detail: "goroutines using one scope did not finish within 20s: the scope's lock is wedged (no one-at-a-time order blocks)"})
		o.Close()
		os.Exit(0)
	}
}

func snapshot(e *env.Env) string {
	s := e.GetValueSymbols()
	sort.Strings(s)
	out := make([]string, len(s))
	for i, k := range s {
		v, _ := e.Get(k)
		out[i] = fmt.Sprintf("%s=%v", k, v)
	}
	ts := e.GetTypeSymbols()
	sort.Strings(ts)
	for _, k := range ts {
		t, _ := e.Type(k)
		out = append(out, fmt.Sprintf("%s:%v", k, t))
	}
	return "{" + strings.Join(out, " ") + "}"
}

func firstN(xs []string, n int) []string {
	sort.Strings(xs)
	if len(xs) > n {
		return xs[:n]
	}
	return xs
}

func freshShared() (*env.Env, *env.Env) {
	parent := env.NewEnv()
	_ = parent.Define("p", int64(100))
	shared := parent.NewEnv()
	_ = shared.Define("a", int64(0))
	return parent, shared
}

// merges enumerates all interleavings of the threads' operation lists.
func merges(threads [][]cop) [][][2]int {
	var out [][][2]int
	idx := make([]int, len(threads))
	var cur [][2]int
	var rec func()
	rec = func() {
		done := true
		for t := range threads {
			if idx[t] < len(threads[t]) {
				done = false
				cur = append(cur, [2]int{t, idx[t]})
				idx[t]++
				rec()
				idx[t]--
				cur = cur[:len(cur)-1]
			}
		}
		if done {
			out = append(out, append([][2]int(nil), cur...))
		}
	}
	rec()
	return out
}

func streamEnvConc(o *Out, r *rand.Rand, n int, thorough bool) {
	o.Sum.Rule = "2-3 goroutines x 2-3 operations (define, set, get, delete, delete-nearest, define-global, copy, symbol listing) on one shared scope with a read-only parent, " +
		"released together and repeated; each observed outcome (every return value + final state) must be produced by some one-at-a-time order that respects each goroutine's own " +
		"order (all merges enumerated on fresh environments); plus an unchecked-result stress for the race detector; non-trivial = all; distinct by operation lists"
	phase := os.Getenv("VERIF_ENVCONC_PHASE")
	on := func(p string) bool { return phase == "" || phase == p }
	// a scope whose lock is never released blocks the goroutine that computes the sequential outcomes too: a monitor ends the
	// process when no scenario has finished for 30 s and names the scenario that was running
	var beat int64
	var current atomic.Value
	current.Store("")
	go func() {
		last, since := int64(-1), time.Now()
		for {
			time.Sleep(2 * time.Second)
			if b := atomic.LoadInt64(&beat); b != last {
				last, since = b, time.Now()
			} else if time.Since(since) > 30*time.Second {
				o.Fail(Failure{Oracle: "no-deadlock", Key: "env-deadlock", Input: current.Load().(string),
					Detail: "no operation on the scope has returned for 30 s (also one at a time): a lock of the scope is never released"})
				o.Close()
				os.Exit(0)
			}
		}
	}()
	names := []string{"a", "b", "p"}
	kinds := []string{"define", "define", "set", "get", "get", "delete", "copy", "symbols", "delglobal", "defglobal", "deftype", "deftype", "type", "types", "string", "addr", "cget", "cset", "ctype", "caddr"}
	reps := 40
	if thorough {
		reps = 200
	}
	for it := 0; it < n && on("lin"); it++ {
		nt := 2 + r.Intn(2)
		threads := make([][]cop, nt)
		for t := range threads {
			k := 2 + r.Intn(2)
			if nt == 3 {
				k = 2
			}
			for j := 0; j < k; j++ {
				threads[t] = append(threads[t], cop{kinds[r.Intn(len(kinds))], names[r.Intn(len(names))], int64(1 + r.Intn(9))})
			}
		}
		desc := fmt.Sprint(threads)
		current.Store(desc)
		atomic.AddInt64(&beat, 1)
		// all sequential outcomes
		allowed := map[string]bool{}
		for _, m := range merges(threads) {
			parent, shared := freshShared()
			res := make([][]string, nt)
			for t := range res {
				res[t] = make([]string, len(threads[t]))
			}
			for _, st := range m {
				res[st[0]][st[1]] = threads[st[0]][st[1]].apply(shared)
			}
			allowed[fmt.Sprint(res, snapshot(shared), snapshot(parent))] = true
		}
		o.Sum.Evaluations++
		o.hashes[desc] = true
		if len(o.Sum.Samples) < 4 {
			o.Sum.Samples = append(o.Sum.Samples, desc)
		}
		o.Sum.Hist[fmt.Sprintf("threads:%d", nt)]++
		for rep := 0; rep < reps; rep++ {
			parent, shared := freshShared()
			res := make([][]string, nt)
			var wg sync.WaitGroup
			start := make(chan struct{})
			for t := range threads {
				res[t] = make([]string, len(threads[t]))
				wg.Add(1)
				go func(t int) {
					defer wg.Done()
					<-start
					for j, c := range threads[t] {
						res[t][j] = c.apply(shared)
					}
				}(t)
			}
			close(start)
			waitOrDeadlock(o, &wg, desc)
			got := fmt.Sprint(res, snapshot(shared), snapshot(parent))
			if !allowed[got] {
				o.Fail(Failure{Oracle: "sequentially-consistent", Key: "env-not-linearizable", Input: desc,
					Detail: fmt.Sprintf("observed %s; no one-at-a-time order of the operations produces it (%d orders tried)", got, len(allowed))})
				break
			}
		}
	}
	// first definitions on a fresh scope: several goroutines each make the scope's first type / value definitions
	// together; afterwards every definition must be there (each call returned nil)
	firsts := 3000
	if thorough {
		firsts = 30000
	}
	if !on("firsts") {
		firsts = 0
	}
	for round := 0; round < firsts; round++ {
		_, shared := freshShared()
		var wg sync.WaitGroup
		start := make(chan struct{})
		const G = 4
		for g := 0; g < G; g++ {
			wg.Add(1)
			go func(g int) {
				defer wg.Done()
				<-start
				_ = shared.DefineType(fmt.Sprintf("T%d", g), int64(0))
				_ = shared.Define(fmt.Sprintf("v%d", g), int64(g))
			}(g)
		}
		close(start)
		waitOrDeadlock(o, &wg, "4 goroutines: first DefineType + Define on a fresh scope")
		o.Sum.Hist["first-definitions"]++
		if ts, vs := shared.GetTypeSymbols(), shared.GetValueSymbols(); len(ts) != G || len(vs) != G+1 {
			sort.Strings(ts)
			sort.Strings(vs)
			o.Fail(Failure{Oracle: "sequentially-consistent", Key: "env-lost-definition", Input: "4 goroutines: DefineType(T_g), Define(v_g) on a fresh child scope holding a",
				Detail: fmt.Sprintf("all calls returned, but the scope holds types %v and values %v", ts, vs)})
			break
		}
	}
	o.Sum.Evaluations += firsts
	// a shadowed symbol: the parent binds x (value and type) throughout, the shared scope's own binding of x comes and
	// goes. In every one-at-a-time order Set(x), Get(x) and Type(x) on the shared scope find a binding, so none of them
	// may ever fail, and a value read is one that was written.
	shadowOps := 150000
	if thorough {
		shadowOps = 1500000
	}
	if !on("shadow") {
		shadowOps = 0
	}
	if shadowOps > 0 {
		desc := "parent: Define(x, -1), DefineType(x, int64); shared child: Define(x, 0); goroutine A: Set(x, i), Get(x), Type(x) in a loop on the child; goroutine B: Delete(x), Define(x, -2), DefineType(x, string) / delete of the type in a loop on the child"
		current.Store(desc)
		parent := env.NewEnv()
		_ = parent.Define("x", int64(-1))
		_ = parent.DefineType("x", int64(0))
		shared := parent.NewEnv()
		_ = shared.Define("x", int64(0))
		stop := make(chan struct{})
		var wg sync.WaitGroup
		wg.Add(1)
		go func() {
			defer wg.Done()
			for i := 0; ; i++ {
				select {
				case <-stop:
					return
				default:
				}
				shared.Delete("x")
				_ = shared.Define("x", int64(-2))
				if i%2 == 0 {
					_ = shared.DefineType("x", "")
				}
			}
		}()
		var bad string
		for i := 0; i < shadowOps && bad == ""; i++ {
			if i%4096 == 0 {
				atomic.AddInt64(&beat, 1)
			}
			if err := shared.Set("x", int64(i)); err != nil {
				bad = fmt.Sprintf("Set(\"x\", %d) = %v", i, err)
			}
			if v, err := shared.Get("x"); err != nil {
				bad = fmt.Sprintf("Get(\"x\") = %v", err)
			} else if n, ok := v.(int64); !ok || n < -2 || n > int64(i) {
				bad = fmt.Sprintf("Get(\"x\") = %v, a value nobody stored", v)
			}
			if _, err := shared.Type("x"); err != nil {
				bad = fmt.Sprintf("Type(\"x\") = %v", err)
			}
		}
		close(stop)
		waitOrDeadlock(o, &wg, desc)
		o.Sum.Evaluations += shadowOps
		o.Sum.Hist["shadowed-symbol-ops"] += shadowOps
		if bad != "" {
			o.Fail(Failure{Oracle: "sequentially-consistent", Key: "env-not-linearizable:shadowed", Input: desc,
				Detail: "an enclosing scope binds x throughout, yet " + bad + ": no one-at-a-time order of the calls produces that"})
		}
	}
	// listings: pure reads of one scope from several goroutines at once, started right after the table changed (whatever
	// a read memoises must not be written while only the read lock is held: the race detector sees that; the contents are
	// checked in any case)
	listRounds := 400
	if thorough {
		listRounds = 4000
	}
	if !on("listings") {
		listRounds = 0
	}
	for round := 0; round < listRounds; round++ {
		desc := "scope with v0..v5 and types t0..t2; Define(extra) / Delete(v0) / DefineType(t3), then 4 goroutines at once: GetValueSymbols, GetTypeSymbols, String, Copy"
		if round == 0 {
			current.Store(desc)
		}
		atomic.AddInt64(&beat, 1)
		parent := env.NewEnv()
		shared := parent.NewEnv()
		for i := 0; i < 6; i++ {
			_ = shared.Define(fmt.Sprintf("v%d", i), int64(i))
		}
		for i := 0; i < 3; i++ {
			_ = shared.DefineType(fmt.Sprintf("t%d", i), int64(0))
		}
		wantVals, wantTypes := 6, 3
		switch round % 3 {
		case 0:
			_ = shared.Define("extra", int64(9))
			wantVals = 7
		case 1:
			shared.Delete("v0")
			wantVals = 5
		case 2:
			_ = shared.DefineType("t3", "")
			wantTypes = 4
		}
		var wg sync.WaitGroup
		start := make(chan struct{})
		bad := make([]string, 8)
		for g := 0; g < 8; g++ {
			wg.Add(1)
			go func(g int) {
				defer wg.Done()
				<-start
				switch g % 4 {
				case 0:
					if n := len(shared.GetValueSymbols()); n != wantVals {
						bad[g] = fmt.Sprintf("GetValueSymbols lists %d symbols, the scope holds %d", n, wantVals)
					}
				case 1:
					if n := len(shared.GetTypeSymbols()); n != wantTypes {
						bad[g] = fmt.Sprintf("GetTypeSymbols lists %d types, the scope holds %d", n, wantTypes)
					}
				case 2:
					_ = shared.String()
				case 3:
					if c := shared.Copy(); len(c.GetValueSymbols()) != wantVals || len(c.GetTypeSymbols()) != wantTypes {
						bad[g] = fmt.Sprintf("a Copy holds %d symbols and %d types, the scope %d and %d", len(c.GetValueSymbols()), len(c.GetTypeSymbols()), wantVals, wantTypes)
					}
				}
			}(g)
		}
		close(start)
		waitOrDeadlock(o, &wg, desc)
		o.Sum.Hist["listing-rounds"]++
		failed := false
		for _, b := range bad {
			if b != "" {
				o.Fail(Failure{Oracle: "sequentially-consistent", Key: "env-listing", Input: desc, Detail: b})
				failed = true
				break
			}
		}
		if failed {
			break
		}
	}
	o.Sum.Evaluations += listRounds
	// churn: deletions and definitions of DIFFERENT symbols on one scope at the same time. Whatever the order, afterwards
	// the scope holds exactly the kept and the newly defined symbols (an update must not be lost to a concurrent delete).
	churnRounds := 150
	if thorough {
		churnRounds = 1500
	}
	if !on("churn") {
		churnRounds = 0
	}
	for round := 0; round < churnRounds; round++ {
		desc := "scope with old0..old399 and keep0..keep9; goroutine A: Delete(old_i) for all i (half of them through DeleteGlobal from a child scope); goroutine B: Define(new_j, j) for j < 200; goroutine C: Set(keep_k, round)"
		if round == 0 {
			current.Store(desc)
		}
		atomic.AddInt64(&beat, 1)
		parent := env.NewEnv()
		shared := parent.NewEnv()
		child := shared.NewEnv()
		for i := 0; i < 400; i++ {
			_ = shared.Define(fmt.Sprintf("old%d", i), int64(i))
		}
		for k := 0; k < 10; k++ {
			_ = shared.Define(fmt.Sprintf("keep%d", k), int64(-1))
		}
		var wg sync.WaitGroup
		start := make(chan struct{})
		wg.Add(3)
		go func() {
			defer wg.Done()
			<-start
			for i := 0; i < 400; i++ {
				if i%2 == 0 {
					shared.Delete(fmt.Sprintf("old%d", i))
				} else {
					child.DeleteGlobal(fmt.Sprintf("old%d", i))
				}
			}
		}()
		var defErr error
		go func() {
			defer wg.Done()
			<-start
			for j := 0; j < 200; j++ {
				if err := shared.Define(fmt.Sprintf("new%d", j), int64(j)); err != nil {
					defErr = err
				}
			}
		}()
		go func() {
			defer wg.Done()
			<-start
			for k := 0; k < 10; k++ {
				_ = shared.Set(fmt.Sprintf("keep%d", k), int64(round))
			}
		}()
		close(start)
		waitOrDeadlock(o, &wg, desc)
		o.Sum.Hist["churn-rounds"]++
		missing, stale, leftover := 0, 0, 0
		for j := 0; j < 200; j++ {
			if v, err := shared.Get(fmt.Sprintf("new%d", j)); err != nil || v != int64(j) {
				missing++
			}
		}
		for k := 0; k < 10; k++ {
			if v, err := shared.Get(fmt.Sprintf("keep%d", k)); err != nil || v != int64(round) {
				stale++
			}
		}
		for i := 0; i < 400; i++ {
			if _, err := shared.Get(fmt.Sprintf("old%d", i)); err == nil {
				leftover++
			}
		}
		if defErr != nil || missing != 0 || stale != 0 || leftover != 0 || len(shared.GetValueSymbols()) != 210 {
			o.Fail(Failure{Oracle: "sequentially-consistent", Key: "env-lost-update:churn", Input: desc,
				Detail: fmt.Sprintf("round %d: %d of 200 symbols whose Define returned nil are missing, %d of 10 Set values are stale, %d deleted symbols are still there, the scope lists %d symbols (expected 210), define error %v: no one-at-a-time order of the calls gives that",
					round, missing, stale, leftover, len(shared.GetValueSymbols()), defErr)})
			break
		}
	}
	o.Sum.Evaluations += churnRounds
	// snapshot consistency: one writer runs a known sequence (value v_i, then type t_i, for i = 0..K-1) while
	// readers copy the scope; every copy must be one of the K*2+1 states the scope passed through:
	// values {v_0..v_a-1}, types {t_0..t_b-1} with b <= a <= b+1
	rounds := 40
	if thorough {
		rounds = 400
	}
	const K = 120
	tornReported := false
	if !on("snapshot") {
		rounds = 0
	}
	for round := 0; round < rounds && !tornReported; round++ {
		_, shared := freshShared()
		shared.Delete("a")
		done := make(chan struct{})
		var wg sync.WaitGroup
		var mu sync.Mutex
		var torn string
		copies := 0
		for g := 0; g < 3; g++ {
			wg.Add(1)
			go func(g int) {
				defer wg.Done()
				for {
					select {
					case <-done:
						return
					default:
					}
					var vs, ts []string
					var a, b int
					var bad bool
					if g == 1 {
						// a symbol listing taken directly: the names v_0..v_(a-1) for some a, nothing else
						vs = shared.GetValueSymbols()
						a = len(vs)
					} else {
						var c *env.Env
						if g == 2 {
							c = shared.DeepCopy()
						} else {
							c = shared.Copy()
						}
						vs, ts = c.GetValueSymbols(), c.GetTypeSymbols()
						a, b = len(vs), len(ts)
						bad = !(b <= a && a <= b+1)
					}
					have := map[string]bool{}
					for _, x := range vs {
						have[x] = true
					}
					for _, x := range ts {
						have[x] = true
					}
					for i := 0; i < a && !bad; i++ {
						if !have[fmt.Sprintf("v%d", i)] {
							bad = true
						}
					}
					for i := 0; i < b && !bad; i++ {
						if !have[fmt.Sprintf("t%d", i)] {
							bad = true
						}
					}
					mu.Lock()
					copies++
					if bad && torn == "" {
						torn = fmt.Sprintf("copy / listing %d holds %d values and %d types (values %v..., types %v...)", g, a, b, firstN(vs, 3), firstN(ts, 3))
					}
					mu.Unlock()
				}
			}(g)
		}
		for i := 0; i < K; i++ {
			_ = shared.Define(fmt.Sprintf("v%d", i), int64(i))
			_ = shared.DefineType(fmt.Sprintf("t%d", i), int64(0))
		}
		close(done)
		waitOrDeadlock(o, &wg, "writer: Define/DefineType; readers: Copy / DeepCopy")
		o.Sum.Evaluations += copies
		o.Sum.Hist["snapshot-copies"] += copies
		if torn != "" {
			tornReported = true
			o.Fail(Failure{Oracle: "copy-is-a-snapshot", Key: "env-torn-copy", Input: fmt.Sprintf("writer: Define(v_i), DefineType(t_i) for i < %d on one scope; readers: Copy / DeepCopy", K),
				Detail: torn + "; the scope never was in that state (after t_i is defined v_i exists)"})
		}
	}
	if on("lockorder") && phase != "" {
		// operations that hold one scope's lock while they ask for another's must all go the same way (towards the root)
		root := env.NewEnv()
		mod, _ := root.NewModule("mod")
		sub, _ := mod.NewModule("sub")
		_ = root.Define("zzz", int64(1))
		_ = mod.Define("yyy", int64(2))
		stop := make(chan struct{})
		var wg sync.WaitGroup
		run := func(f func()) {
			wg.Add(1)
			go func() {
				defer wg.Done()
				for {
					select {
					case <-stop:
						return
					default:
						f()
					}
				}
			}()
		}
		run(func() { _, _ = mod.Addr("zzz") })
		run(func() { _, _ = sub.Addr("zzz") })
		run(func() { _, _ = sub.Addr("yyy") })
		run(func() { _, _ = root.GetEnvFromPath([]string{"mod", "sub"}) })
		run(func() { _, _ = mod.GetEnvFromPath([]string{"sub"}) })
		run(func() { _, _ = sub.GetEnvFromPath([]string{"mod", "sub"}) })
		run(func() { _ = root.Define("w", int64(1)) })
		run(func() { _ = mod.Define("w", int64(1)) })
		run(func() { _ = sub.Define("w", int64(1)) })
		run(func() { _, _ = sub.Get("zzz") })
		run(func() { _ = sub.Set("zzz", int64(2)) })
		run(func() { _, _ = sub.Type("int64") })
		d := 1500 * time.Millisecond
		if thorough {
			d = 8 * time.Second
		}
		time.Sleep(d)
		close(stop)
		waitOrDeadlock(o, &wg, "scopes root > mod > sub; goroutines looping: mod.Addr(zzz), sub.Addr(zzz), sub.Addr(yyy), root.GetEnvFromPath([mod sub]), mod.GetEnvFromPath([sub]), sub.GetEnvFromPath([mod sub]), Define(w) on each of the three scopes, sub.Get(zzz), sub.Set(zzz), sub.Type(int64)")
		o.Sum.Evaluations++
		o.Sum.Hist["lock-order-scenario"]++
	}
	if on("reentrant") && phase != "" {
		// (1) lazy loader: the lookup binds the symbol in the scope it is asked through
		e := env.NewEnv()
		e.SetExternalLookup(lazyLookup{e})
		child := e.NewEnv()
		var wg sync.WaitGroup
		var bad atomic.Value
		wg.Add(2)
		go func() {
			defer wg.Done()
			for i := 0; i < 200; i++ {
				e.Delete("answer")
				if v, err := e.Get("answer"); err != nil || v != int64(42) {
					bad.Store(fmt.Sprint("Get(answer) through the lazy loader: ", v, " ", err))
				}
				if _, err := e.Type("Answer"); err != nil {
					bad.Store(fmt.Sprint("Type(Answer) through the lazy loader: ", err))
				}
				e.Delete("answer")
				if _, err := child.Get("answer"); err != nil {
					bad.Store(fmt.Sprint("child.Get(answer) through the parent's lazy loader: ", err))
				}
				e.Delete("answer")
				if _, err := e.Addr("answer"); err != nil {
					bad.Store(fmt.Sprint("Addr(answer) through the lazy loader: ", err))
				}
			}
		}()
		go func() {
			defer wg.Done()
			for i := 0; i < 200; i++ {
				_ = e.Define("w", int64(i))
				_, _ = e.Get("w")
			}
		}()
		waitOrDeadlock(o, &wg, "scope e with an external lookup that defines what it loads in e (DefineValue / DefineReflectType); goroutine A loops Delete(answer), Get(answer), Type(Answer), child.Get(answer), Addr(answer); goroutine B loops Define(w), Get(w)")
		if b := bad.Load(); b != nil {
			o.Fail(Failure{Oracle: "linearizable", Key: "env-lazy-lookup", Input: "a lazy-loading external lookup on a shared scope", Detail: b.(string)})
		}
		o.Sum.Evaluations++
		o.Sum.Hist["reentrant-lazy-loader"]++
		// (2) alias lookup: read-only, resolves another name through the scope; writers queue on the same scope
		e2 := env.NewEnv()
		_ = e2.Define("target", int64(7))
		e2.SetExternalLookup(aliasLookup{e2})
		stop := make(chan struct{})
		var wg2 sync.WaitGroup
		for k := 0; k < 3; k++ {
			wg2.Add(2)
			go func() {
				defer wg2.Done()
				for {
					select {
					case <-stop:
						return
					default:
						if v, err := e2.Get("alias"); err != nil || v != int64(7) {
							bad.Store(fmt.Sprint("Get(alias): ", v, " ", err))
						}
						_, _ = e2.Type("Alias")
					}
				}
			}()
			go func(k int) {
				defer wg2.Done()
				for i := 0; ; i++ {
					select {
					case <-stop:
						return
					default:
						_ = e2.Define(fmt.Sprintf("w%d", k), int64(i))
					}
				}
			}(k)
		}
		d := time.Second
		if thorough {
			d = 6 * time.Second
		}
		time.Sleep(d)
		close(stop)
		waitOrDeadlock(o, &wg2, "scope e with a read-only external lookup that resolves alias -> e.GetValue(target); 3 goroutines loop Get(alias), Type(Alias); 3 goroutines loop Define(w_k)")
		if b := bad.Load(); b != nil {
			o.Fail(Failure{Oracle: "linearizable", Key: "env-alias-lookup", Input: "a read-only alias lookup on a shared scope", Detail: b.(string)})
		}
		o.Sum.Evaluations++
		o.Sum.Hist["reentrant-alias-lookup"]++
	}
	if on("modulestring") && phase != "" {
		parent := env.NewEnv()
		m, _ := parent.NewModule("m")
		_ = parent.Define("n", int64(1))
		stop := make(chan struct{})
		var wg sync.WaitGroup
		wg.Add(3)
		go func() {
			defer wg.Done()
			for i := 0; ; i++ {
				select {
				case <-stop:
					return
				default:
					k := fmt.Sprintf("k%d", i%50)
					_ = m.Define(k, int64(i))
					if i%2 == 1 {
						m.Delete(k)
					}
				}
			}
		}()
		for k := 0; k < 2; k++ {
			go func(k int) {
				defer wg.Done()
				for {
					select {
					case <-stop:
						return
					default:
						if k == 0 {
							_ = parent.String()
						} else {
							_ = parent.Copy().String()
							_ = parent.GetValueSymbols()
						}
					}
				}
			}(k)
		}
		d := time.Second
		if thorough {
			d = 5 * time.Second
		}
		time.Sleep(d)
		close(stop)
		waitOrDeadlock(o, &wg, "modulestring")
		o.Sum.Evaluations++
		o.Sum.Hist["module-string-scenario"]++
	}
	if on("typesnapshot") && phase != "" {
		e := env.NewEnv()
		const nGen = 4000
		genTypes := make([]reflect.Type, nGen+1)
		for g := 1; g <= nGen; g++ {
			genTypes[g] = reflect.ArrayOf(g, reflect.TypeOf(int8(0)))
		}
		gen := func(g int) reflect.Type { return genTypes[(g-1)%nGen+1] }
		_ = e.DefineReflectType("first", gen(1))
		_ = e.DefineReflectType("second", gen(1))
		_ = e.Define("vfirst", int64(1))
		_ = e.Define("vsecond", int64(1))
		stop := make(chan struct{})
		var wg sync.WaitGroup
		var torn atomic.Value
		wg.Add(1)
		go func() {
			defer wg.Done()
			for g := 2; ; g++ {
				select {
				case <-stop:
					return
				default:
					_ = e.DefineReflectType("first", gen(g))
					_ = e.DefineReflectType("second", gen(g))
				}
			}
		}()
		wg.Add(1)
		go func() {
			defer wg.Done()
			for g := 2; ; g++ {
				select {
				case <-stop:
					return
				default:
					_ = e.Define("vfirst", int64(g))
					_ = e.Define("vsecond", int64(g))
				}
			}
		}()
		for k := 0; k < 3; k++ {
			wg.Add(1)
			go func(k int) {
				defer wg.Done()
				for {
					select {
					case <-stop:
						return
					default:
						var c *env.Env
						if k == 2 {
							c = e.DeepCopy()
						} else {
							c = e.Copy()
						}
						vf, _ := c.Get("vfirst")
						vs, _ := c.Get("vsecond")
						if f, s := vf.(int64), vs.(int64); s > f || f > s+1 {
							torn.Store(fmt.Sprintf("a copy holds vfirst = %d and vsecond = %d", f, s))
						}
						tf, err1 := c.Type("first")
						ts, err2 := c.Type("second")
						if err1 != nil || err2 != nil {
							torn.Store(fmt.Sprint("a copy lacks a type that was always defined: ", err1, " ", err2))
						} else if f, s := tf.Len(), ts.Len(); !(f == s || f == s+1 || (f == 1 && s == nGen)) {
							torn.Store(fmt.Sprintf("a copy holds type first of generation %d and type second of generation %d", f, s))
						}
					}
				}
			}(k)
		}
		d := 1500 * time.Millisecond
		if thorough {
			d = 8 * time.Second
		}
		time.Sleep(d)
		close(stop)
		waitOrDeadlock(o, &wg, "typesnapshot")
		if b := torn.Load(); b != nil {
			o.Fail(Failure{Oracle: "copy-is-a-snapshot", Key: "env-torn-copy", Input: "writer 1: for g = 2, 3, ...: DefineReflectType(first, [g]int8), DefineReflectType(second, [g]int8); writer 2: Define(vfirst, g), Define(vsecond, g); readers: Copy / DeepCopy, then Type(first), Type(second), Get(vfirst), Get(vsecond) on the copy",
				Detail: b.(string) + "; the scope never was in that state (second is re-defined after first, generation by generation)"})
		}
		o.Sum.Evaluations++
		o.Sum.Hist["type-snapshot-scenario"]++
	}
	if on("widevalues") && phase != "" {
		type wide struct{ F [16]int64 }
		wt := reflect.TypeOf(wide{})
		mk := func(i int64) reflect.Value {
			v := reflect.New(wt).Elem()
			for k := 0; k < 16; k++ {
				v.Field(0).Index(k).SetInt(i)
			}
			return v
		}
		uniform := func(x interface{}) (string, bool) {
			w, ok := x.(wide)
			if !ok {
				return fmt.Sprintf("%T", x), false
			}
			for k := 1; k < 16; k++ {
				if w.F[k] != w.F[0] {
					return fmt.Sprint(w.F), false
				}
			}
			return "", true
		}
		e := env.NewEnv()
		_ = e.DefineValue("w", mk(0))
		stop := make(chan struct{})
		var wg sync.WaitGroup
		var torn atomic.Value
		wg.Add(1)
		go func() {
			defer wg.Done()
			for i := int64(1); ; i++ {
				select {
				case <-stop:
					return
				default:
					_ = e.SetValue("w", mk(i))
					if i%3 == 0 {
						_ = e.Set("w", mk(i).Interface())
						_ = e.DefineValue("w", mk(i))
					}
				}
			}
		}()
		for k := 0; k < 3; k++ {
			wg.Add(1)
			go func(k int) {
				defer wg.Done()
				for {
					select {
					case <-stop:
						return
					default:
						var x interface{}
						var err error
						if k == 2 {
							x, err = e.Copy().Get("w")
						} else {
							x, err = e.Get("w")
						}
						if err != nil {
							torn.Store("Get(w): " + err.Error())
						} else if s, ok := uniform(x); !ok {
							torn.Store("a read of w returned " + s + ": fields of two different sets")
						}
					}
				}
			}(k)
		}
		d := 1500 * time.Millisecond
		if thorough {
			d = 8 * time.Second
		}
		time.Sleep(d)
		close(stop)
		waitOrDeadlock(o, &wg, "widevalues")
		if b := torn.Load(); b != nil {
			o.Fail(Failure{Oracle: "linearizable", Key: "env-torn-value", Input: "w holds a struct of 16 int64 with storage of its own; writer: SetValue(w, {i,i,...,i}) for i = 1, 2, ...; readers: Get(w), Copy().Get(w)",
				Detail: b.(string) + "; no one-at-a-time order of the sets and gets returns that"})
		}
		o.Sum.Evaluations++
		o.Sum.Hist["wide-value-scenario"]++
	}
	if on("oddvalues") && phase != "" {
		type hostRec struct {
			hidden int
			Pub    int
		}
		h := &hostRec{1, 2}
		e := env.NewEnv()
		_ = e.DefineValue("u", reflect.ValueOf(h).Elem().Field(0))
		_ = e.DefineValue("p", reflect.ValueOf(h).Elem().Field(1))
		_ = e.Define("n", int64(1))
		guard := func(f func()) {
			defer func() { _ = recover() }()
			f()
		}
		guard(func() { e.Copy() })
		guard(func() { e.DeepCopy() })
		guard(func() { _ = e.String() })
		guard(func() { e.GetValueSymbols() })
		guard(func() { _, _ = e.Addr("u") })
		var wg sync.WaitGroup
		wg.Add(1)
		var defErr, getErr error
		var got interface{}
		go func() {
			defer wg.Done()
			defErr = e.Define("z", int64(5))
			got, getErr = e.Get("z")
			e.Delete("n")
			_ = e.DefineType("T", int64(0))
		}()
		waitOrDeadlock(o, &wg, "DefineValue(u, <unexported field of a host struct>); Copy, DeepCopy, String, GetValueSymbols, Addr(u) under recover; then Define(z, 5), Get(z), Delete(n), DefineType(T) on the same scope")
		o.Sum.Evaluations++
		o.Sum.Hist["odd-values-scenario"]++
		if defErr != nil || getErr != nil || got != int64(5) {
			o.Fail(Failure{Oracle: "scope-stays-usable", Key: "env-unusable-after-odd-value", Input: "DefineValue(u, <unexported field>); Copy / DeepCopy / String under recover; Define(z, 5); Get(z)",
				Detail: fmt.Sprintf("Define: %v, Get: %v %v", defErr, got, getErr)})
		}
	}
	// stress for the race detector: many goroutines hammering one scope (results unchecked)
	if !on("stress") {
		return
	}
	parent, shared := freshShared()
	_ = parent
	var wg sync.WaitGroup
	for g := 0; g < 8; g++ {
		wg.Add(1)
		go func(g int) {
			defer wg.Done()
			rr := rand.New(rand.NewSource(int64(g)))
			for i := 0; i < 400; i++ {
				c := cop{kinds[rr.Intn(len(kinds))], names[rr.Intn(len(names))], int64(rr.Intn(9))}
				c.apply(shared)
				if i%50 == 0 {
					// installing / removing the external lookup is an operation like the others
					if g == 0 {
						shared.SetExternalLookup(nil)
					} else if g == 1 {
						shared.SetExternalLookup(extLookup{})
					}
					shared.GetTypeSymbols()
					_ = shared.DefineType("T", int64(0))
					_, _ = shared.Type("T")
					_ = shared.String()
					shared.DeepCopy()
				}
			}
		}(g)
	}
	waitOrDeadlock(o, &wg, "8 goroutines x 400 random operations incl. String, DefineType, Type, DeepCopy on one scope")
	o.Sum.Evaluations++
}
