package main

import (
	"fmt"
	"github.com/mattn/anko/parser"
	"math/rand"
	"reflect"
	"sort"
	"strings"
	"sync"
	"sync/atomic"
	"time"

	"github.com/mattn/anko/env"
	"github.com/mattn/anko/vm"
)

func init() { streams["goconv"] = streamGoConv }

// ---- rendering of Go values with their dynamic types (as the Lean driver prints typed values)

func tyName(t reflect.Type) string {
	switch t.Kind() {
	case reflect.Interface:
		if t.NumMethod() == 0 {
			return "iface"
		}
		return t.String()
	case reflect.Slice:
		return "[]" + tyName(t.Elem())
	case reflect.Map:
		return "map[" + tyName(t.Key()) + "]" + tyName(t.Elem())
	}
	return t.String()
}

func renderTyped(v reflect.Value) string {
	if !v.IsValid() {
		return "nil"
	}
	if v.Kind() == reflect.Interface {
		if v.IsNil() {
			return "nil"
		}
		return renderTyped(v.Elem())
	}
	switch v.Kind() {
	case reflect.Int, reflect.Int8, reflect.Int16, reflect.Int32, reflect.Int64:
		return fmt.Sprintf("%s:%d", tyName(v.Type()), v.Int())
	case reflect.Uint, reflect.Uint8, reflect.Uint16, reflect.Uint32, reflect.Uint64:
		return fmt.Sprintf("%s:%d", tyName(v.Type()), v.Uint())
	case reflect.Float32, reflect.Float64:
		return fmt.Sprintf("%s:%v", tyName(v.Type()), v.Float())
	case reflect.String:
		return "string:" + hexOf(v.String())
	case reflect.Bool:
		return fmt.Sprintf("bool:%v", v.Bool())
	case reflect.Slice:
		xs := make([]string, v.Len())
		for i := range xs {
			xs[i] = renderTyped(v.Index(i))
		}
		return tyName(v.Type()) + "[" + strings.Join(xs, " ") + "]"
	case reflect.Map:
		var xs []string
		it := v.MapRange()
		for it.Next() {
			xs = append(xs, renderTyped(it.Key())+"=>"+renderTyped(it.Value()))
		}
		sort.Strings(xs)
		return tyName(v.Type()) + "{" + strings.Join(xs, " ") + "}"
	case reflect.Ptr:
		if v.IsNil() {
			return tyName(v.Type()) + ":nil"
		}
		return "&" + renderTyped(v.Elem())
	case reflect.Struct:
		xs := make([]string, v.NumField())
		for i := range xs {
			xs[i] = v.Type().Field(i).Name + "=" + renderTyped(v.Field(i))
		}
		return v.Type().Name() + "{" + strings.Join(xs, " ") + "}"
	case reflect.Func:
		return "func"
	}
	return fmt.Sprintf("<%s>", v.Kind())
}

// ---- the reference: what Go's own conversion to T produces (property C11), independent of the interpreter

var ifaceT = reflect.TypeOf((*interface{})(nil)).Elem()

func refConvert(v reflect.Value, t reflect.Type) (reflect.Value, bool) {
	// interface-typed or invalid values: nil -> zero, otherwise the dynamic value
	if !v.IsValid() {
		return reflect.Zero(t), true
	}
	if v.Kind() == reflect.Interface {
		if v.IsNil() {
			if t == ifaceT {
				return v, true
			}
			return reflect.Zero(t), true
		}
		v = v.Elem()
	}
	if t == ifaceT || v.Type() == t {
		return v, true
	}
	if v.Type().ConvertibleTo(t) {
		return v.Convert(t), true
	}
	if v.Kind() == reflect.Slice && t.Kind() == reflect.Slice {
		out := reflect.MakeSlice(t, v.Len(), v.Len())
		for i := 0; i < v.Len(); i++ {
			e, ok := refConvert(v.Index(i), t.Elem())
			if !ok {
				return v, false
			}
			out.Index(i).Set(e)
		}
		return out, true
	}
	if v.Kind() == reflect.Map && t.Kind() == reflect.Map {
		out := reflect.MakeMap(t)
		it := v.MapRange()
		for it.Next() {
			k, ok1 := refConvert(it.Key(), t.Key())
			e, ok2 := refConvert(it.Value(), t.Elem())
			if !ok1 || !ok2 {
				return v, false
			}
			out.SetMapIndex(k, e)
		}
		return out, true
	}
	if v.Kind() == reflect.String && (t.Kind() == reflect.Uint8 || t.Kind() == reflect.Int32) {
		s := v.String()
		switch len(s) {
		case 0:
			return reflect.Zero(t), true
		case 1:
			return reflect.ValueOf(s[0]).Convert(t), true
		}
	}
	return v, false
}

// ---- model encoding (types and values inside the Lean universe)

func leanTy(t reflect.Type) (string, bool) {
	switch t.Kind() {
	case reflect.Int64:
		return "int64", t == reflect.TypeOf(int64(0))
	case reflect.Int32:
		return "int32", t == reflect.TypeOf(int32(0))
	case reflect.Int8:
		return "int8", true
	case reflect.Uint8:
		return "uint8", true
	case reflect.String:
		return "string", t == reflect.TypeOf("")
	case reflect.Bool:
		return "bool", t == reflect.TypeOf(true)
	case reflect.Interface:
		return "iface", t == ifaceT
	case reflect.Slice:
		e, ok := leanTy(t.Elem())
		return "(slice " + e + ")", ok
	case reflect.Map:
		k, ok1 := leanTy(t.Key())
		v, ok2 := leanTy(t.Elem())
		return "(map " + k + " " + v + ")", ok1 && ok2
	}
	return "", false
}

func leanTV(v reflect.Value) (string, bool) {
	if !v.IsValid() {
		return "nil", true
	}
	if v.Kind() == reflect.Interface {
		if v.IsNil() {
			return "nil", true
		}
		v = v.Elem()
	}
	switch v.Kind() {
	case reflect.Int64, reflect.Int32, reflect.Int8:
		t, ok := leanTy(v.Type())
		return fmt.Sprintf("(int %s %d)", t, v.Int()), ok
	case reflect.Uint8:
		return fmt.Sprintf("(int uint8 %d)", v.Uint()), true
	case reflect.String:
		s := v.String()
		for i := 0; i < len(s); i++ {
			if s[i] >= 0x80 {
				return "", false
			}
		}
		if s == "" {
			return "(str)", true
		}
		return "(str " + hexOf(s) + ")", true
	case reflect.Bool:
		if v.Bool() {
			return "(bool 1)", true
		}
		return "(bool 0)", true
	case reflect.Slice:
		t, ok := leanTy(v.Type().Elem())
		parts := []string{"slice", t}
		for i := 0; i < v.Len(); i++ {
			e, ok2 := leanTV(v.Index(i))
			ok = ok && ok2
			parts = append(parts, e)
		}
		return "(" + strings.Join(parts, " ") + ")", ok
	case reflect.Map:
		k, ok1 := leanTy(v.Type().Key())
		e, ok2 := leanTy(v.Type().Elem())
		ok := ok1 && ok2
		parts := []string{"map", k, e}
		it := v.MapRange()
		for it.Next() {
			a, oka := leanTV(it.Key())
			b, okb := leanTV(it.Value())
			ok = ok && oka && okb
			parts = append(parts, "("+a+" "+b+")")
		}
		return "(" + strings.Join(parts, " ") + ")", ok
	}
	return "", false
}

// ---- Go side types with methods

type GoRec struct {
	A int64
	B string
	C []int64
	n int64
}

func (r GoRec) Get() int64            { return r.A }
func (r GoRec) Pair() (int64, string) { return r.A, r.B }
func (r *GoRec) Set(v int64)          { r.A = v }
func (r *GoRec) Add(vs ...int64) int64 {
	s := r.A
	for _, v := range vs {
		s += v
	}
	return s
}
func (r GoRec) Nothing() {}

// structs that embed another struct by value / by pointer: the embedded struct's exported fields and methods are promoted
type GoEmb struct {
	GoRec
	Extra int64
}

type GoEmbP struct {
	*GoRec
	Tag string
}

// named non-struct types with value- and pointer-receiver methods
type GoStack []int64

func (s GoStack) Len() int64    { return int64(len(s)) }
func (s *GoStack) Push(v int64) { *s = append(*s, v) }

type GoNum int64

func (n GoNum) Double() int64 { return int64(n) * 2 }
func (n *GoNum) Inc()         { *n++ }

type GoDict map[string]int64

func (d GoDict) Size() int64            { return int64(len(d)) }
func (d *GoDict) Put(k string, v int64) { (*d)[k] = v }

type GoText string

func (t GoText) Upper() string    { return strings.ToUpper(string(t)) }
func (t *GoText) Append(s string) { *t += GoText(s) }

type goInner struct{ ID, Rev int64 }
type goOuter struct{ goInner }

func (o goOuter) ID() string { return fmt.Sprintf("outer-%d", o.goInner.ID) }

type goOuterP struct{ goInner }

func (o *goOuterP) Rev(n int64) (int64, error) { o.goInner.Rev += n; return o.goInner.Rev, nil }

type goShip struct {
	Name string
	Fuel int64
}

func (s *goShip) Refuel(n int64) { s.Fuel += n }

type goFleet struct {
	Ships []goShip
	Docks [2]goShip
}

type goNamedMap map[string]string
type goNamedSlice []int64
type goCelsius float64
type goMapper func(string) string
type goPoint struct{ X, Y int64 }
type goHolder struct{ P *int64 }

// scriptValues: source text of script-side argument values
var goconvValues = []string{
	"nil", "true", "false", "0", "1", "-1", "127", "128", "300", "65", "233", "2147483648", "-9223372036854775807", "1.5", "-2.0", "1e10",
	`""`, `"a"`, `"ab"`, `"7"`, `"é"`, `"€"`, `"日本"`, `["a", "é"]`, `["€"]`, `{"a": "é"}`, "[]", "[1, 2]", "[1, 300, -1]", `["a", "b"]`, `[1, "a"]`, "[nil, 1]", "[[1], [2, 3]]", "[1.5, 2]", "[true]",
	"{}", `{"a": 1}`, `{"a": 1, "b": 300}`, `{"a": "x"}`, `{1: 2}`, `{"a": nil}`, `{"a": [1]}`,
	"func(x) { return x }",
}

var goconvTypes = []reflect.Type{
	reflect.TypeOf(int64(0)), reflect.TypeOf(int32(0)), reflect.TypeOf(int8(0)), reflect.TypeOf(uint8(0)), reflect.TypeOf(int(0)), reflect.TypeOf(uint16(0)),
	reflect.TypeOf(float64(0)), reflect.TypeOf(float32(0)), reflect.TypeOf(""), reflect.TypeOf(true), ifaceT,
	reflect.TypeOf([]int64{}), reflect.TypeOf([]int8{}), reflect.TypeOf([]string{}), reflect.TypeOf([]interface{}{}), reflect.TypeOf([]byte{}), reflect.TypeOf([]rune{}), reflect.TypeOf(map[string]byte{}), reflect.TypeOf([]bool{}),
	reflect.TypeOf([][]int64{}), reflect.TypeOf([]float64{}),
	reflect.TypeOf(map[string]int64{}), reflect.TypeOf(map[string]interface{}{}), reflect.TypeOf(map[interface{}]interface{}{}), reflect.TypeOf(map[string]int8{}),
	reflect.TypeOf(map[int64]int64{}), reflect.TypeOf(map[string][]int64{}),
}

func streamGoConv(o *Out, r *rand.Rand, n int, thorough bool) {
	o.Sum.Rule = "(1) every script value of a pool (nil, booleans, integers incl. out-of-range for the target, floats, strings, homogeneous / mixed / nested lists, maps) passed to a Go " +
		"parameter of every type of a pool (sized ints, floats, string, bool, interface{}, typed slices incl. nested and []byte, typed maps): what the Go function receives (dynamic type + " +
		"value) or the error, against Go's own conversion (reflect) and, inside its universe, the Lean conversion model; (2) call shapes: fixed / variadic Go functions x plain / spread calls " +
		"x 0-5 arguments x 0-3 results; (3) methods by member syntax (value and pointer receivers, variadic), field read / write through a pointer; (4) callbacks of func types; " +
		"(5) identity of Go values through Define/Get, containers and a Go identity function"
	// the value of each script-side source, as the interpreter builds it
	vals := make([]reflect.Value, len(goconvValues))
	for i, src := range goconvValues {
		v, err := vm.Execute(env.NewEnv(), nil, src)
		if err != nil {
			o.Fail(Failure{Oracle: "goconv-template", Key: "goconv-value-source", Input: src, Detail: err.Error()})
			return
		}
		vals[i] = reflect.ValueOf(v)
	}
	// (1) value x parameter type
	for vi, src := range goconvValues {
		for _, t := range goconvTypes {
			var got []reflect.Value
			fn := reflect.MakeFunc(reflect.FuncOf([]reflect.Type{t}, nil, false), func(args []reflect.Value) []reflect.Value {
				got = append(got, args...)
				return nil
			})
			e := env.NewEnv()
			_ = e.DefineValue("f", fn)
			script := "f(" + src + ")"
			_, err, p := execGuard(e, script)
			o.Sum.Evaluations++
			o.Sum.Hist["param:"+tyName(t)]++
			if p != nil {
				o.Fail(Failure{Oracle: "no-panic", Key: "goconv-panic:param", Input: script + " with f : func(" + t.String() + ")", Detail: fmt.Sprint(p)})
				continue
			}
			if strings.HasPrefix(src, "func") {
				continue // script functions to non-func parameters: error or adapter, covered in (4)
			}
			want, ok := refConvert(vals[vi], t)
			implLine := "err"
			if err == nil && len(got) == 1 {
				implLine = "ok " + renderTyped(got[0])
			}
			wantLine := "err"
			if ok {
				wantLine = "ok " + renderTyped(want)
			}
			if implLine != wantLine {
				o.Fail(Failure{Oracle: "go-conversion", Key: "goconv-param:" + tyName(t), Input: script + " with f : func(" + t.String() + ")",
					Detail: fmt.Sprintf("Go's conversion gives %s; the function received %s (call error: %v)", wantLine, implLine, err)})
			}
			if err == nil && len(got) == 1 && got[0].Type() != t {
				o.Fail(Failure{Oracle: "go-conversion", Key: "goconv-param-type:" + tyName(t), Input: script, Detail: fmt.Sprintf("parameter of type %s received a %s", t, got[0].Type())})
			}
			// the model, inside its universe
			lt, ok1 := leanTy(t)
			lv, ok2 := leanTV(vals[vi])
			if ok1 && ok2 {
				o.Case("(conv "+lv+" "+lt+")", implLine, script+" : "+t.String(), true)
			}
		}
	}
	// (2) call shapes
	canned := map[reflect.Type]reflect.Value{
		reflect.TypeOf(int64(0)): reflect.ValueOf(int64(7)), reflect.TypeOf(""): reflect.ValueOf("r"), ifaceT: reflect.ValueOf([]interface{}{int64(1)}),
		reflect.TypeOf([]int64{}): reflect.ValueOf([]int64{4, 5}), reflect.TypeOf(true): reflect.ValueOf(true), reflect.TypeOf(float64(0)): reflect.ValueOf(2.5),
	}
	ptypes := []reflect.Type{reflect.TypeOf(int64(0)), reflect.TypeOf(""), ifaceT, reflect.TypeOf(float64(0)), reflect.TypeOf([]int64{})}
	rtypes := []reflect.Type{reflect.TypeOf(int64(0)), reflect.TypeOf(""), ifaceT, reflect.TypeOf([]int64{}), reflect.TypeOf(true)}
	argSrc := map[reflect.Type][]string{
		reflect.TypeOf(int64(0)): {"1", "42", "-3"}, reflect.TypeOf(""): {`"s"`, `"tt"`}, ifaceT: {"nil", "1", `"x"`, "[1]"},
		reflect.TypeOf(float64(0)): {"1.5", "2"}, reflect.TypeOf([]int64{}): {"[1, 2]", "[]"},
	}
	for it := 0; it < n; it++ {
		nin := r.Intn(5)
		variadic := r.Intn(2) == 0
		var in []reflect.Type
		for i := 0; i < nin; i++ {
			in = append(in, ptypes[r.Intn(len(ptypes))])
		}
		var tailT reflect.Type
		if variadic {
			tailT = ptypes[r.Intn(3)]
			in = append(in, reflect.SliceOf(tailT))
		}
		nout := r.Intn(4)
		var out []reflect.Type
		for i := 0; i < nout; i++ {
			out = append(out, rtypes[r.Intn(len(rtypes))])
		}
		var got []reflect.Value
		calls := 0
		// some results are the zero value of their type (nil slices stay typed nils)
		zeroRes := make([]bool, len(out))
		for i := range zeroRes {
			zeroRes[i] = r.Intn(3) == 0
		}
		resultOf := func(i int) reflect.Value {
			t := out[i]
			if zeroRes[i] {
				return reflect.Zero(t)
			}
			if t == ifaceT {
				return canned[t].Convert(ifaceT)
			}
			return canned[t]
		}
		started := make(chan struct{}, 8)
		fn := reflect.MakeFunc(reflect.FuncOf(in, out, variadic), func(args []reflect.Value) []reflect.Value {
			calls++
			got = append([]reflect.Value{}, args...)
			res := make([]reflect.Value, len(out))
			for i := range out {
				res[i] = resultOf(i)
			}
			started <- struct{}{}
			return res
		})
		// arguments: the right number, or one more / one less
		nargs := nin
		if variadic {
			nargs += r.Intn(4)
		}
		switch r.Intn(8) {
		case 0:
			nargs++
		case 1:
			if nargs > 0 {
				nargs--
			}
		}
		var args []string
		var argTypes []reflect.Type
		for i := 0; i < nargs; i++ {
			var t reflect.Type
			switch {
			case i < nin:
				t = in[i]
			case variadic:
				t = tailT
			default:
				t = ifaceT
			}
			cands := argSrc[t]
			args = append(args, cands[r.Intn(len(cands))])
			argTypes = append(argTypes, t)
		}
		spread := r.Intn(3) == 0 && nargs > 0 && (nargs == nin || (variadic && nargs >= nin)) && nin+len(in) > 0
		script := "f(" + strings.Join(args, ", ") + ")"
		if spread {
			// the list of a spread call supplies the variadic tail (variadic function: exactly the tail, as in Go)
			// or the remaining parameters (function of fixed arity: exactly as many elements as parameters are left)
			k := nargs - nin
			if !variadic {
				k = 1 + r.Intn(nargs)
			}
			script = "f(" + strings.Join(append(append([]string{}, args[:nargs-k]...), "["+strings.Join(args[nargs-k:], ", ")+"]..."), ", ") + ")"
			switch r.Intn(4) {
			case 0:
				// the spread list read from a list element (a value still wrapped in an interface) ...
				script = "rows9 = [[" + strings.Join(args[nargs-k:], ", ") + "]]\nf(" + strings.Join(append(append([]string{}, args[:nargs-k]...), "rows9[0]..."), ", ") + ")"
			case 1:
				// ... or from a map entry
				script = "cfg9 = {\"xs\": [" + strings.Join(args[nargs-k:], ", ") + "]}\nf(" + strings.Join(append(append([]string{}, args[:nargs-k]...), "cfg9.xs..."), ", ") + ")"
			}
		}
		if nin == 0 && !variadic {
			continue // functions without parameters ignore their arguments (short circuit pinned by the vm tests)
		}
		// every fourth well-formed call is started with `go`: the same arguments must arrive (the call then has no result)
		goMode := (nargs == nin || (variadic && nargs >= nin)) && r.Intn(4) == 0
		if goMode {
			if nl := strings.LastIndex(script, "\n"); nl >= 0 {
				script = script[:nl+1] + "go " + script[nl+1:]
			} else {
				script = "go " + script
			}
		}
		e := env.NewEnv()
		_ = e.DefineValue("f", fn)
		res, err, p := execGuard(e, script)
		if goMode && p == nil && err == nil {
			select {
			case <-started:
			case <-time.After(3 * time.Second):
				o.Sum.Evaluations++
				o.Fail(Failure{Oracle: "exact-arguments", Key: "goconv-go-call-never-ran", Input: fmt.Sprintf("%s with f : %s", script, fn.Type()), Detail: "the Go function started with go was not called within 3 s"})
				continue
			}
		}
		o.Sum.Evaluations++
		shape := fmt.Sprintf("shape:variadic=%v,spread=%v,go=%v", variadic, spread, goMode)
		o.Sum.Hist[shape]++
		sig := fmt.Sprintf("%s with f : %s", script, fn.Type())
		if p != nil {
			o.Fail(Failure{Oracle: "no-panic", Key: "goconv-panic:call", Input: sig, Detail: fmt.Sprint(p)})
			continue
		}
		countOK := nargs == nin || (variadic && nargs >= nin)
		if !countOK {
			if err == nil || calls != 0 {
				o.Fail(Failure{Oracle: "exact-arguments", Key: "goconv-argcount", Input: sig, Detail: fmt.Sprintf("%d arguments for this signature must be an error without a call (err %v, calls %d)", nargs, err, calls)})
			}
			continue
		}
		if err != nil {
			o.Fail(Failure{Oracle: "exact-arguments", Key: "goconv-call-error", Input: sig, Detail: err.Error()})
			continue
		}
		if calls != 1 {
			o.Fail(Failure{Oracle: "exact-arguments", Key: "goconv-call-count", Input: sig, Detail: fmt.Sprintf("the Go function ran %d times", calls)})
			continue
		}
		// expected arrival: each supplied argument converted to its parameter type, the variadic ones gathered in the tail slice
		var wantArgs []string
		for i := 0; i < nin; i++ {
			v, _ := vm.Execute(env.NewEnv(), nil, args[i])
			c, _ := refConvert(reflect.ValueOf(v), in[i])
			wantArgs = append(wantArgs, renderTyped(c))
		}
		if variadic {
			tail := reflect.MakeSlice(reflect.SliceOf(tailT), 0, 0)
			for i := nin; i < nargs; i++ {
				v, _ := vm.Execute(env.NewEnv(), nil, args[i])
				c, _ := refConvert(reflect.ValueOf(v), tailT)
				tail = reflect.Append(tail, c)
			}
			wantArgs = append(wantArgs, renderTyped(tail))
		}
		var gotArgs []string
		for _, g := range got {
			gotArgs = append(gotArgs, renderTyped(g))
		}
		if strings.Join(gotArgs, " , ") != strings.Join(wantArgs, " , ") {
			o.Fail(Failure{Oracle: "exact-arguments", Key: "goconv-args:" + shape, Input: sig, Detail: fmt.Sprintf("supplied arguments arrive as %v, the Go function received %v", wantArgs, gotArgs)})
		}
		if goMode {
			continue // a go statement has no result
		}
		// results: none -> nil, one -> the value, several -> a list
		var wantRes string
		switch len(out) {
		case 0:
			wantRes = "nil"
		case 1:
			wantRes = renderTyped(resultOf(0))
		default:
			xs := make([]string, len(out))
			for i := range out {
				xs[i] = renderTyped(resultOf(i))
			}
			wantRes = "[]iface[" + strings.Join(xs, " ") + "]"
		}
		// every result keeps its dynamic type, nil slices included
		if lst, ok := res.([]interface{}); ok && len(out) >= 2 && len(lst) == len(out) {
			for i, t := range out {
				if t.Kind() != reflect.Interface && reflect.TypeOf(lst[i]) != t {
					o.Fail(Failure{Oracle: "all-results-return", Key: "goconv-result-type", Input: sig, Detail: fmt.Sprintf("result %d of declared type %s reached the script as %T", i, t, lst[i])})
				}
			}
		} else if len(out) == 1 && out[0].Kind() != reflect.Interface && reflect.TypeOf(res) != out[0] {
			o.Fail(Failure{Oracle: "all-results-return", Key: "goconv-result-type", Input: sig, Detail: fmt.Sprintf("the result of declared type %s reached the script as %T", out[0], res)})
		}
		if gotRes := renderTyped(reflect.ValueOf(res)); gotRes != wantRes {
			o.Fail(Failure{Oracle: "all-results-return", Key: fmt.Sprintf("goconv-results:%d", len(out)), Input: sig, Detail: fmt.Sprintf("the function returned %s, the script received %s", wantRes, gotRes)})
		}
	}
	// (3) methods and fields
	type mcase struct{ name, src, want string }
	mcases := []mcase{
		{"value-method", "r.Get()", "int64:5"},
		{"value-method-on-pointer", "p.Get()", "int64:5"},
		{"multi-result-method", "r.Pair()", "[]iface[int64:5 string:" + hexOf("b") + "]"},
		{"pointer-method-on-pointer", "p.Set(9)\np.Get()", "int64:9"},
		{"pointer-method-on-value-copy", "r.Set(9)\nr.Get()", "int64:5"},
		{"variadic-method", "p.Add(1, 2, 3)", "int64:11"},
		{"variadic-method-spread", "p.Add([1, 2]...)", "int64:8"},
		{"variadic-method-none", "p.Add()", "int64:5"},
		{"no-result-method", "r.Nothing()", "nil"},
		{"field-read", "r.A", "int64:5"},
		{"field-read-pointer", "p.B", "string:" + hexOf("b")},
		{"field-read-slice", "p.C", "[]int64[int64:1 int64:2]"},
		{"field-write-through-pointer", "p.A = 8\np.A", "int64:8"},
		{"field-write-converts", "p.A = 2.0\np.A", "int64:2"},
		{"field-write-bad-type", "p.A = \"x\"", "ERROR"},
		{"field-write-on-value", "r.A = 8", "ERROR"},
		{"unknown-member", "r.Nope", "ERROR"},
		{"unexported-field", "r.n", "ERROR"},
		{"method-wrong-argcount", "p.Set()", "ERROR"},
		{"method-too-many-args", "p.Set(1, 2)", "ERROR"},
		// Go's method sets on named non-struct types: T has the value-receiver methods, *T has all of them
		{"named-slice-value-method", "st.Len()", "int64:2"},
		{"named-slice-value-method-on-pointer", "pst.Len()", "int64:2"},
		{"named-slice-pointer-method", "pst.Push(4)\npst.Len()", "int64:3"},
		{"named-int-value-method", "nu.Double()", "int64:42"},
		{"named-int-value-method-on-pointer", "pnu.Double()", "int64:42"},
		{"named-int-pointer-method", "pnu.Inc()\npnu.Double()", "int64:44"},
		{"named-map-value-method", "di.Size()", "int64:1"},
		{"named-map-pointer-method", "pdi.Put(\"z\", 2)\npdi.Size()", "int64:2"},
		{"named-string-value-method", "tx.Upper()", "string:" + hexOf("AB")},
		{"named-string-pointer-method", "ptx.Append(\"c\")\nptx.Upper()", "string:" + hexOf("ABC")},
		{"promoted-field-read", "em.A", "int64:5"},
		{"promoted-field-read-pointer", "pem.B", "string:" + hexOf("b")},
		{"promoted-field-own", "[em.Extra, pem.Extra]", "[]iface[int64:3 int64:3]"},
		{"promoted-field-explicit-path", "em.GoRec.A", "int64:5"},
		{"promoted-field-write-read", "pem.A = 42\npem.A", "int64:42"},
		{"promoted-field-via-embedded-pointer", "emp.A", "int64:5"},
		{"promoted-field-via-embedded-pointer-p", "pemp.C", "[]int64[int64:1 int64:2]"},
		{"promoted-field-via-embedded-pointer-write", "pemp.A = 6\n[pemp.A, emp.Tag]", "[]iface[int64:6 string:" + hexOf("t") + "]"},
		{"promoted-method", "em.Get()", "int64:5"},
		{"promoted-pointer-method", "pem.Set(9)\npem.Get()", "int64:9"},
		{"promoted-unexported", "em.n", "ERROR"},
		{"pointer-method-via-variable", "q = pst\nq.Push(1)\nq.Push(2)\npst.Len()", "int64:4"},
		{"pointer-method-via-element", "l = [pnu]\nl[0].Inc()\npnu.Double()", "int64:44"},
	}
	for _, c := range mcases {
		rec := GoRec{A: 5, B: "b", C: []int64{1, 2}}
		ptr := &GoRec{A: 5, B: "b", C: []int64{1, 2}}
		e := env.NewEnv()
		_ = e.Define("r", rec)
		_ = e.Define("p", ptr)
		pst, pnu, pdi, ptx := &GoStack{1, 2}, new(GoNum), &GoDict{"a": 1}, new(GoText)
		*pnu, *ptx = 21, "ab"
		_ = e.Define("em", GoEmb{GoRec: GoRec{A: 5, B: "b", C: []int64{1, 2}}, Extra: 3})
		_ = e.Define("pem", &GoEmb{GoRec: GoRec{A: 5, B: "b", C: []int64{1, 2}}, Extra: 3})
		_ = e.Define("emp", GoEmbP{GoRec: &GoRec{A: 5, B: "b", C: []int64{1, 2}}, Tag: "t"})
		_ = e.Define("pemp", &GoEmbP{GoRec: &GoRec{A: 5, B: "b", C: []int64{1, 2}}, Tag: "t"})
		_ = e.Define("st", GoStack{1, 2})
		_ = e.Define("pst", pst)
		_ = e.Define("nu", GoNum(21))
		_ = e.Define("pnu", pnu)
		_ = e.Define("di", GoDict{"a": 1})
		_ = e.Define("pdi", pdi)
		_ = e.Define("tx", GoText("ab"))
		_ = e.Define("ptx", ptx)
		res, err, p := execGuard(e, c.src)
		o.Sum.Evaluations++
		o.Sum.Hist["member"]++
		got := "ERROR"
		if err == nil {
			got = renderTyped(reflect.ValueOf(res))
		}
		if p != nil {
			o.Fail(Failure{Oracle: "no-panic", Key: "goconv-panic:member", Input: c.src, Detail: fmt.Sprint(p)})
		} else if got != c.want {
			o.Fail(Failure{Oracle: "go-members", Key: "goconv-member:" + c.name, Input: c.src, Detail: fmt.Sprintf("expected %s, got %s (err %v)", c.want, got, err)})
		}
		if c.name == "field-write-through-pointer" && ptr.A != 8 {
			o.Fail(Failure{Oracle: "go-members", Key: "goconv-member:" + c.name + ":host", Input: c.src, Detail: fmt.Sprintf("the Go struct holds A=%d after p.A = 8", ptr.A)})
		}
		if c.name == "named-slice-pointer-method" && len(*pst) != 3 || c.name == "named-int-pointer-method" && *pnu != 22 || c.name == "named-string-pointer-method" && *ptx != "abc" {
			o.Fail(Failure{Oracle: "go-members", Key: "goconv-member:" + c.name + ":host", Input: c.src, Detail: "the pointer-receiver method did not act on the host's value"})
		}
		if c.name == "pointer-method-on-value-copy" && rec.A != 5 {
			o.Fail(Failure{Oracle: "go-members", Key: "goconv-member:" + c.name + ":host", Input: c.src, Detail: "the host's struct value changed"})
		}
	}
	// (4) callbacks
	type cbcase struct {
		name string
		fn   interface{}
		src  string
		want string
	}
	cbs := []cbcase{
		{"args-and-result", func(f func(int64, string) int64) int64 { return f(4, "zz") + 1 }, "cb(func(a, b) { return a * 10 + len(b) })", "int64:43"},
		{"result-converted", func(f func(int64) string) string { return f(65) }, "cb(func(a) { return a })", "string:" + hexOf("A")},
		{"result-float-to-int", func(f func() int64) int64 { return f() }, "cb(func() { return 2.0 })", "int64:2"},
		{"no-result-wanted", func(f func(int64)) int64 { f(1); return 3 }, "cb(func(a) { return a })", "int64:3"},
		{"two-results", func(f func() (int64, string)) string { a, b := f(); return fmt.Sprintf("%d|%s", a, b) }, "cb(func() { return 1, \"x\" })", "string:" + hexOf("1|x")},
		{"two-results-from-element", func(f func() (int64, string)) string { a, b := f(); return fmt.Sprintf("%d|%s", a, b) }, "p = [[1, \"x\"]]\ncb(func() { return p[0] })", "string:" + hexOf("1|x")},
		{"two-results-from-variable", func(f func() (int64, string)) string { a, b := f(); return fmt.Sprintf("%d|%s", a, b) }, "q = [1, \"x\"]\ncb(func() { return q })", "string:" + hexOf("1|x")},
		{"two-results-from-go-identity", func(f func() (int64, string)) string { a, b := f(); return fmt.Sprintf("%d|%s", a, b) }, "cb(func() { return id([1, \"x\"]) })", "string:" + hexOf("1|x")},
		{"two-results-from-map-entry", func(f func() (int64, string)) string { a, b := f(); return fmt.Sprintf("%d|%s", a, b) }, "m = {\"k\": [1, \"x\"]}\ncb(func() { return m.k })", "string:" + hexOf("1|x")},
		{"one-result-from-element", func(f func() int64) int64 { return f() }, "p = [4]\ncb(func() { return p[0] })", "int64:4"},
		{"error-inside", func(f func() int64) int64 { return f() }, "cb(func() { throw \"inner\" })", "ERROR"},
		{"result-not-convertible", func(f func() int64) int64 { return f() }, "cb(func() { return [1] })", "ERROR"},
		{"too-few-results", func(f func() (int64, string)) int64 { a, _ := f(); return a }, "cb(func() { return 1 })", "ERROR"},
		{"slice-arg", func(f func([]int64) int64) int64 { return f([]int64{1, 2, 3}) }, "cb(func(xs) { return len(xs) + xs[2] })", "int64:6"},
		{"called-twice", func(f func(int64) int64) int64 { return f(1) + f(10) }, "cb(func(a) { return a + 1 })", "int64:13"},
	}
	for _, c := range cbs {
		e := env.NewEnv()
		_ = e.Define("cb", c.fn)
		_ = e.Define("id", func(a interface{}) interface{} { return a })
		res, err, p := execGuard(e, c.src)
		o.Sum.Evaluations++
		o.Sum.Hist["callback"]++
		got := "ERROR"
		if err == nil {
			got = renderTyped(reflect.ValueOf(res))
		}
		if p != nil {
			o.Fail(Failure{Oracle: "no-panic", Key: "goconv-panic:callback", Input: c.src, Detail: fmt.Sprint(p)})
		} else if got != c.want {
			o.Fail(Failure{Oracle: "go-callbacks", Key: "goconv-callback:" + c.name, Input: c.src, Detail: fmt.Sprintf("expected %s, got %s (err %v)", c.want, got, err)})
		}
	}
	// (4b) an error inside a callback surfaces as an error of the enclosing call - for every result arity of the func
	// type, every way of failing, whichever invocation fails; and the Go function's own work before it stays done
	type cbShape struct {
		name string
		mk   func(calls *int) interface{}
	}
	shapes := []cbShape{
		{"func(int64)", func(calls *int) interface{} {
			return func(f func(int64)) int64 {
				*calls++
				f(1)
				*calls++
				f(2)
				*calls++
				return 3
			}
		}},
		{"func(int64) int64", func(calls *int) interface{} {
			return func(f func(int64) int64) int64 {
				*calls++
				a := f(1)
				*calls++
				b := f(2)
				*calls++
				return a + b
			}
		}},
		{"func(int64) (int64, string)", func(calls *int) interface{} {
			return func(f func(int64) (int64, string)) int64 {
				*calls++
				a, _ := f(1)
				*calls++
				b, _ := f(2)
				*calls++
				return a + b
			}
		}},
		{"func(...int64)", func(calls *int) interface{} {
			return func(f func(...int64)) int64 {
				*calls++
				f(1)
				*calls++
				f(2, 3)
				*calls++
				return 3
			}
		}},
		{"func(interface{})", func(calls *int) interface{} {
			return func(f func(interface{})) int64 {
				*calls++
				f(int64(1))
				*calls++
				f(int64(2))
				*calls++
				return 3
			}
		}},
	}
	fails := []struct{ name, stmt string }{
		{"throw", "throw \"inner\""}, {"runtime-error", "undefinedName + 1"}, {"go-error", "boom()"}, {"bad-index", "[1][5]"},
		{"none", ""},
	}
	for _, sh := range shapes {
		for _, fl := range fails {
			for when := 1; when <= 2; when++ {
				calls := 0
				e := env.NewEnv()
				_ = e.Define("cb", sh.mk(&calls))
				_ = e.Define("boom", func() error { return fmt.Errorf("boom") })
				ret := "return a, \"s\""
				if !strings.Contains(sh.name, "string") {
					ret = "return 1"
				}
				param := "a"
				if strings.Contains(sh.name, "...") {
					param = "a..."
				}
				body := ret
				if fl.stmt != "" {
					body = fmt.Sprintf("n++\nif n == %d { %s }\n%s", when, fl.stmt, ret)
				}
				src := fmt.Sprintf("n = 0\nr = cb(func(%s) {\n%s\n})\n\"completed\"", param, body)
				if fl.name == "go-error" {
					// a Go function returning a non-nil error makes the call fail
					src = strings.Replace(src, "boom()", "x = boom()\nif x != nil { throw x }", 1)
				}
				res, err, p := execGuard(e, src)
				o.Sum.Evaluations++
				o.Sum.Hist["callback-error:"+fl.name]++
				in := src + "   with cb : func(f " + sh.name + ") int64 calling f twice"
				switch {
				case p != nil:
					o.Fail(Failure{Oracle: "no-panic", Key: "goconv-panic:callback", Input: in, Detail: fmt.Sprint(p)})
				case fl.stmt == "":
					if err != nil || res != "completed" || calls != 3 {
						o.Fail(Failure{Oracle: "go-callbacks", Key: "goconv-callback-ok:" + sh.name, Input: in, Detail: fmt.Sprintf("result %v, error %v, Go function progress %d/3", res, err, calls)})
					}
				case err == nil:
					o.Fail(Failure{Oracle: "go-callbacks", Key: "goconv-callback-error-lost:" + sh.name, Input: in,
						Detail: fmt.Sprintf("invocation %d of the callback fails (%s) but the enclosing call returned normally: script result %v", when, fl.name, res)})
				case calls != when:
					o.Fail(Failure{Oracle: "go-callbacks", Key: "goconv-callback-error-late:" + sh.name, Input: in,
						Detail: fmt.Sprintf("invocation %d of the callback fails but the Go function went on (progress marker %d)", when, calls)})
				}
			}
		}
	}
	// (4b') the same converted callback invoked by Go from several goroutines at once: every invocation sees the arguments
	// of ITS call and its result goes back to ITS caller
	{
		e := env.NewEnv()
		var wrong int64
		var first atomic.Value
		_ = e.Define("fanout", func(workers, rounds int64, cb func(int64, string) string) int64 {
			var wg sync.WaitGroup
			for w := int64(0); w < workers; w++ {
				wg.Add(1)
				go func(w int64) {
					defer wg.Done()
					tag := fmt.Sprintf("w%d", w)
					for i := int64(0); i < rounds; i++ {
						n := w*1000000 + i
						want := fmt.Sprintf("%s:%d", tag, n)
						if got := cb(n, tag); got != want {
							if atomic.AddInt64(&wrong, 1) == 1 {
								first.Store(fmt.Sprintf("cb(%d, %q) returned %q", n, tag, got))
							}
						}
					}
				}(w)
			}
			wg.Wait()
			return workers * rounds
		})
		src := "fanout(8, 4000, func(n, s) { return s + \":\" + n })"
		res, err, p := execGuard(e, src)
		o.Sum.Evaluations++
		o.Sum.Hist["callback-concurrent"]++
		in := src + "   with fanout : func(workers, rounds int64, cb func(int64, string) string) calling cb(w*1000000+i, \"w<w>\") from `workers` goroutines"
		switch {
		case p != nil:
			o.Fail(Failure{Oracle: "no-panic", Key: "goconv-panic:callback", Input: in, Detail: fmt.Sprint(p)})
		case err != nil || res != int64(32000):
			o.Fail(Failure{Oracle: "go-callbacks", Key: "goconv-callback-concurrent", Input: in, Detail: fmt.Sprintf("result %v, error %v", res, err)})
		case atomic.LoadInt64(&wrong) != 0:
			o.Fail(Failure{Oracle: "go-callbacks", Key: "goconv-callback-concurrent", Input: in,
				Detail: fmt.Sprintf("%d of 32000 invocations saw another call's arguments or result; the first: %v", atomic.LoadInt64(&wrong), first.Load())})
		}
	}
	// (4b'') member syntax on Go values follows Go: a method of the outer struct wins over an equally named field promoted
	// from an embedded struct; an element of a slice / array of structs held BY VALUE is the element itself - a field
	// write, a pointer-receiver call, & and a nested element write on top of `xs[i]` reach the Go value
	{
		u := goOuter{goInner{ID: 7, Rev: 1}}
		acc := &goOuterP{goInner{ID: 3, Rev: 5}}
		fl := &goFleet{Ships: []goShip{{"a", 1}, {"b", 2}}, Docks: [2]goShip{{"d0", 0}, {"d1", 0}}}
		e := env.NewEnv()
		_ = e.Define("u", u)
		_ = e.Define("acc", acc)
		_ = e.Define("f", fl)
		_ = e.Define("rename", func(s *goShip, n string) { s.Name = n })
		_ = e.Define("isFirstShip", func(s *goShip) bool { return s == &fl.Ships[0] })
		for _, c := range []struct {
			src   string
			check func(res interface{}, err error) string
		}{
			{"u.ID()", func(res interface{}, err error) string {
				if err != nil || res != "outer-7" {
					return fmt.Sprintf("Go calls the method ID of the outer struct (\"outer-7\"); got %v, err %v", res, err)
				}
				return ""
			}},
			{"acc.Rev(5)", func(res interface{}, err error) string {
				if err != nil || !reflect.DeepEqual(res, []interface{}{int64(10), nil}) && !reflect.DeepEqual(res, []interface{}{int64(10), error(nil)}) {
					return fmt.Sprintf("Go calls the pointer-receiver method Rev of the outer struct; got %#v, err %v", res, err)
				}
				return ""
			}},
			{"u.goInner.ID", func(res interface{}, err error) string { return "" }},
			{"f.Ships[1].Fuel = 50", func(res interface{}, err error) string {
				if err != nil || fl.Ships[1].Fuel != 50 {
					return fmt.Sprintf("the field write did not reach the Go value: %+v, err %v", fl.Ships, err)
				}
				return ""
			}},
			{"f.Ships[0].Refuel(10)", func(res interface{}, err error) string {
				if err != nil || fl.Ships[0].Fuel != 11 {
					return fmt.Sprintf("the pointer-receiver call did not reach the Go value: %+v, err %v", fl.Ships, err)
				}
				return ""
			}},
			{"f.Docks[1].Name = \"dock\"", func(res interface{}, err error) string {
				if err != nil || fl.Docks[1].Name != "dock" {
					return fmt.Sprintf("the write into the array element did not reach the Go value: %+v, err %v", fl.Docks, err)
				}
				return ""
			}},
			{"rename(&f.Ships[1], \"renamed\")", func(res interface{}, err error) string {
				if err != nil || fl.Ships[1].Name != "renamed" {
					return fmt.Sprintf("Go received a pointer to a copy of the element: %+v, err %v", fl.Ships, err)
				}
				return ""
			}},
			{"isFirstShip(&f.Ships[0])", func(res interface{}, err error) string {
				if err != nil || res != true {
					return fmt.Sprintf("&f.Ships[0] is not the address of the element: %v, err %v", res, err)
				}
				return ""
			}},
		} {
			res, err, p := execGuard(e, c.src)
			o.Sum.Evaluations++
			o.Sum.Hist["member-on-go-value"]++
			if p != nil {
				o.Fail(Failure{Oracle: "no-panic", Key: "goconv-panic:member-forms", Input: c.src, Detail: fmt.Sprint(p)})
			} else if msg := c.check(res, err); msg != "" {
				o.Fail(Failure{Oracle: "go-members", Key: "goconv-member:" + c.src, Input: c.src + "   (u: struct embedding a struct with field ID and declaring method ID; f: *struct{Ships []struct; Docks [2]struct})", Detail: msg})
			}
		}
	}
	// (4c) a Go value handed to a parameter of another named type with the same underlying type arrives as Go's own
	// conversion delivers it (same storage: maps, slices, pointers; same nil-ness; functions callable), and there is no
	// conversion between T and *T: such calls fail
	{
		m := map[string]string{"a": "1"}
		sl := []int64{1, 2, 3}
		fl := 1.5
		pt := goPoint{1, 2}
		pp := &goPoint{3, 4}
		x5 := int64(5)
		np := new(int64)
		h := &goHolder{}
		e := env.NewEnv()
		_ = e.Define("m", m)
		_ = e.Define("nm", map[string]string(nil))
		_ = e.Define("sl", sl)
		_ = e.Define("nsl", []int64(nil))
		_ = e.Define("fp", &fl)
		_ = e.Define("up", func(s string) string { return strings.ToUpper(s) })
		_ = e.Define("pt", pt)
		_ = e.Define("pp", pp)
		_ = e.Define("x5", x5)
		_ = e.Define("np", np)
		_ = e.Define("h", h)
		_ = e.Define("put", func(d goNamedMap) { d["new"] = "v" })
		_ = e.Define("isnilmap", func(d goNamedMap) bool { return d == nil })
		_ = e.Define("isnilslice", func(d goNamedSlice) bool { return d == nil })
		_ = e.Define("set0", func(x goNamedSlice) { x[0] = 99 })
		_ = e.Define("heat", func(c *goCelsius) { *c += 1 })
		_ = e.Define("apply", func(f goMapper, s string) string { return f(s) })
		_ = e.Define("move", func(p *goPoint) { p.X = 10 })
		_ = e.Define("incr", func(p *int64) { *p++ })
		_ = e.Define("show", func(p goPoint) int64 { return p.X })
		_ = e.Define("sum", func(xs ...int64) int64 {
			t := int64(0)
			for _, v := range xs {
				t += v
			}
			return t
		})
		// Go functions that fill the variables whose addresses they are given (the Sscan / Unmarshal style): the address-of-variable
		// arguments may stand in fixed and in variadic positions
		_ = e.Define("scanv", func(prefix string, targets ...*interface{}) int64 {
			for i, tg := range targets {
				*tg = int64(200 + i)
			}
			return int64(len(targets))
		})
		_ = e.Define("scan2", func(a *interface{}, b *interface{}) int64 { *a = "A"; *b = "B"; return 2 })
		_ = e.Define("scan1v", func(a *interface{}, rest ...*interface{}) int64 {
			*a = int64(1)
			for _, r := range rest {
				*r = int64(2)
			}
			return int64(1 + len(rest))
		})
		// Go code calling a script function of ANOTHER shape than the func type it is converted to: variadic script functions
		// receive the arguments Go passes (the tail as a list of those values); too many results are an error
		_ = e.Define("call2", func(f func(int64, int64) int64) int64 { return f(3, 4) })
		_ = e.Define("call3s", func(f func(string, int64, int64) string) string { return f("s", 1, 2) })
		_ = e.Define("pair", func(f func() (int64, int64)) int64 { a, b := f(); return a*10 + b })
		// a Go function whose result type is an interface WITH methods: what it returns is the value inside, whether the result
		// is bound to a variable first or handed straight on
		_ = e.Define("mkShape", func() goShape { return &goCirc{R: 2} })
		_ = e.Define("mkErr", func() error { return &goMyErr{"boom"} })
		_ = e.Define("area", func(c *goCirc) int64 { return c.R * c.R })
		_ = e.Define("errText", func(x *goMyErr) string { return x.msg })
		// values of a named string type held in Go slices / arrays / struct fields keep their type (and methods) through every binding;
		// empty lists arrive as EMPTY slices (not nil) and never as arrays
		_ = e.Define("colors", []goColor{"red", "green"})
		_ = e.Define("pal", &struct{ C goColor }{"blue"})
		_ = e.Define("isColor", func(x interface{}) bool { _, ok := x.(goColor); return ok })
		_ = e.Define("wantColor", func(c goColor) string { return "color:" + string(c) })
		_ = e.Define("isnilstrs", func(s []string) string { return fmt.Sprint(s == nil, len(s)) })
		_ = e.Define("nested", func(s [][]string) string {
			out := fmt.Sprint(s == nil, len(s))
			for _, x := range s {
				out += fmt.Sprint(" ", x == nil, len(x))
			}
			return out
		})
		_ = e.Define("arr2s", func(a [2]int64) int64 { return a[0] + a[1] })
		_ = e.Define("hs", &struct{ L []string }{})
		named := []struct {
			src   string
			check func(res interface{}, err error) string // "" = fine
		}{
			{"va = 0\nvb = 0\nn = scanv(\"ab\", &va, &vb)\n[n, va, vb]", func(res interface{}, err error) string {
				if err != nil || fmt.Sprint(res) != "[2 200 201]" {
					return fmt.Sprintf("a variadic Go function given &va, &vb must fill both and return 2: got %v, err %v", res, err)
				}
				return ""
			}},
			{"va = 0\nn = scanv(\"ab\", &va)\n[n, va]", func(res interface{}, err error) string {
				if err != nil || fmt.Sprint(res) != "[1 200]" {
					return fmt.Sprintf("scanv(\"ab\", &va): got %v, err %v", res, err)
				}
				return ""
			}},
			{"n = scanv(\"ab\")\nn", func(res interface{}, err error) string {
				if err != nil || fmt.Sprint(res) != "0" {
					return fmt.Sprintf("scanv(\"ab\"): got %v, err %v", res, err)
				}
				return ""
			}},
			{"va = 0\nvb = 0\nn = scan2(&va, &vb)\n[n, va, vb]", func(res interface{}, err error) string {
				if err != nil || fmt.Sprint(res) != "[2 A B]" {
					return fmt.Sprintf("scan2(&va, &vb): got %v, err %v", res, err)
				}
				return ""
			}},
			{"va = 0\nvb = 0\nn = scan2((&va), &(vb))\n[n, va, vb]", func(res interface{}, err error) string {
				if err != nil || fmt.Sprint(res) != "[2 A B]" {
					return fmt.Sprintf("scan2((&va), &(vb)) - parentheses change nothing: the variables are filled as by scan2(&va, &vb): got %v, err %v", res, err)
				}
				return ""
			}},
			{"va = 0\nvb = 0\nn = scanv(\"ab\", ((&va)), &((vb)))\n[n, va, vb]", func(res interface{}, err error) string {
				if err != nil || fmt.Sprint(res) != "[2 200 201]" {
					return fmt.Sprintf("scanv(\"ab\", ((&va)), &((vb))) - parentheses change nothing: got %v, err %v", res, err)
				}
				return ""
			}},
			{"va = 0\nvb = 0\nvc = 0\nn = scan1v(&va, &vb, &vc)\n[n, va, vb, vc]", func(res interface{}, err error) string {
				if err != nil || fmt.Sprint(res) != "[3 1 2 2]" {
					return fmt.Sprintf("scan1v(&va, &vb, &vc): got %v, err %v", res, err)
				}
				return ""
			}},
			{"func w() {\nvar la = 0\nvar lb = 0\nscanv(\"p\", &la, &lb)\nreturn [la, lb]\n}\nw()", func(res interface{}, err error) string {
				if err != nil || fmt.Sprint(res) != "[200 201]" {
					return fmt.Sprintf("scanv inside a function on its locals: got %v, err %v", res, err)
				}
				return ""
			}},
			{"call2(func(xs...) { return xs[0] + xs[1] })", func(res interface{}, err error) string {
				if err != nil || fmt.Sprint(res) != "7" {
					return fmt.Sprintf("a variadic script callback must see the arguments Go passes (3, 4): got %v, err %v", res, err)
				}
				return ""
			}},
			{"call2(func(a, b...) { return a * 10 + b[0] + len(b) })", func(res interface{}, err error) string {
				if err != nil || fmt.Sprint(res) != "35" {
					return fmt.Sprintf("func(a, b...) called by Go with (3, 4): a = 3, b = [4] expected (35): got %v, err %v", res, err)
				}
				return ""
			}},
			{"call3s(func(s, r...) { return s + \"\" + (r[0] + r[1]) + len(r) })", func(res interface{}, err error) string {
				if err != nil || fmt.Sprint(res) != "s32" {
					return fmt.Sprintf("func(s, r...) called by Go with (\"s\", 1, 2): got %v, err %v", res, err)
				}
				return ""
			}},
			{"call2(func(a, b) { return a - b })", func(res interface{}, err error) string {
				if err != nil || fmt.Sprint(res) != "-1" {
					return fmt.Sprintf("func(a, b) called by Go with (3, 4): got %v, err %v", res, err)
				}
				return ""
			}},
			{"pair(func() { return 1, 2 })", func(res interface{}, err error) string {
				if err != nil || fmt.Sprint(res) != "12" {
					return fmt.Sprintf("two results: got %v, err %v", res, err)
				}
				return ""
			}},
			{"pair(func() { return 1, 2, 3 })", func(res interface{}, err error) string {
				if err == nil || strings.Contains(err.Error(), "index out of range") {
					return fmt.Sprintf("three results for a func type with two: an error about the result count expected, got %v, err %v", res, err)
				}
				return ""
			}},
			{"x = mkShape()\n[area(x), area(mkShape()), area((mkShape())), area([mkShape()][0])]", func(res interface{}, err error) string {
				if err != nil || fmt.Sprint(res) != "[4 4 4 4]" {
					return fmt.Sprintf("a result of an interface type with methods handed to a parameter of the dynamic type, bound first / direct / through id / through an element: got %v, err %v", res, err)
				}
				return ""
			}},
			{"x = mkErr()\n[errText(x), errText(mkErr())]", func(res interface{}, err error) string {
				if err != nil || fmt.Sprint(res) != "[boom boom]" {
					return fmt.Sprintf("an error-typed result handed to a parameter of its dynamic type: got %v, err %v", res, err)
				}
				return ""
			}},
			{"v = colors[0]\nfunc ret() { return colors[1] }\nr = []\nfor c in colors {\nr += isColor(c)\n}\n[isColor(v), isColor(colors[0]), isColor(ret()), isColor(pal.C), r, wantColor(colors[0]), wantColor(v), v.Hex(), pal.C.Hex()]", func(res interface{}, err error) string {
				if err != nil || fmt.Sprint(res) != "[true true true true [true true] color:red color:red #red #blue]" {
					return fmt.Sprintf("a named string type read from a Go slice element / struct field, bound, looped over, returned, passed on: got %v, err %v", res, err)
				}
				return ""
			}},
			{"e1 = [1][1:]\n[isnilstrs([]), isnilstrs(e1), nested([[]]), nested([]), nested([[\"a\"], []])]", func(res interface{}, err error) string {
				if err != nil || fmt.Sprint(res) != "[false 0 false 0 false 1 false 0 false 0 false 2 false 1 false 0]" {
					return fmt.Sprintf("empty lists handed to []string / [][]string parameters arrive as empty (non-nil) slices: got %v, err %v", res, err)
				}
				return ""
			}},
			{"arr2s([])", func(res interface{}, err error) string {
				if err == nil {
					return fmt.Sprintf("an empty list was accepted for a [2]int64 parameter: %v", res)
				}
				return ""
			}},
			{"hs.L = []\nhs.L", func(res interface{}, err error) string {
				if s, ok := res.([]string); err != nil || !ok || s == nil || len(s) != 0 {
					return fmt.Sprintf("an empty list stored into a []string field is an empty slice: got %#v, err %v", res, err)
				}
				return ""
			}},
			{"put(m)", func(res interface{}, err error) string {
				if err != nil || m["new"] != "v" {
					return fmt.Sprintf("the callee's store into the map is lost: Go map now %v, err %v", m, err)
				}
				return ""
			}},
			{"isnilmap(nm)", func(res interface{}, err error) string {
				if err != nil || res != true {
					return fmt.Sprintf("a nil map arrives non-nil: %v, err %v", res, err)
				}
				return ""
			}},
			{"isnilslice(nsl)", func(res interface{}, err error) string {
				if err != nil || res != true {
					return fmt.Sprintf("a nil slice arrives non-nil: %v, err %v", res, err)
				}
				return ""
			}},
			{"set0(sl)", func(res interface{}, err error) string {
				if err != nil || sl[0] != 99 {
					return fmt.Sprintf("the callee's store into the slice is lost: Go slice now %v, err %v", sl, err)
				}
				return ""
			}},
			{"heat(fp)", func(res interface{}, err error) string {
				if err != nil || fl != 2.5 {
					return fmt.Sprintf("the callee's store through the pointer is lost: value now %v, err %v", fl, err)
				}
				return ""
			}},
			{"apply(up, \"a\")", func(res interface{}, err error) string {
				if err != nil || res != "A" {
					return fmt.Sprintf("a Go func handed to a named func type: result %v, err %v", res, err)
				}
				return ""
			}},
			{"move(pt)", func(res interface{}, err error) string {
				if err == nil {
					return "a struct value was accepted for a pointer parameter (Go has no such conversion)"
				}
				return ""
			}},
			{"incr(x5)", func(res interface{}, err error) string {
				if err == nil {
					return "an int64 was accepted for a *int64 parameter"
				}
				return ""
			}},
			{"show(pp)", func(res interface{}, err error) string {
				if err == nil {
					return "a pointer was accepted for a struct parameter"
				}
				return ""
			}},
			{"sum(1, np, 1)", func(res interface{}, err error) string {
				if err == nil {
					return fmt.Sprintf("a *int64 was accepted in an ...int64 tail: result %v", res)
				}
				return ""
			}},
			{"h.P = x5", func(res interface{}, err error) string {
				if err == nil {
					return "an int64 was stored into a *int64 field"
				}
				return ""
			}},
		}
		// two DIFFERENT Go struct types that print alike (declared in different function scopes, as same-named types of two packages
		// with one package name would): member syntax reads and writes the field of THAT type
		_ = e.Define("recA", mkRecA())
		_ = e.Define("recB", mkRecB())
		eq := func(src, want string) {
			named = append(named, struct {
				src   string
				check func(res interface{}, err error) string
			}{src, func(res interface{}, err error) string {
				if err != nil || fmt.Sprint(res) != want {
					return fmt.Sprintf("expected %s: got %v, err %v", want, res, err)
				}
				return ""
			}})
		}
		eq("[recA.Name, recA.ID, recB.Name, recB.ID]", "[ann 7 bob 9]")
		eq("[recB.Name, recB.ID, recA.Name, recA.ID]", "[bob 9 ann 7]")
		eq("recA.ID = 70\nrecB.ID = 90\nrecB.Name = \"rob\"\nrecA.Name = \"anna\"\n[recA.Name, recA.ID, recB.Name, recB.ID]", "[anna 70 rob 90]")
		eq("recA.ID = 7\nrecB.ID = 9\nrecB.Name = \"bob\"\nrecA.Name = \"ann\"\n[recA.Only, recB.Extra]", "[true 1.5]")
		for _, c := range named {
			res, err, p := execGuard(e, c.src)
			o.Sum.Evaluations++
			o.Sum.Hist["named-type-param"]++
			if p != nil {
				o.Fail(Failure{Oracle: "no-panic", Key: "goconv-panic:named", Input: c.src, Detail: fmt.Sprint(p)})
			} else if msg := c.check(res, err); msg != "" {
				o.Fail(Failure{Oracle: "go-conversion", Key: "goconv-named:" + c.src, Input: c.src + "   (Go values bound by the host; parameter of a named type / pointer mismatch)", Detail: msg})
			}
		}
	}
	// (4b) one parsed program run at the same time in 8 environments that bind the same names to different Go values: every call of
	// a method, a package-style function in a map, a function in a list reaches the callee of ITS environment
	{
		stmt, perr := parser.ParseSrc("t = 0\nfor i = 0; i < 3000; i++ {\nt += obj.Get()\nt += fns.get()\nt += lst[0]()\n}\nt")
		if perr != nil {
			o.Fail(Failure{Oracle: "go-conversion", Key: "goconv-concurrent-parse", Input: "concurrent call-site program", Detail: perr.Error()})
		} else {
			var wg sync.WaitGroup
			bad := make(chan string, 8)
			for k := 1; k <= 8; k++ {
				wg.Add(1)
				go func(k int64) {
					defer wg.Done()
					e := env.NewEnv()
					_ = e.Define("obj", &goGetter{N: k})
					_ = e.Define("fns", map[string]interface{}{"get": func() int64 { return k }})
					_ = e.Define("lst", []interface{}{func() int64 { return k }})
					v, err := vm.Run(e, nil, stmt)
					if err != nil || fmt.Sprint(v) != fmt.Sprint(9000*k) {
						bad <- fmt.Sprintf("environment %d: expected %d, got %v (err %v)", k, 9000*k, v, err)
					}
				}(int64(k))
			}
			wg.Wait()
			close(bad)
			o.Sum.Evaluations++
			o.Sum.Hist["concurrent-call-sites"]++
			for msg := range bad {
				o.Fail(Failure{Oracle: "go-conversion", Key: "goconv-concurrent-call-site", Input: "one tree, 8 goroutines, each its own environment with obj = &goGetter{N: k}, fns.get and lst[0] returning k: t = 0; for i < 3000 { t += obj.Get(); t += fns.get(); t += lst[0]() }; t",
					Detail: msg})
				break
			}
		}
	}
	// (5) identity
	seven := int64(7)
	idVals := []interface{}{int32(5), uint8(200), int(3), float32(1.5), "s", true, []int64{1, 2}, []string{"a"}, map[string]int64{"a": 1}, GoRec{A: 1}, &GoRec{A: 2}, &seven,
		[]interface{}{int32(1)}, map[interface{}]interface{}{"k": int8(1)}, struct{ X int }{3}, [2]int64{1, 2}}
	routes := []struct{ name, src string }{
		{"get", "x"}, {"paren", "(x)"}, {"elem", "[x][0]"}, {"mapent", "{\"k\": x}[\"k\"]"}, {"member", "{\"k\": x}.k"}, {"go-identity", "id(x)"},
		{"script-identity", "func(a) { return a }(x)"}, {"var", "y = x\ny"}, {"multi", "a, b = x, 1\na"}, {"ternary", "true ? x : 0"}, {"nilco", "x ?? 0"},
		{"variadic-elem", "func(a...) { return a[0] }(x)"}, {"return-list", "func() { return x, 1 }()[0]"},
	}
	for _, v := range idVals {
		for _, rt := range routes {
			e := env.NewEnv()
			_ = e.Define("x", v)
			_ = e.Define("id", func(a interface{}) interface{} { return a })
			res, err, p := execGuard(e, rt.src)
			o.Sum.Evaluations++
			o.Sum.Hist["identity:"+rt.name]++
			in := fmt.Sprintf("%s with x = %T(%v)", rt.src, v, v)
			switch {
			case p != nil:
				o.Fail(Failure{Oracle: "no-panic", Key: "goconv-panic:identity", Input: in, Detail: fmt.Sprint(p)})
			case err != nil:
				o.Fail(Failure{Oracle: "go-identity", Key: "goconv-identity-error:" + rt.name, Input: in, Detail: err.Error()})
			case reflect.TypeOf(res) != reflect.TypeOf(v) || !reflect.DeepEqual(res, v):
				o.Fail(Failure{Oracle: "go-identity", Key: "goconv-identity:" + rt.name, Input: in, Detail: fmt.Sprintf("came back as %T(%v)", res, res)})
			}
			got, gerr := e.Get("x")
			if gerr != nil || reflect.TypeOf(got) != reflect.TypeOf(v) || !reflect.DeepEqual(got, v) {
				o.Fail(Failure{Oracle: "go-identity", Key: "goconv-identity:define-get", Input: in, Detail: fmt.Sprintf("env.Get gives %T(%v)", got, got)})
			}
		}
	}
}

func execGuard(e *env.Env, src string) (res interface{}, err error, panicked interface{}) {
	defer func() {
		if p := recover(); p != nil {
			panicked = p
		}
	}()
	res, err = vm.Execute(e, nil, src)
	return
}

type goShape interface{ Area() int64 }
type goCirc struct{ R int64 }

func (c *goCirc) Area() int64 { return c.R * c.R }

type goMyErr struct{ msg string }

func (e *goMyErr) Error() string { return e.msg }

type goColor string

func (c goColor) Hex() string { return "#" + string(c) }

// goGetter: a receiver whose method tells which receiver it was called on.
type goGetter struct{ N int64 }

func (g *goGetter) Get() int64 { return g.N }

// mkRecA / mkRecB: two different struct types with the same printed name and different layouts.
func mkRecA() interface{} {
	type rec struct {
		Name string
		ID   int64
		Only bool
	}
	return &rec{"ann", 7, true}
}

func mkRecB() interface{} {
	type rec struct {
		ID    int64
		Extra float64
		Name  string
	}
	return &rec{9, 1.5, "bob"}
}
