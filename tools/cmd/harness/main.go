// Command harness is the implementation side of the correspondence check. It links
// against /repo (replace directive), generates inputs from one PRNG, runs the real
// code in-process, writes one request per line for the Lean model driver
// (cases.txt), the answers the implementation gave in the driver's output format
// (impl.txt) and a summary with the verdicts of the implementation-side oracles.
package main

import (
	"bufio"
	"bytes"
	"crypto/sha256"
	"encoding/hex"
	"encoding/json"
	"flag"
	"fmt"
	"math/rand"
	"os"
	"os/exec"
	"path/filepath"
	"sort"
	"strconv"
	"strings"
)

// Failure is one concrete failing input found by an implementation-side oracle.
type Failure struct {
	Oracle string `json:"oracle"`         // which oracle failed
	Key    string `json:"key"`            // stable classification key (matched against known findings)
	Input  string `json:"input"`          // source text / operation sequence
	Detail string `json:"detail"`         // what was observed
	Case   int    `json:"case,omitempty"` // index in cases.txt when applicable
}

// Summary is written as summary.json.
type Summary struct {
	Stream      string         `json:"stream"`
	Seed        int64          `json:"seed"`
	Evaluations int            `json:"evaluations"`
	Distinct    int            `json:"distinct_nontrivial"`
	Rule        string         `json:"rule"`
	Hist        map[string]int `json:"hist"`
	Samples     []string       `json:"samples"`
	Failures    []Failure      `json:"failures"`
	Skipped     int            `json:"skipped"`
	Notes       []string       `json:"notes,omitempty"`
}

// Out collects the two line streams and the summary.
type Out struct {
	dir    string
	cases  *bufio.Writer
	impl   *bufio.Writer
	srcs   *bufio.Writer
	files  []*os.File
	Sum    Summary
	hashes map[string]bool
	n      int
	cur    *os.File
	skip   map[int]bool
	flog   *os.File
}

func NewOut(dir, stream string, seed int64) *Out {
	if err := os.MkdirAll(dir, 0o755); err != nil {
		panic(err)
	}
	o := &Out{dir: dir, hashes: map[string]bool{}}
	mk := func(name string) *bufio.Writer {
		f, err := os.Create(filepath.Join(dir, name))
		if err != nil {
			panic(err)
		}
		o.files = append(o.files, f)
		return bufio.NewWriterSize(f, 1<<20)
	}
	o.cases = mk("cases.txt")
	o.impl = mk("impl.txt")
	o.srcs = mk("inputs.txt")
	o.Sum = Summary{Stream: stream, Seed: seed, Hist: map[string]int{}, Failures: []Failure{}, Samples: []string{}}
	return o
}

// Case records one request line, the implementation's answer and the human-readable input.
func (o *Out) Case(req, implAnswer, input string, nontrivial bool) int {
	fmt.Fprintln(o.cases, req)
	fmt.Fprintln(o.impl, implAnswer)
	fmt.Fprintf(o.srcs, "%q\n", input)
	o.Sum.Evaluations++
	if nontrivial {
		h := sha256.Sum256([]byte(req))
		o.hashes[hex.EncodeToString(h[:8])] = true
	}
	if len(o.Sum.Samples) < 5 && nontrivial {
		o.Sum.Samples = append(o.Sum.Samples, input)
	}
	o.n++
	return o.n - 1
}

// Current notes the input about to be run in current.txt, so that a crash of the whole process
// (a fatal runtime error cannot be recovered) is attributable to an input.
func (o *Out) Current(idx int, input string) {
	input = fmt.Sprintf("#%d\n%s", idx, input)
	if o.cur == nil {
		f, err := os.Create(filepath.Join(o.dir, "current.txt"))
		if err != nil {
			return
		}
		o.cur = f
	}
	_ = o.cur.Truncate(0)
	_, _ = o.cur.WriteAt([]byte(input), 0)
}

// Skipped reports whether case idx was found, by the supervising process, to exhaust memory
// (a fatal runtime error that kills the process; outside every guarantee). Such a case is generated,
// so that the PRNG stays aligned, but not run; it is listed in the summary.
func (o *Out) Skipped(idx int, input string) bool {
	if !o.skip[idx] {
		return false
	}
	o.Sum.Skipped++
	o.Sum.Hist["resource-exhaustion-not-run"]++
	o.Sum.Notes = append(o.Sum.Notes, fmt.Sprintf("case %d exhausts memory (fatal runtime error in a child run) and is not run: %q", idx, input))
	return true
}

func (o *Out) Fail(f Failure) {
	if len(o.Sum.Failures) < 200 {
		o.Sum.Failures = append(o.Sum.Failures, f)
		// also on disk at once: a later crash of the whole process must not lose what the oracles already found
		if o.flog == nil {
			o.flog, _ = os.Create(filepath.Join(o.dir, "failures.jsonl"))
		}
		if o.flog != nil {
			if b, err := json.Marshal(f); err == nil {
				o.flog.Write(append(b, '\n'))
			}
		}
	}
}

func (o *Out) Close() {
	o.Sum.Distinct = len(o.hashes)
	o.cases.Flush()
	o.impl.Flush()
	o.srcs.Flush()
	for _, f := range o.files {
		f.Close()
	}
	if o.cur != nil {
		o.cur.Close()
		os.Remove(filepath.Join(o.dir, "current.txt"))
	}
	b, _ := json.MarshalIndent(o.Sum, "", " ")
	if err := os.WriteFile(filepath.Join(o.dir, "summary.json"), b, 0o644); err != nil {
		panic(err)
	}
}

func mergeHist(dst, src map[string]int) {
	for k, v := range src {
		dst[k] += v
	}
}

func sortedKeys(m map[string]int) []string {
	ks := make([]string, 0, len(m))
	for k := range m {
		ks = append(ks, k)
	}
	sort.Strings(ks)
	return ks
}

type streamFn func(o *Out, r *rand.Rand, n int, thorough bool)

var streams = map[string]streamFn{}

func main() {
	if len(os.Args) < 2 {
		fmt.Fprintln(os.Stderr, "usage: harness <stream> -seed N -n N -out DIR [-thorough]")
		os.Exit(2)
	}
	name := os.Args[1]
	if name == "__worker" {
		workerMain()
		return
	}
	fs := flag.NewFlagSet(name, flag.ExitOnError)
	seed := fs.Int64("seed", 1, "PRNG seed")
	n := fs.Int("n", 1000, "number of generated cases")
	out := fs.String("out", "", "output directory")
	thorough := fs.Bool("thorough", false, "thorough tier")
	skip := fs.String("skip", "", "case indices not to run (set by the supervising process)")
	_ = fs.Parse(os.Args[2:])
	fn, ok := streams[name]
	if !ok {
		fmt.Fprintln(os.Stderr, "unknown stream", name)
		os.Exit(2)
	}
	if *out == "" {
		fmt.Fprintln(os.Stderr, "-out required")
		os.Exit(2)
	}
	if supervised[name] && os.Getenv("VERIF_SUPERVISED") == "" {
		supervise(*out)
		return
	}
	o := NewOut(*out, name, *seed)
	o.skip = map[int]bool{}
	for _, f := range strings.Split(*skip, ",") {
		if k, err := strconv.Atoi(f); err == nil {
			o.skip[k] = true
		}
	}
	fn(o, rand.New(rand.NewSource(*seed)), *n, *thorough)
	stopWorker()
	o.Close()
}

// supervised streams run whole generated programs in-process; a program that asks for an astronomically
// large allocation kills the process with a fatal runtime error, which no recover can catch.
var supervised = map[string]bool{"vm": true, "cancel": true, "isolation": true}

// supervise runs the stream in a child process and, when the child dies of memory exhaustion while
// running the input noted in current.txt, runs it again with that case excluded. Any other death of
// the child is passed on unchanged (exit status and stderr), so it stays a crash verdict.
func supervise(out string) {
	var skip []string
	for attempt := 0; ; attempt++ {
		args := append([]string{}, os.Args[1:]...)
		if len(skip) > 0 {
			args = append(args, "-skip", strings.Join(skip, ","))
		}
		cmd := exec.Command(os.Args[0], args...)
		cmd.Env = append(os.Environ(), "VERIF_SUPERVISED=1")
		cmd.Stdout = os.Stdout
		var eb bytes.Buffer
		cmd.Stderr = &eb
		err := cmd.Run()
		if err == nil {
			os.Stderr.Write(eb.Bytes())
			return
		}
		msg := eb.String()
		cur, cerr := os.ReadFile(filepath.Join(out, "current.txt"))
		oom := strings.Contains(msg, "fatal error: out of memory") || strings.Contains(msg, "fatal error: runtime: out of memory") ||
			strings.Contains(msg, "fatal error: runtime: cannot allocate memory")
		if oom && cerr == nil && attempt < 8 && strings.HasPrefix(string(cur), "#") {
			head := strings.SplitN(string(cur), "\n", 2)[0]
			if _, e := strconv.Atoi(head[1:]); e == nil {
				skip = append(skip, head[1:])
				continue
			}
		}
		os.Stderr.Write(eb.Bytes())
		if ee, ok := err.(*exec.ExitError); ok && ee.ExitCode() > 0 {
			os.Exit(ee.ExitCode())
		}
		os.Exit(3)
	}
}
