// Command harness is the implementation side of the correspondence check. It links
// against /repo (replace directive), generates inputs from one PRNG, runs the real
// code in-process, writes one request per line for the Lean model driver
// (cases.txt), the answers the implementation gave in the driver's output format
// (impl.txt) and a summary with the verdicts of the implementation-side oracles.
package main

import (
	"bufio"
	"crypto/sha256"
	"encoding/hex"
	"encoding/json"
	"flag"
	"fmt"
	"math/rand"
	"os"
	"path/filepath"
	"sort"
)

// Failure is one concrete failing input found by an implementation-side oracle.
type Failure struct {
	Oracle string `json:"oracle"`         // which oracle failed
	Key    string `json:"key"`            // stable classification key (matched against known findings)
	Input  string `json:"input"`          // source text / operation sequence
	Detail string `json:"detail"`         // what was observed
	Case   int    `json:"case,omitempty"` // index in cases.txt when applicable
}

// Summary is written as summary.json.
type Summary struct {
	Stream      string         `json:"stream"`
	Seed        int64          `json:"seed"`
	Evaluations int            `json:"evaluations"`
	Distinct    int            `json:"distinct_nontrivial"`
	Rule        string         `json:"rule"`
	Hist        map[string]int `json:"hist"`
	Samples     []string       `json:"samples"`
	Failures    []Failure      `json:"failures"`
	Skipped     int            `json:"skipped"`
	Notes       []string       `json:"notes,omitempty"`
}

// Out collects the two line streams and the summary.
type Out struct {
	dir    string
	cases  *bufio.Writer
	impl   *bufio.Writer
	srcs   *bufio.Writer
	files  []*os.File
	Sum    Summary
	hashes map[string]bool
	n      int
}

func NewOut(dir, stream string, seed int64) *Out {
	if err := os.MkdirAll(dir, 0o755); err != nil {
		panic(err)
	}
	o := &Out{dir: dir, hashes: map[string]bool{}}
	mk := func(name string) *bufio.Writer {
		f, err := os.Create(filepath.Join(dir, name))
		if err != nil {
			panic(err)
		}
		o.files = append(o.files, f)
		return bufio.NewWriterSize(f, 1<<20)
	}
	o.cases = mk("cases.txt")
	o.impl = mk("impl.txt")
	o.srcs = mk("inputs.txt")
	o.Sum = Summary{Stream: stream, Seed: seed, Hist: map[string]int{}, Failures: []Failure{}, Samples: []string{}}
	return o
}

// Case records one request line, the implementation's answer and the human-readable input.
func (o *Out) Case(req, implAnswer, input string, nontrivial bool) int {
	fmt.Fprintln(o.cases, req)
	fmt.Fprintln(o.impl, implAnswer)
	fmt.Fprintf(o.srcs, "%q\n", input)
	o.Sum.Evaluations++
	if nontrivial {
		h := sha256.Sum256([]byte(req))
		o.hashes[hex.EncodeToString(h[:8])] = true
	}
	if len(o.Sum.Samples) < 5 && nontrivial {
		o.Sum.Samples = append(o.Sum.Samples, input)
	}
	o.n++
	return o.n - 1
}

func (o *Out) Fail(f Failure) {
	if len(o.Sum.Failures) < 200 {
		o.Sum.Failures = append(o.Sum.Failures, f)
	}
}

func (o *Out) Close() {
	o.Sum.Distinct = len(o.hashes)
	o.cases.Flush()
	o.impl.Flush()
	o.srcs.Flush()
	for _, f := range o.files {
		f.Close()
	}
	b, _ := json.MarshalIndent(o.Sum, "", " ")
	if err := os.WriteFile(filepath.Join(o.dir, "summary.json"), b, 0o644); err != nil {
		panic(err)
	}
}

func mergeHist(dst, src map[string]int) {
	for k, v := range src {
		dst[k] += v
	}
}

func sortedKeys(m map[string]int) []string {
	ks := make([]string, 0, len(m))
	for k := range m {
		ks = append(ks, k)
	}
	sort.Strings(ks)
	return ks
}

type streamFn func(o *Out, r *rand.Rand, n int, thorough bool)

var streams = map[string]streamFn{}

func main() {
	if len(os.Args) < 2 {
		fmt.Fprintln(os.Stderr, "usage: harness <stream> -seed N -n N -out DIR [-thorough]")
		os.Exit(2)
	}
	name := os.Args[1]
	if name == "__worker" {
		workerMain()
		return
	}
	fs := flag.NewFlagSet(name, flag.ExitOnError)
	seed := fs.Int64("seed", 1, "PRNG seed")
	n := fs.Int("n", 1000, "number of generated cases")
	out := fs.String("out", "", "output directory")
	thorough := fs.Bool("thorough", false, "thorough tier")
	_ = fs.Parse(os.Args[2:])
	fn, ok := streams[name]
	if !ok {
		fmt.Fprintln(os.Stderr, "unknown stream", name)
		os.Exit(2)
	}
	if *out == "" {
		fmt.Fprintln(os.Stderr, "-out required")
		os.Exit(2)
	}
	o := NewOut(*out, name, *seed)
	fn(o, rand.New(rand.NewSource(*seed)), *n, *thorough)
	stopWorker()
	o.Close()
}
