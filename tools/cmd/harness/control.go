package main

import (
	"fmt"
	"math/rand"
	"strings"
	"time"

	"github.com/mattn/anko/parser"

	"veriftools/internal/astser"
	"veriftools/internal/vals"
)

func init() { streams["control"] = streamControl }

// Structured control-flow programs with an independent reference evaluator (C08 oracle).
// Every leaf is probe(k); conditions are literals of known truthiness; loop bounds are
// known; break / continue / return are guarded by tests on the loop counter.
type cnode struct {
	kind  string // probe, seq, if, cfor, forin, while, forever, switch, func, break, continue, return
	k     int    // probe id / loop bound / return value / switch subject
	conds []bool // if: truth of if / else-if conditions
	kids  []*cnode
	els   *cnode // else / default
	when  int    // break/continue/return: fire when the innermost loop counter == when (-1: always)
	cases []int  // switch: case values
	lit   []string
	id    int
	clob  bool // for-in: the body starts by assigning to the loop variable itself
}

var truthy = []string{"true", "1", `"a"`, "[0]", `{"a": 1}`, "0.5", `"true"`, "-1", `"x"`, "[nil]"}
var falsy = []string{"false", "0", `""`, "nil", "[]", "{}", "0.0", `"false"`, `"0"`, `"F"`}

type cgen struct {
	r      *rand.Rand
	nextID int
	nprobe int
}

func (g *cgen) id() int { g.nextID++; return g.nextID }

func (g *cgen) seq(d int, inLoop, inFunc bool) *cnode {
	n := &cnode{kind: "seq"}
	for i := 1 + g.r.Intn(3); i > 0; i-- {
		n.kids = append(n.kids, g.node(d, inLoop, inFunc))
	}
	return n
}

func (g *cgen) node(d int, inLoop, inFunc bool) *cnode {
	if d <= 0 {
		g.nprobe++
		return &cnode{kind: "probe", k: g.nprobe}
	}
	switch g.r.Intn(15) {
	case 14:
		// a module block is transparent for control flow: signals (and a returned value) pass through it
		return &cnode{kind: "module", id: g.id(), kids: []*cnode{g.seq(d-1, inLoop, inFunc)}}
	case 0, 1:
		g.nprobe++
		return &cnode{kind: "probe", k: g.nprobe}
	case 2, 3:
		n := &cnode{kind: "if"}
		for i := 1 + g.r.Intn(3); i > 0; i-- {
			c := g.r.Intn(2) == 0
			n.conds = append(n.conds, c)
			var l string
			if c {
				l = truthy[g.r.Intn(len(truthy))]
			} else {
				l = falsy[g.r.Intn(len(falsy))]
			}
			// the condition value reaches the test through different routes (literal, slice element, map entry,
			// result of a script function or of a Go function): its truthiness must not depend on the route
			switch g.r.Intn(8) {
			case 0:
				l = "[" + l + "][0]"
			case 1:
				l = "{\"k\": " + l + "}.k"
			case 2:
				l = "{\"k\": " + l + "}[\"k\"]"
			case 3:
				l = "func() { return " + l + " }()"
			case 4:
				l = "func() { return [" + l + "][0] }()"
			case 5:
				l = "id(" + l + ")"
			}
			n.lit = append(n.lit, l)
			n.kids = append(n.kids, g.seq(d-1, inLoop, inFunc))
		}
		if g.r.Intn(2) == 0 {
			n.els = g.seq(d-1, inLoop, inFunc)
		}
		return n
	case 4:
		return &cnode{kind: "cfor", k: g.r.Intn(4), id: g.id(), kids: []*cnode{g.seq(d-1, true, inFunc)}}
	case 5:
		return &cnode{kind: "forin", k: g.r.Intn(4), id: g.id(), clob: g.r.Intn(3) == 0, kids: []*cnode{g.seq(d-1, true, inFunc)}}
	case 6:
		return &cnode{kind: "while", k: g.r.Intn(4), id: g.id(), kids: []*cnode{g.seq(d-1, true, inFunc)}}
	case 7:
		return &cnode{kind: "forever", k: g.r.Intn(4), id: g.id(), kids: []*cnode{g.seq(d-1, true, inFunc)}}
	case 8:
		n := &cnode{kind: "switch", k: g.r.Intn(3)}
		for i := g.r.Intn(3); i > 0; i-- {
			n.cases = append(n.cases, g.r.Intn(3))
			if g.r.Intn(4) == 0 {
				// a case with an empty body: matching it runs nothing (in particular not the default)
				n.kids = append(n.kids, &cnode{kind: "seq"})
			} else {
				n.kids = append(n.kids, g.seq(d-1, inLoop, inFunc))
			}
		}
		if g.r.Intn(2) == 0 {
			n.els = g.seq(d-1, inLoop, inFunc)
		}
		return n
	case 9:
		return &cnode{kind: "func", id: g.id(), kids: []*cnode{g.seq(d-1, false, true)}}
	case 10:
		if inLoop {
			return &cnode{kind: "break", when: g.r.Intn(4) - 1}
		}
	case 11:
		if inLoop {
			return &cnode{kind: "continue", when: g.r.Intn(4) - 1}
		}
	case 12:
		if inFunc {
			w := -1
			if inLoop {
				w = g.r.Intn(4) - 1
			}
			if g.r.Intn(3) == 0 {
				return &cnode{kind: "return", k: -1, when: w} // bare return: the invocation yields nil
			}
			return &cnode{kind: "return", k: g.r.Intn(3), when: w}
		}
	}
	g.nprobe++
	return &cnode{kind: "probe", k: g.nprobe}
}

// render: loop counters are named i<id>; `cur` is the innermost loop's counter name.
func (n *cnode) render(b *strings.Builder, cur string) {
	guard := func(stmt string) {
		if n.when >= 0 && cur != "" {
			fmt.Fprintf(b, "if %s == %d { %s }\n", cur, n.when, stmt)
		} else {
			b.WriteString(stmt + "\n")
		}
	}
	switch n.kind {
	case "probe":
		fmt.Fprintf(b, "probe(%d)\n", n.k)
	case "seq":
		for _, k := range n.kids {
			k.render(b, cur)
		}
	case "if":
		for i := range n.conds {
			if i == 0 {
				fmt.Fprintf(b, "if %s {\n", n.lit[i])
			} else {
				fmt.Fprintf(b, "} else if %s {\n", n.lit[i])
			}
			n.kids[i].render(b, cur)
		}
		if n.els != nil {
			b.WriteString("} else {\n")
			n.els.render(b, cur)
		}
		b.WriteString("}\n")
	case "cfor":
		c := fmt.Sprintf("i%d", n.id)
		fmt.Fprintf(b, "for %s = 0; %s < %d; %s++ {\n", c, c, n.k, c)
		n.kids[0].render(b, c)
		b.WriteString("}\n")
	case "forin":
		c := fmt.Sprintf("i%d", n.id)
		items := make([]string, n.k)
		for i := range items {
			items[i] = fmt.Sprint(i)
		}
		fmt.Fprintf(b, "for %s in [%s] {\n", c, strings.Join(items, ", "))
		if n.clob {
			// assigning to the loop variable affects this iteration only: the next one gets its own element
			fmt.Fprintf(b, "%s = %s + 0\n", c, c)
		}
		n.kids[0].render(b, c)
		b.WriteString("}\n")
	case "while":
		c := fmt.Sprintf("i%d", n.id)
		// the counter is advanced first, the body sees counter-1 as its index through j
		fmt.Fprintf(b, "n%d = 0\nfor n%d < %d {\n%s = n%d\nn%d++\n", n.id, n.id, n.k, c, n.id, n.id)
		n.kids[0].render(b, c)
		b.WriteString("}\n")
	case "forever":
		c := fmt.Sprintf("i%d", n.id)
		fmt.Fprintf(b, "n%d = 0\nfor {\nif n%d >= %d { break }\n%s = n%d\nn%d++\n", n.id, n.id, n.k, c, n.id, n.id)
		n.kids[0].render(b, c)
		b.WriteString("}\n")
	case "switch":
		fmt.Fprintf(b, "switch %d {\n", n.k)
		for i, cv := range n.cases {
			fmt.Fprintf(b, "case %d:\n", cv)
			n.kids[i].render(b, cur)
		}
		if n.els != nil {
			b.WriteString("default:\n")
			n.els.render(b, cur)
		}
		b.WriteString("}\n")
	case "module":
		fmt.Fprintf(b, "module md%d {\n", n.id)
		n.kids[0].render(b, cur)
		b.WriteString("}\n")
	case "func":
		// the value of the invocation is probed so that `return` is observable
		b.WriteString("probe(func() {\n")
		n.kids[0].render(b, "")
		b.WriteString("}())\n")
	case "break":
		guard("break")
	case "continue":
		guard("continue")
	case "return":
		if n.k < 0 {
			guard("return")
		} else {
			guard(fmt.Sprintf("return %d", 100+n.k))
		}
	}
}

const bareReturn = -424242

type csig int

const (
	sigNone csig = iota
	sigBreak
	sigContinue
	sigReturn
)

// eval is the reference semantics: appends probe ids (and invocation results) to trace.
// idx = current iteration index of the innermost loop (-1 outside loops). last = value of the last statement.
func (n *cnode) eval(trace *[]string, idx int) (csig, int) {
	fires := func() bool { return n.when < 0 || idx < 0 || n.when == idx }
	switch n.kind {
	case "probe":
		*trace = append(*trace, vals.Encode(int64(n.k)))
	case "seq":
		for _, k := range n.kids {
			if s, v := k.eval(trace, idx); s != sigNone {
				return s, v
			}
		}
	case "module":
		return n.kids[0].eval(trace, idx)
	case "if":
		for i, c := range n.conds {
			if c {
				return n.kids[i].eval(trace, idx)
			}
		}
		if n.els != nil {
			return n.els.eval(trace, idx)
		}
	case "cfor", "forin", "while", "forever":
		for i := 0; i < n.k; i++ {
			s, v := n.kids[0].eval(trace, i)
			if s == sigBreak {
				break
			}
			if s == sigReturn {
				return s, v
			}
		}
	case "switch":
		for i, cv := range n.cases {
			if cv == n.k {
				return n.kids[i].eval(trace, idx)
			}
		}
		if n.els != nil {
			return n.els.eval(trace, idx)
		}
	case "func":
		s, v := n.kids[0].eval(trace, -1)
		if s == sigReturn && v == bareReturn {
			*trace = append(*trace, vals.Encode(nil))
		} else if s == sigReturn {
			*trace = append(*trace, vals.Encode(int64(v)))
		} else {
			*trace = append(*trace, "?") // value of the last statement: not modelled here, not compared
		}
	case "break":
		if fires() {
			return sigBreak, 0
		}
	case "continue":
		if fires() {
			return sigContinue, 0
		}
	case "return":
		if fires() {
			if n.k < 0 {
				return sigReturn, bareReturn
			}
			return sigReturn, 100 + n.k
		}
	}
	return sigNone, 0
}

// break / continue act on the innermost enclosing loop OF THE SAME FUNCTION only: a callee's stray break or continue is an
// error of the call and never touches the caller's loop; a returned value survives every kind of block on its way out
var boundaryTemplates = []struct {
	src     string
	want    []string
	wantErr string
}{
	{"for i = 0; i < 3; i++ {\nprobe(i)\nfunc() {\nif true {\nbreak\n}\n}()\nprobe(10 + i)\n}\nprobe(99)", []string{"(i 0)"}, "unexpected break"},
	{"for i = 0; i < 3; i++ {\nprobe(i)\nfunc() {\nif true {\ncontinue\n}\n}()\nprobe(10 + i)\n}\nprobe(99)", []string{"(i 0)"}, "unexpected continue"},
	{"func stop() {\nbreak\n}\nfor x in [1, 2, 3] {\nprobe(x)\nstop()\n}\nprobe(99)", []string{"(i 1)"}, "unexpected break"},
	{"func skip(v) {\nif v == 2 {\ncontinue\n}\n}\nn = 0\nfor n < 3 {\nn++\nskip(n)\nprobe(n)\n}\nprobe(99)", []string{"(i 1)"}, "unexpected continue"},
	{"func stop(a, b, c, d, e) {\nbreak\n}\nfor {\nprobe(1)\nstop(1, 2, 3, 4, 5)\nprobe(2)\nbreak\n}\nprobe(99)", []string{"(i 1)"}, "unexpected break"},
	{"func stop(v...) {\nswitch 1 {\ncase 1:\nbreak\n}\n}\nfor i = 0; i < 2; i++ {\nfor j = 0; j < 2; j++ {\nprobe(10 * i + j)\nstop()\n}\n}\nprobe(99)", []string{"(i 0)"}, "unexpected break"},
	// break / continue executed in a catch block act on the enclosing loop, with or without a finally block that does something
	{"n = 0\nq = 0\nfor i = 0; i < 4; i++ {\ntry {\nthrow \"x\"\n} catch e {\ncontinue\n} finally {\nq = q + i\n}\nn++\n}\nprobe(n)", []string{"(i 0)"}, ""},
	{"n = 0\nfor x in [1, 2, 3] {\ntry {\nthrow \"x\"\n} catch e {\ncontinue\n} finally {\nid(x)\n}\nn++\n}\nprobe(n)", []string{"(i 0)"}, ""},
	{"n = 0\nfor n < 10 {\nn++\ntry {\n1 % 0\n} catch e {\nbreak\n} finally {\nvar seen = n\n}\nn = 100\n}\nprobe(n)", []string{"(i 1)"}, ""},
	{"r = []\nfor i = 0; i < 2; i++ {\nfor j = 0; j < 3; j++ {\ntry {\nthrow j\n} catch e {\nif j == 1 {\nbreak\n}\n} finally {\nk = j\n}\nr += 10 * i + j\n}\n}\nprobe(r)", []string{"(l (i 0) (i 10))"}, ""},
	// a for-in loop visits the elements of the slice as they are when it gets to them: a store ahead of the loop position is seen
	{"a = [1, 2, 3]\nseen = []\nfor x in a {\na[2] = 10\nseen += x\n}\nprobe(seen)", []string{"(l (i 1) (i 2) (i 10))"}, ""},
	{"t = make([]int64, 3)\nseen = []\nfor x in t {\nt[1] = 5\nt[2] = 6\nseen += x\n}\nprobe(seen)", []string{"(l (i 0) (i 5) (i 6))"}, ""},
	{"a = [\"a\", \"b\", \"a\", \"c\", \"b\"]\nuniq = []\ni = 0\nfor x in a {\nif x != \"\" {\nuniq += x\nfor j = i + 1; j < len(a); j++ {\nif a[j] == x {\na[j] = \"\"\n}\n}\n}\ni++\n}\nprobe(uniq)", []string{"(l (s 61) (s 62) (s 63))"}, ""},
	// the subject of a for-in loop is evaluated once, to a value: a body that replaces the slot it was read from does not move the loop
	{"a = [[1, 2]]\nn = 0\nfor x in a[0] {\nif n < 5 {\na[0] += 9\n}\nn++\n}\nprobe(n)", []string{"(i 2)"}, ""},
	{"m = make([][]int64, 1)\nm[0] = make([]int64, 2)\nn = 0\nfor x in m[0] {\nif n < 5 {\nm[0] += 9\n}\nn++\n}\nprobe(n)", []string{"(i 2)"}, ""},
	{"m = make([][]int64, 1)\nm[0] = [1, 2, 3]\nn = 0\nfor x in m[0] {\nm[0] = []\nn += x\n}\nprobe(n)", []string{"(i 6)"}, ""},
	{"s = make(struct { L []int64 })\ns.L = [1, 2, 3]\nn = 0\nfor x in s.L {\ns.L = [9]\nn += x\n}\nprobe(n)", []string{"(i 6)"}, ""},
	{"v = [1, 2, 3]\nn = 0\nfor x in v {\nv = [9]\nn += x\n}\nprobe(n)", []string{"(i 6)"}, ""},
	// ... also when the subject is a CHANNEL read from a typed slot or a field: the loop keeps receiving from the channel it started on
	{"a = make([]chan int64, 1)\na[0] = make(chan int64, 3)\nb = make(chan int64, 3)\na[0] <- 1\nb <- 10\nb <- 20\nclose(a[0])\nclose(b)\nn = 0\nfor v in a[0] {\nn += v\na[0] = b\n}\nprobe(n)", []string{"(i 1)"}, ""},
	{"s = make(struct { C chan int64 })\ns.C = make(chan int64, 3)\nb = make(chan int64, 3)\ns.C <- 1\ns.C <- 2\nb <- 10\nclose(s.C)\nclose(b)\nn = 0\nfor v in s.C {\nn += v\ns.C = b\n}\nprobe(n)", []string{"(i 3)"}, ""},
	{"c = make(chan int64, 3)\nb = make(chan int64, 3)\nc <- 1\nc <- 2\nb <- 10\nclose(c)\nclose(b)\nn = 0\nfor v in c {\nn += v\nc = b\n}\nprobe(n)", []string{"(i 3)"}, ""},
	// a LITERAL as a loop condition is truthy or falsy as the same value in a variable is (\"0\", \"false\", \"F\" are falsy strings)
	{"n = 0\nfor \"0\" {\nn++\nbreak\n}\nfor \"false\" {\nn += 10\nbreak\n}\nfor \"F\" {\nn += 100\nbreak\n}\nfor \"\" {\nn += 1000\nbreak\n}\nprobe(n)", []string{"(i 0)"}, ""},
	{"n = 0\nfor i = 0; \"false\"; i++ {\nn++\nbreak\n}\nfor i = 0; \"0.0\"; i++ {\nn += 10\nbreak\n}\nfor i = 0; 0; i++ {\nn += 100\nbreak\n}\nfor i = 0; nil; i++ {\nn += 1000\nbreak\n}\nprobe(n)", []string{"(i 0)"}, ""},
	{"n = 0\nfor \"1\" {\nn++\nbreak\n}\nfor \"x\" {\nn += 10\nbreak\n}\nfor 2 {\nn += 100\nbreak\n}\nfor (\"t\") {\nn += 1000\nbreak\n}\nfor i = 0; \"true\"; i++ {\nn += 10000\nbreak\n}\nprobe(n)", []string{"(i 11111)"}, ""},
	{"n = 0\nfor 0 {\nn++\nbreak\n}\nfor 0.0 {\nn += 10\nbreak\n}\nfor false {\nn += 100\nbreak\n}\nfor nil {\nn += 1000\nbreak\n}\nfor (\"0\") {\nn += 10000\nbreak\n}\nprobe(n)", []string{"(i 0)"}, ""},
	// a loop that never started (its init statement failed, the error was caught) leaves the loops around and after it as they were
	{"n = 0\nfor i = 0; i < 4; i++ {\ntry {\nfor j = missing(); j < 2; j++ {\n}\n} catch e {\n}\nif i == 1 {\nbreak\n}\nn++\n}\nprobe(n)", []string{"(i 1)"}, ""},
	{"n = 0\nfor x in [1, 2, 3] {\ntry {\nfor j = 1 / nil.a; j < 2; j++ {\n}\n} catch e {\n}\nif x == 2 {\ncontinue\n}\nn += x\n}\nprobe(n)", []string{"(i 4)"}, ""},
	{"func f() {\ntry {\nfor k = missing(); ; {\n}\n} catch e {\n}\nfor {\nbreak\n}\nreturn 7\n}\nprobe(f())", []string{"(i 7)"}, ""},
	{"n = 0\ntry {\nfor v in missing() {\n}\n} catch e {\n}\ntry {\nfor missing() {\n}\n} catch e {\n}\nfor {\nn++\nif n < 3 {\ncontinue\n}\nbreak\n}\nprobe(n)", []string{"(i 3)"}, ""},
	{"r = 0\nfor i = 0; i < 3; i++ {\nr = func() {\nfor {\nbreak\n}\nreturn i\n}()\nprobe(r)\n}", []string{"(i 0)", "(i 1)", "(i 2)"}, ""},
	{"probe(func() {\nmodule a {\nreturn 10\n}\nreturn 20\n}())", []string{"(i 10)"}, ""},
	{"probe(func() {\nmodule a {\nif true {\nfor {\nreturn 1, 2\n}\n}\n}\n}())", []string{"(l (i 1) (i 2))"}, ""},
	{"probe(func() {\nfor x in [1] {\nswitch x {\ncase 1:\nmodule b {\nreturn \"v\"\n}\n}\n}\n}())", []string{"(s 76)"}, ""},
	{"func f() {\nmodule c {\nreturn 1, 2\n}\n}\na, b = f()\nprobe(a + b)", []string{"(i 3)"}, ""},
	// every entry of a map is visited once - entries holding nil included
	{"m = {\"a\": 1, \"b\": nil, \"c\": 3, \"d\": nil}\nn = 0\nfor k, v in m {\nn++\n}\nprobe(n)", []string{"(i 4)"}, ""},
	{"m = {\"a\": nil, \"b\": nil}\nn = 0\nfor k in m {\nn++\n}\nprobe(n)", []string{"(i 2)"}, ""},
	{"func find(m, want) {\nfor k, v in m {\nif k == want {\nreturn \"found\"\n}\n}\nreturn \"missing\"\n}\nprobe(find({\"a\": nil, \"b\": nil}, \"b\"))", []string{"(s 666f756e64)"}, ""},
	{"m = {\"only\": nil}\nfor k, v in m {\nprobe(k)\nprobe(v)\n}", []string{"(s 6f6e6c79)", "nil"}, ""},
	// the loop variable is the element itself - a pointer element stays a pointer (slices and channels)
	{"x = 7\na = [&x]\nfor p in a {\nprobe(*p)\n}", []string{"(i 7)"}, ""},
	{"x = 7\ny = 8\na = [&x, &y]\nt = 0\nfor p in a {\n*p = *p + 1\nt += *p\n}\nprobe(t)", []string{"(i 17)"}, ""},
	{"x = 7\nc = make(chan interface, 1)\nc <- &x\nclose(c)\nfor p in c {\nprobe(*p)\n}", []string{"(i 7)"}, ""},
	{"x = 7\na = [&x]\nfor p in a {\nprobe(p == a[0])\nprobe(*p == *a[0])\n}", []string{"(b 1)", "(b 1)"}, ""},
	// a for-in over a channel ends when the channel is closed, not before - also when several loops receive from one channel
	{"jobs = make(chan int64, 4)\nres = make(chan int64, 8)\nclosing = false\nfunc worker() {\nvar n = 0\nfor v in jobs {\nn++\n}\nif closing {\nres <- 0\n} else {\nres <- 1\n}\n}\nfor k = 0; k < 8; k++ {\ngo worker()\n}\nfor i = 0; i < 6000; i++ {\njobs <- i\n}\nclosing = true\nclose(jobs)\nearly = 0\nfor k = 0; k < 8; k++ {\nearly += <-res\n}\nprobe(early)", []string{"(i 0)"}, ""},
	{"jobs = make(chan int64, 2)\nsum = make(chan int64, 3)\nfunc worker() {\nvar t = 0\nfor v in jobs {\nt += v\n}\nsum <- t\n}\nfor k = 0; k < 3; k++ {\ngo worker()\n}\nfor i = 1; i <= 3000; i++ {\njobs <- i\n}\nclose(jobs)\na = <-sum\nb = <-sum\nc = <-sum\nprobe(a + b + c)", []string{"(i 4501500)"}, ""},
	// the subject of a switch is a value once evaluated: a case expression that stores into the slot it was read from does not change it
	{"b = make([]int64, 1)\nb[0] = 1\nfunc bump() {\nb[0] = 2\nreturn 2\n}\nswitch b[0] {\ncase bump():\nprobe(\"two\")\ndefault:\nprobe(\"other\")\n}", []string{"(s 6f74686572)"}, ""},
	{"c = [1, 2]\nfunc bump() {\nc[0] = 2\nreturn 2\n}\nswitch c[0] {\ncase bump():\nprobe(\"two\")\ncase 1:\nprobe(\"one\")\n}", []string{"(s 6f6e65)"}, ""},
	{"s = make(struct {\nA int64\n})\ns.A = 1\nfunc bump() {\ns.A = 7\nreturn 7\n}\nswitch s.A {\ncase bump():\nprobe(\"seven\")\ncase 1:\nprobe(\"one\")\n}", []string{"(s 6f6e65)"}, ""},
	// the body of a C-style loop may move the loop variable: the condition and the post expression see what the body stored
	{"n = 0\nfor i = 0; i < 10; i++ {\nn++\nif i == 2 {\ni = 7\n}\n}\nprobe(n)", []string{"(i 5)"}, ""},
	{"n = 0\nfor i = 0; i < 10; i++ {\nn++\nif n == 3 {\ni = 1000\n}\n}\nprobe(n)", []string{"(i 3)"}, ""},
	{"n = 0\nfor var i = 0; i <= 9; i++ {\nn++\ni++\n}\nprobe(n)", []string{"(i 5)"}, ""},
	{"n = 0\nfor i = 0; i < 4; i++ {\nn++\nif i == 2 && n < 6 {\ni = 0\n}\n}\nprobe(n)", []string{"(i 8)"}, ""},
	{"n = 0\nlim = 10\nfor i = 0; i < lim; i++ {\nn++\nlim = 3\n}\nprobe(n)", []string{"(i 3)"}, ""},
	// every invocation hands back ITS result, also when one function value (variadic / 5 parameters / 2 parameters) is invoked
	// from several goroutines at the same time and returns from inside nested loops
	{"res = make(chan int64, 8)\nfunc pick(k, r...) {\nfor i = 0; i < 3; i++ {\nfor j in [1, 2] {\nif i == 1 && j == 2 {\nreturn k * 100 + len(r)\n}\n}\n}\nreturn -1\n}\nfunc worker(k) {\nvar bad = 0\nfor n = 0; n < 3000; n++ {\nif pick(k, 1, 2) != k * 100 + 2 {\nbad++\n}\n}\nres <- bad\n}\nfor k = 0; k < 8; k++ {\ngo worker(k)\n}\nt = 0\nfor k = 0; k < 8; k++ {\nt += <-res\n}\nprobe(t)", []string{"(i 0)"}, ""},
	{"res = make(chan int64, 8)\nfunc pick5(k, a, b, c, d) {\nwhile = 0\nfor {\nwhile++\nif while > 2 {\nreturn k + a\n}\n}\n}\nfunc worker(k) {\nvar bad = 0\nfor n = 0; n < 3000; n++ {\nif pick5(k, 1, 2, 3, 4) != k + 1 {\nbad++\n}\n}\nres <- bad\n}\nfor k = 0; k < 8; k++ {\ngo worker(k)\n}\nt = 0\nfor k = 0; k < 8; k++ {\nt += <-res\n}\nprobe(t)", []string{"(i 0)"}, ""},
	// assigning to a for-in variable does not leak into the next iteration
	{"t = 0\nfor x in [5, 20, 3] {\nif x > 10 {\nx = 10\n}\nt += x\n}\nprobe(t)", []string{"(i 18)"}, ""},
	{"r = []\nfor x in [1, 2, 3] {\nx++\nr += x\n}\nprobe(r)", []string{"(l (i 2) (i 3) (i 4))"}, ""},
	{"r = []\nfor x in [1, 2, 3] {\nvar x = x * 10\nr += x\n}\nprobe(r)", []string{"(l (i 10) (i 20) (i 30))"}, ""},
	// the entries visited are the entries the map has when the loop starts: the body runs once per such entry, whatever it inserts
	{"for round = 0; round < 10; round++ {\nm = {\"a\": 1, \"b\": 2, \"c\": 3, \"d\": 4}\nn = 0\nfor k, v in m {\nn++\nm[k + \"x\"] = v\nm[k + \"y\"] = v\n}\nprobe([n, len(m)])\n}",
		[]string{"(l (i 4) (i 12))", "(l (i 4) (i 12))", "(l (i 4) (i 12))", "(l (i 4) (i 12))", "(l (i 4) (i 12))", "(l (i 4) (i 12))", "(l (i 4) (i 12))", "(l (i 4) (i 12))", "(l (i 4) (i 12))", "(l (i 4) (i 12))"}, ""},
	// an entry deleted before its turn is not visited; every entry still in the map is (20 rounds: the order is Go's)
	{"bad = 0\nfor round = 0; round < 20; round++ {\nm = {\"a\": 1, \"b\": 2, \"c\": 3, \"d\": 4, \"e\": 5, \"f\": 6}\nn = 0\nsum = 0\ngone = 0\nfor k, v in m {\nn++\nsum += v\nif n == 1 {\nvictim = \"a\"\nif k == \"a\" {\nvictim = \"b\"\n}\ngone = m[victim]\ndelete(m, victim)\n}\n}\nif n != 5 || sum != 21 - gone {\nbad++\n}\n}\nprobe(bad)", []string{"(i 0)"}, ""},
	// for cond { }: the condition is tested again after continue
	{"i = 0\nfor i < 3 {\ni++\nprobe(i)\nif i == 3 {\ncontinue\n}\n}\nprobe(100 + i)", []string{"(i 1)", "(i 2)", "(i 3)", "(i 103)"}, ""},
	// a map loop inside the body of another map loop: each visits every entry of its own map once
	{"outer = {\"a\": 1, \"b\": 2, \"c\": 3, \"d\": 4}\ninner = {\"x\": 1, \"y\": 2, \"z\": 3}\nno = 0\nnp = 0\nfor k, v in outer {\nno++\nfor k2, v2 in inner {\nnp++\n}\n}\nprobe([no, np])", []string{"(l (i 4) (i 12))"}, ""},
	{"grid = {\"r1\": {\"a\": 1, \"b\": 2}, \"r2\": {\"a\": 3, \"b\": 4}, \"r3\": {\"a\": 5, \"b\": 6}}\nrows = 0\ncells = 0\nsum = 0\nfor rk, row in grid {\nrows++\nfor ck, cell in row {\ncells++\nsum += cell\n}\n}\nprobe([rows, cells, sum])", []string{"(l (i 3) (i 6) (i 21))"}, ""},
	{"m = {\"a\": 1, \"b\": 2, \"c\": 3}\nn = 0\nfor k in m {\nfor k2 in m {\nfor k3 in m {\nn++\n}\n}\n}\nprobe(n)", []string{"(i 27)"}, ""},
	{"idx = {\"k1\": \"v1\", \"k2\": \"v2\", \"k3\": \"v3\"}\nn = 0\nfor k in idx {\nn++\nidx[idx[k]] = k\n}\nprobe([n, len(idx)])", []string{"(l (i 3) (i 6))"}, ""},
}

func streamControl(o *Out, r *rand.Rand, n int, thorough bool) {
	o.Sum.Rule = "structured control-flow programs (if/else-if/else over all truthiness classes, 4 loop forms with known bounds, switch, functions, " +
		"break/continue/return guarded by the loop counter, nesting depth <= 4); expected probe trace computed by an independent reference evaluator in the harness; " +
		"non-trivial = contains a loop or a function; distinct by request hash"
	// signals across `try` (finding #13: try routes break/continue/return to its catch block)
	trySignal := []struct{ name, src, want string }{
		{"return", "probe(func() {\ntry {\nreturn 1\n} catch e {\nreturn 2\n}\n}())", vals.Encode(int64(1))},
		{"break", "for i = 0; i < 3; i++ {\ntry {\nbreak\n} catch e {\n}\nprobe(i)\n}\nprobe(\"end\")", vals.Encode("end")},
		{"continue", "for i = 0; i < 2; i++ {\ntry {\ncontinue\n} catch e {\n}\nprobe(\"skipped\")\n}\nprobe(\"end\")", vals.Encode("end")},
	}
	for _, c := range trySignal {
		stmt, err := parser.ParseSrc(c.src)
		if err != nil {
			continue
		}
		res := runVM(stmt, -1, 3*time.Second)
		o.Case(fmt.Sprintf("(run %d _ %s)", modelFuel, astser.Prog(stmt)), res.line, c.src, true)
		if res.err != nil || len(res.trace) != 1 || res.trace[0] != c.want {
			o.Fail(Failure{Oracle: "signal-passes-try", Key: "try-catches-signal:" + c.name, Input: c.src,
				Detail: fmt.Sprintf("%s inside try is routed to the catch block: trace %v err %v (expected the single probe %s)", c.name, res.trace, res.err, c.want)})
		}
	}
	// break / continue act on the innermost enclosing loop OF THE SAME FUNCTION only: a callee's stray break or continue is
	// an error of the call and never touches the caller's loop; a returned value survives every kind of block on its way out
	for _, c := range boundaryTemplates {
		stmt, err := parser.ParseSrc(c.src)
		if err != nil {
			o.Fail(Failure{Oracle: "control-template-parses", Key: "control-template-parse", Input: c.src, Detail: err.Error()})
			continue
		}
		res := runVM(stmt, -1, 3*time.Second)
		o.Case(fmt.Sprintf("(run %d _ %s)", modelFuel, astser.Prog(stmt)), res.line, c.src, true)
		o.Sum.Hist["boundary-template"]++
		gotErr := ""
		if res.err != nil {
			gotErr = res.err.Error()
		}
		if res.hung || res.panicked || strings.Join(res.trace, " ") != strings.Join(c.want, " ") || (c.wantErr == "") != (gotErr == "") || !strings.Contains(gotErr, c.wantErr) {
			o.Fail(Failure{Oracle: "signals-stay-in-their-function", Key: "control-boundary:" + firstLine(c.src), Input: c.src,
				Detail: fmt.Sprintf("expected trace %v and error %q; got trace %v and error %q", c.want, c.wantErr, res.trace, gotErr)})
		}
	}
	// switch runs the first case EQUAL to its subject: equal as == says, for every pair of a mixed pool
	swPool := []string{"\"404\"", "404", "\"1.5\"", "1.5", "\"true\"", "true", "false", "\"\"", "0", "nil", "\"abc\"", "1", "\"1\"", "\"0\"", "1.0", "[1]", "\"404 \""}
	for _, a := range swPool {
		for _, b := range swPool {
			src := "if " + a + " == " + b + " {\nprobe(\"case\")\n} else {\nprobe(\"default\")\n}\nswitch " + a + " {\ncase " + b + ":\nprobe(\"case\")\ndefault:\nprobe(\"default\")\n}"
			stmt, err := parser.ParseSrc(src)
			if err != nil {
				o.Fail(Failure{Oracle: "control-template-parses", Key: "control-template-parse", Input: src, Detail: err.Error()})
				continue
			}
			res := runVM(stmt, -1, 3*time.Second)
			o.Case(fmt.Sprintf("(run %d _ %s)", modelFuel, astser.Prog(stmt)), res.line, src, true)
			o.Sum.Hist["switch-vs-equal"]++
			if res.hung || res.panicked || res.err != nil || len(res.trace) != 2 || res.trace[0] != res.trace[1] {
				o.Fail(Failure{Oracle: "switch-runs-the-equal-case", Key: "switch-vs-equal:" + a + ":" + b, Input: src,
					Detail: fmt.Sprintf("the if on == and the switch must take the same arm; trace %v err %v", res.trace, res.err)})
			}
		}
	}
	// ... also for switches with many clauses of several labels each (labels of mixed kinds): the arm taken is the first clause, in order, holding a
	// label == says the subject equals - the same script computes that with an if / else-if chain
	for _, subj := range swPool {
		var sw, chain strings.Builder
		sw.WriteString("switch " + subj + " {\n")
		for k := 0; k+1 < len(swPool); k += 2 {
			// the subject's own spelling is left out of every other clause list so that cross-kind labels decide
			a, b := swPool[k], swPool[k+1]
			fmt.Fprintf(&sw, "case %s, %s:\nprobe(%d)\n", a, b, k)
			kw := "} else if "
			if k == 0 {
				kw = "if "
			}
			fmt.Fprintf(&chain, "%s%s == %s || %s == %s {\nprobe(%d)\n", kw, subj, a, subj, b, k)
		}
		sw.WriteString("default:\nprobe(-1)\n}")
		chain.WriteString("} else {\nprobe(-1)\n}")
		src := chain.String() + "\n" + sw.String()
		stmt, err := parser.ParseSrc(src)
		if err != nil {
			o.Fail(Failure{Oracle: "control-template-parses", Key: "control-template-parse", Input: src, Detail: err.Error()})
			continue
		}
		res := runVM(stmt, -1, 3*time.Second)
		o.Sum.Evaluations++
		o.Sum.Hist["big-switch-vs-equal"]++
		if res.hung || res.panicked || res.err != nil || len(res.trace) != 2 || res.trace[0] != res.trace[1] {
			o.Fail(Failure{Oracle: "switch-runs-the-equal-case", Key: "big-switch-vs-equal:" + subj, Input: src,
				Detail: fmt.Sprintf("the if / else-if chain on == and the switch must take the same arm; trace %v err %v", res.trace, res.err)})
		}
	}
	for i := 0; i < n; i++ {
		g := &cgen{r: r}
		root := g.seq(1+r.Intn(4), false, false)
		var b strings.Builder
		root.render(&b, "")
		src := b.String()
		stmt, err := parser.ParseSrc(src)
		if err != nil {
			o.Fail(Failure{Oracle: "control-template-parses", Key: "control-template-parse", Input: src, Detail: err.Error()})
			continue
		}
		var want []string
		root.eval(&want, -1)
		res := runVM(stmt, -1, 3*time.Second)
		o.Case(fmt.Sprintf("(run %d _ %s)", modelFuel, astser.Prog(stmt)), res.line, src, strings.Contains(src, "for ") || strings.Contains(src, "func"))
		o.Sum.Hist[fmt.Sprintf("probes:%d", min(len(want)/5*5, 50))]++
		if res.hung {
			o.Fail(Failure{Oracle: "control-terminates", Key: "control-hang", Input: src, Detail: "program with bounded loops did not terminate"})
			continue
		}
		if res.panicked || res.err != nil {
			o.Fail(Failure{Oracle: "control-no-error", Key: "control-error", Input: src, Detail: fmt.Sprint(res.err, res.panicVal)})
			continue
		}
		ok := len(want) == len(res.trace)
		if ok {
			for j := range want {
				if want[j] != "?" && want[j] != res.trace[j] {
					ok = false
				}
			}
		}
		if !ok {
			o.Fail(Failure{Oracle: "control-reference-trace", Key: "control-trace", Input: src, Detail: fmt.Sprintf("reference evaluator expects probe trace %v, interpreter produced %v", want, res.trace)})
		}
	}
}
