package main

import (
	"bytes"
	"fmt"
	"io"
	"math/rand"
	"os"
	"os/exec"
	"path/filepath"
	"strings"
	"time"

	"github.com/mattn/anko/core"
	"github.com/mattn/anko/env"
	_ "github.com/mattn/anko/packages"
	"github.com/mattn/anko/parser"
	"github.com/mattn/anko/vm"
)

func init() { streams["cli"] = streamCli }

// captureStdout runs f with os.Stdout redirected into a buffer.
func captureStdout(f func()) string {
	old := os.Stdout
	r, w, err := os.Pipe()
	if err != nil {
		panic(err)
	}
	os.Stdout = w
	done := make(chan string)
	go func() {
		var b bytes.Buffer
		io.Copy(&b, r)
		done <- b.String()
	}()
	f()
	w.Close()
	os.Stdout = old
	return <-done
}

func streamCli(o *Out, r *rand.Rand, n int, thorough bool) {
	o.Sum.Rule = "generated scripts (printing prefix + ending: success / throw / runtime error / parse error), supplied as file with trailing arguments, " +
		"via -e, or as an unreadable path, run through the anko binary built from the working tree; non-trivial = prints at least one line or fails; distinct by request hash"
	bin := filepath.Join(os.Getenv("VERIF_BIN"), "anko-cli")
	if _, err := os.Stat(bin); err != nil {
		o.Fail(Failure{Oracle: "cli-binary", Key: "cli-binary-missing", Input: bin, Detail: err.Error()})
		return
	}
	tmp, err := os.MkdirTemp("", "ankocli")
	if err != nil {
		panic(err)
	}
	defer os.RemoveAll(tmp)
	words := []string{"alpha", "beta", "42", "x y", "", "éa", "1.5"}
	endings := []struct{ name, src string }{
		{"ok", ""}, {"ok", "1 + 1"}, {"ok", "nil"},
		{"ok", "errors = import(\"errors\")\nerrors.New(\"the last value is an error value\")"}, {"ok", "strconv = import(\"strconv\")\nn, err = strconv.Atoi(\"12x\")"},
		{"ok", "os = import(\"os\")\nos.Remove(\"/nonexistent/verif-cli-file\")"}, {"ok", "last = nil\ntry {\nthrow \"x\"\n} catch e {\nlast = e\n}"},
		{"runErr", `throw "boom"`}, {"runErr", "undefinedFunction()"}, {"runErr", "1 % 0"}, {"runErr", `x = [1]; x[5]`},
		{"runErr", `toInt()`}, {"runErr", `keys(1)`}, {"runErr", `load("/nonexistent/lib.ank")`}, {"runErr", `load("/")`},
		{"runErr", "func f() {\nload(\"/nonexistent/deep.ank\")\n}\nf()"},
		// a bundled package is available through import(...) only: its bare name is an undefined symbol like any other
		{"runErr", "sort.Ints([2, 1])"}, {"runErr", "t = time"}, {"runErr", "println(regexp)"}, {"runErr", "func f() {\nreturn json\n}\nf()"},
		{"ok", "println(defined(\"time\"), defined(\"regexp\"), defined(\"os\"))"}, {"ok", "try {\nj = json\nprintln(\"json is bound\")\n} catch e {\nprintln(\"json is not bound\")\n}"},
		{"ok", "x = (url ?? \"no url\")\nprintln(x)"},
		// goroutines the script leaves behind do not keep the tool alive: vm.Execute returns when the top level statements are done
		{"ok", "c = make(chan int64)\ngo func() {\n<-c\n}()"}, {"ok", "jobs = make(chan int64, 2)\ngo func() {\nfor j in jobs {\n}\n}()\njobs <- 1"},
		{"ok", "c = make(chan int64)\ngo func() {\nc <- 1\n}()\nprintln(\"main done\")"}, {"runErr", "c = make(chan int64)\ngo func() {\n<-c\n}()\nthrow \"after go\""},
		// a script that closes standard output itself (bundled os package) and ends without error: exit 0, what it printed before is there
		{"exit", "os = import(\"os\")\nos.Stdout.Close()"}, {"exit", "os = import(\"os\")\nos.Stdout.Close()\nx = 1 + 1"},
		{"exit", "os = import(\"os\")\nos.Exit(0)"}, {"exit", "os = import(\"os\")\nos.Exit(3)"},
		// a script that uses the bundled flag package on the command line it was started with (the tool's own -e / file argument included): flag.Parse()
		// succeeds as it does under vm.Execute in a host that parsed its flags, and the script goes on (not run in-process: it would parse the harness's arguments)
		{"exit", "flag = import(\"flag\")\nflag.Parse()\nos = import(\"os\")\nos.Exit(0)"}, {"exit", "flag = import(\"flag\")\nflag.Parse()\nn = flag.NArg()\nos = import(\"os\")\nos.Exit(3)"},
		{"parseErr", "x = ("}, {"parseErr", `s = "unterminated`}, {"parseErr", "if { }"}, {"parseErr", "1 +* 2"}, {"parseErr", "func("},
	}
	// sources given whole (no trailing newline added), each as -e code and as a file: what runs is the text that was given
	wholes := []struct{ name, src string }{
		{"ok", `"a" + "b"`}, {"ok", "'x'"}, {"ok", "\"only a string\""}, {"ok", "`raw`"}, {"ok", "\"%v\\n\"; println(1); \"end\""}, {"ok", "'a'; println('b'); 'c'"},
		{"ok", "(1 + 2)"}, {"ok", "[1, 2]"}, {"ok", "{\"a\": 1}"}, {"ok", " println(1) "}, {"ok", "\tprintln(2)\t"}, {"ok", "# only a comment"}, {"ok", "println(\"q\")\n\"tail\""},
		{"runErr", "\"a\" + nosuch + \"b\""}, {"runErr", "'x'; throw 'y'"}, {"parseErr", "\"a\" \"b\""}, {"parseErr", "'"},
	}
	deepDone := false
	for i := 0; i < n+2*len(wholes); i++ {
		var sb strings.Builder
		var want strings.Builder
		nargs := r.Intn(3)
		args := make([]string, nargs)
		for j := range args {
			args[j] = fmt.Sprintf("arg%d", r.Intn(100))
		}
		lines := r.Intn(4)
		end := endings[r.Intn(len(endings))]
		supply := []string{"dashE", "file1", "file1", "file0"}[r.Intn(4)]
		if i < 2 {
			// always: the deep recursion script, once as a file and once with -e
			lines, end, supply, deepDone = 1, endings[0], []string{"file1", "dashE"}[i], false
		}
		whole := i >= n
		if whole {
			lines, end, supply = 0, wholes[(i-n)/2], []string{"dashE", "file1"}[(i-n)%2]
		}
		for j := 0; j < lines; j++ {
			choice := r.Intn(12)
			if i < 2 {
				choice = 11
			}
			switch choice {
			case 11:
				// deep (but finite) recursion: the tool has the stack a library host has
				if deepDone {
					fmt.Fprintf(&sb, "println(%d)\n", j)
					fmt.Fprintf(&want, "%d\n", j)
					break
				}
				deepDone = true
				fmt.Fprintf(&sb, "func rsum%d(n) {\nif n == 0 {\nreturn 0\n}\nreturn n + rsum%d(n - 1)\n}\nprintln(rsum%d(45000))\n", j, j, j)
				want.WriteString("1012522500\n")
			case 9:
				// one very long line (an embedded blob); only in a script file: a single -e argument is limited to 128 KiB by the OS
				if supply == "dashE" || strings.Contains(sb.String(), "blob") {
					fmt.Fprintf(&sb, "printf(\"%%s-%%d\\n\", \"g\", %d)\n", j)
					fmt.Fprintf(&want, "g-%d\n", j)
					break
				}
				k := 66000 + r.Intn(3000)
				fmt.Fprintf(&sb, "blob%d = \"%s\"\nprintln(len(blob%d))\n", j, strings.Repeat("ab", k/2), j)
				fmt.Fprintf(&want, "%d\n", k/2*2)
			case 10:
				// CRLF line endings, also inside a multi-line raw string whose content is observed
				fmt.Fprintf(&sb, "crlf%d = `x\r\ny`\r\nprintln(len(crlf%d))\r\n", j, j)
				want.WriteString("4\n")
			case 5:
				// the script's own top-level variables are visible to the builtins
				fmt.Fprintf(&sb, "v%d = %d\nif defined(\"v%d\") { println(\"def\") } else { println(\"undef\") }\nprintln(defined(\"nope%d\"), defined(\"args\"))\n", j, j, j, j)
				want.WriteString("def\nfalse true\n")
			case 6:
				// output through a bundled package between builtin output
				w := words[r.Intn(len(words))]
				fmt.Fprintf(&sb, "println(\"a%d\")\nfmt = import(\"fmt\")\nfmt.Println(%q)\nfmt.Printf(\"%%d|\", %d)\nprint(\"z\\n\")\n", j, w, j)
				fmt.Fprintf(&want, "a%d\n%s\n%d|z\n", j, w, j)
			case 7:
				// a loaded file sees the loading script's variables and args
				lib := filepath.Join(tmp, fmt.Sprintf("lib%d_%d.ank", i, j))
				if err := os.WriteFile(lib, []byte(fmt.Sprintf("println(w%d + len(args))\nq%d = 7\n", j, j)), 0o644); err != nil {
					panic(err)
				}
				fmt.Fprintf(&sb, "w%d = %d\nload(%q)\nprintln(q%d)\n", j, j*10, lib, j)
				fmt.Fprintf(&want, "%d\n7\n", j*10+nargs)
			case 8:
				fmt.Fprintf(&sb, "printf(\"%%s-%%d\\n\", \"f\", %d)\n", j)
				fmt.Fprintf(&want, "f-%d\n", j)
			case 0:
				w := words[r.Intn(len(words))]
				fmt.Fprintf(&sb, "println(%q)\n", w)
				want.WriteString(w + "\n")
			case 1:
				k := r.Intn(1000)
				fmt.Fprintf(&sb, "println(%d + 1)\n", k)
				fmt.Fprintf(&want, "%d\n", k+1)
			case 2:
				fmt.Fprintf(&sb, "println(len(args))\n")
				if supply == "dashE" {
					fmt.Fprintf(&want, "%d\n", nargs)
				} else {
					fmt.Fprintf(&want, "%d\n", nargs)
				}
			case 3:
				w := words[r.Intn(len(words))]
				fmt.Fprintf(&sb, "strings = import(\"strings\")\nprint(strings.ToUpper(%q), \"\\n\")\n", w)
				want.WriteString(strings.ToUpper(w) + "\n")
			case 4:
				fmt.Fprintf(&sb, "println(toString(%d) + \"!\", typeOf(1.5), kindOf(\"s\"))\n", j)
				fmt.Fprintf(&want, "%d! float64 string\n", j)
			}
		}
		sb.WriteString(end.src + "\n")
		src := sb.String()
		if whole {
			src = end.src
		}
		class := end.name
		_, perr := parser.ParseSrc(src)
		if (perr != nil) != (class == "parseErr") {
			o.Sum.Skipped++
			continue
		}
		if class == "exit" && supply == "file0" {
			supply = "file1"
		}
		// library verdict in an equally prepared environment
		var libErr error
		libOut := ""
		if class == "exit" {
			// the script ends the process itself (os.Exit): not run in-process; what it printed before must be there
			libOut = want.String()
		} else {
			libOut = captureStdout(func() {
				e := env.NewEnv()
				_ = e.Define("args", args)
				core.Import(e)
				_, libErr = vm.Execute(e, nil, src)
			})
		}
		// run the binary
		var cmd *exec.Cmd
		switch supply {
		case "dashE":
			cmd = exec.Command(bin, append([]string{"-e", src}, args...)...)
		case "file1":
			path := filepath.Join(tmp, fmt.Sprintf("s%d.ank", i))
			if err := os.WriteFile(path, []byte(src), 0o644); err != nil {
				panic(err)
			}
			cmd = exec.Command(bin, append([]string{path}, args...)...)
		case "file0":
			cmd = exec.Command(bin, append([]string{filepath.Join(tmp, "does-not-exist.ank")}, args...)...)
		}
		var stdout, stderr bytes.Buffer
		cmd.Stdout, cmd.Stderr = &stdout, &stderr
		if err := cmd.Start(); err != nil {
			o.Fail(Failure{Oracle: "cli-run", Key: "cli-exec-failed", Input: src, Detail: err.Error()})
			continue
		}
		waited := make(chan error, 1)
		go func() { waited <- cmd.Wait() }()
		var runErr error
		select {
		case runErr = <-waited:
		case <-time.After(60 * time.Second):
			_ = cmd.Process.Kill()
			<-waited
			o.Fail(Failure{Oracle: "cli-verdict-agrees", Key: "cli-does-not-exit", Input: fmt.Sprintf("[%s args=%v] %q", supply, args, src),
				Detail: fmt.Sprintf("vm.Execute returned (error=%v) for this source; the binary was still running after 60s (printed %q)", libErr, stdout.String())})
			continue
		}
		exit := 0
		if ee, ok := runErr.(*exec.ExitError); ok {
			exit = ee.ExitCode()
		} else if runErr != nil {
			o.Fail(Failure{Oracle: "cli-run", Key: "cli-exec-failed", Input: src, Detail: runErr.Error()})
			continue
		}
		outS := stdout.String()
		diag := 0
		body := outS
		outLines := strings.Split(strings.TrimSuffix(outS, "\n"), "\n")
		if outS != "" {
			last := outLines[len(outLines)-1]
			if strings.HasPrefix(last, "Execute error:") || strings.HasPrefix(last, "ReadFile error:") {
				diag = 1
				body = strings.Join(outLines[:len(outLines)-1], "\n")
				if len(outLines) > 1 {
					body += "\n"
				}
			}
		}
		executed := supply != "file0"
		modelClass := class
		if class == "exit" {
			o.Sum.Evaluations++
			o.Sum.Hist["class:exit"]++
			wantExit := 0
			if strings.Contains(end.src, "Exit(3)") {
				wantExit = 3
			}
			if exit != wantExit || outS != want.String() {
				what := fmt.Sprintf("called os.Exit(%d)", wantExit)
				if strings.Contains(end.src, "Stdout.Close") {
					what = "closed standard output and ended without an error (vm.Execute returns nil for it)"
				}
				o.Fail(Failure{Oracle: "cli-stdout", Key: "cli-stdout-lost-at-exit", Input: fmt.Sprintf("[%s args=%v] %q", supply, args, src),
					Detail: fmt.Sprintf("the script printed %q and then %s; the binary wrote %q and exited %d (stderr %q)", want.String(), what, outS, exit, stderr.String())})
			}
			continue
		}
		o.Case(fmt.Sprintf("(cli %s %s)", supply, modelClass), fmt.Sprintf("exit=%d diag=%d executed=%v", exit, diag, executed),
			fmt.Sprintf("[%s args=%v] %s", supply, args, src), lines > 0 || class != "ok")
		o.Sum.Hist["supply:"+supply]++
		o.Sum.Hist["class:"+class]++
		desc := fmt.Sprintf("[%s args=%v] %q", supply, args, src)
		// --- oracles on the implementation ---
		if supply == "file0" {
			if exit != 2 || diag != 1 || body != "" {
				o.Fail(Failure{Oracle: "cli-unreadable", Key: "cli-unreadable-exit", Input: desc, Detail: fmt.Sprintf("exit=%d stdout=%q", exit, outS)})
			}
			continue
		}
		if (exit == 0) != (libErr == nil) {
			o.Fail(Failure{Oracle: "cli-verdict-agrees", Key: "cli-verdict", Input: desc, Detail: fmt.Sprintf("binary exit=%d, vm.Execute error=%v", exit, libErr)})
		}
		if libErr != nil && exit != 4 {
			o.Fail(Failure{Oracle: "cli-exit-4", Key: "cli-exit-code", Input: desc, Detail: fmt.Sprintf("vm.Execute failed (%v) but exit=%d", libErr, exit)})
		}
		if (libErr != nil) != (diag == 1) {
			o.Fail(Failure{Oracle: "cli-one-diagnostic", Key: "cli-diagnostic", Input: desc, Detail: fmt.Sprintf("error=%v diagnostic lines=%d stdout=%q", libErr, diag, outS)})
		}
		if body != libOut {
			o.Fail(Failure{Oracle: "cli-stdout", Key: "cli-stdout-differs", Input: desc, Detail: fmt.Sprintf("binary printed %q, library run printed %q", body, libOut)})
		}
		if class != "parseErr" && !strings.HasPrefix(body, want.String()) {
			o.Fail(Failure{Oracle: "cli-stdout", Key: "cli-stdout-unexpected", Input: desc, Detail: fmt.Sprintf("binary printed %q, script should print %q", body, want.String())})
		}
		if class == "parseErr" && body != "" {
			o.Fail(Failure{Oracle: "cli-stdout", Key: "cli-output-before-parse-error", Input: desc, Detail: fmt.Sprintf("binary printed %q although the source does not parse", body)})
		}
		if stderr.Len() != 0 {
			o.Fail(Failure{Oracle: "cli-stderr", Key: "cli-stderr-not-empty", Input: desc, Detail: stderr.String()})
		}
	}
	// The file form runs the file's bytes as vm.Execute runs them, in the directory the tool was started in: a script in
	// another directory than the current one (relative paths, load, a file named by a trailing argument), and files
	// whose bytes are not ASCII text (Latin-1, a lone 0xff, a byte order mark).
	fileCases := []struct {
		name   string
		script string // bytes of scripts/x.ank
	}{
		{"getwd", "os = import(\"os\")\nwd, err = os.Getwd()\nprintln(wd)"},
		{"read-relative-arg", "ioutil = import(\"io/ioutil\")\nb, err = ioutil.ReadFile(args[0])\nif err != nil {\nthrow err\n}\nprintln(len(toString(b)))"},
		{"load-relative", "load(\"lib.ank\")\nprintln(libv + 1)"},
		{"stat-script-dir", "os = import(\"os\")\nfi, err = os.Stat(\"x.ank\")\nprintln(err == nil)"},
		{"latin1-in-comment", "# caf\xe9\nprintln(1)"},
		{"latin1-in-string", "println(len(\"\xe9t\xe9\"))"},
		{"lone-ff-then-error", "println(\"a\xffb\" != \"\")\nundefinedFunction()"},
		{"byte-order-mark", "\xef\xbb\xbfprintln(1)"},
		{"utf8-text", "println(\"h\xc3\xa9llo\", len(\"\xe6\x97\xa5\"))"},
		{"nul-byte-in-string", "println(len(\"a\x00b\"))"},
	}
	// a file argument that cannot be read - missing, the empty string, a directory - is exit 2 with the one ReadFile
	// diagnostic, whatever follows it on the command line; never the interactive prompt
	for _, bad := range [][]string{{""}, {"", "a", "b"}, {"."}, {tmp}, {filepath.Join(tmp, "no", "such", "dir", "x.ank")}, {" "}, {"", ""}} {
		cmd := exec.Command(bin, bad...)
		cmd.Stdin = strings.NewReader("println(\"ran-from-stdin\")\n")
		var stdout, stderr bytes.Buffer
		cmd.Stdout, cmd.Stderr = &stdout, &stderr
		runErr := cmd.Run()
		exit := 0
		if ee, ok := runErr.(*exec.ExitError); ok {
			exit = ee.ExitCode()
		} else if runErr != nil {
			o.Fail(Failure{Oracle: "cli-run", Key: "cli-exec-failed", Input: fmt.Sprint(bad), Detail: runErr.Error()})
			continue
		}
		o.Sum.Evaluations++
		o.Sum.Hist["unreadable-argument"]++
		out := stdout.String()
		if exit != 2 || !strings.HasPrefix(out, "ReadFile error:") || strings.Count(out, "\n") != 1 || strings.Contains(out, "ran-from-stdin") {
			o.Fail(Failure{Oracle: "cli-unreadable", Key: "cli-unreadable-exit", Input: fmt.Sprintf("anko %q (with a script on standard input)", bad),
				Detail: fmt.Sprintf("exit=%d stdout=%q stderr=%q; expected exit 2 and exactly the ReadFile diagnostic", exit, out, stderr.String())})
		}
	}
	fileCases = append(fileCases, struct {
		name   string
		script string
	}{"import-resolved-when-evaluated", "println(\"start\")\nencode = nil\ntry {\nyaml = import(\"encoding/yaml\")\nencode = yaml.Marshal\n} catch e {\nprintln(\"no yaml\")\njson = import(\"encoding/json\")\nencode = json.Marshal\n}\nb, err = encode(args)\nprintln(toString(b))\nif len(args) > 5 {\npprof = import(\"runtime/pprof\")\n}\nfunc never() {\nreturn import(\"no/such\")\n}\nprintln(\"done\")"}, struct {
		name   string
		script string
	}{"output-before-failing-import", "println(\"before\")\nx = import(\"no/such/package\")\nprintln(\"after\")"}, struct {
		name   string
		script string
	}{"log-package", "log = import(\"log\")\nlog.Println(\"to-the-log\")\nprintln(\"to-stdout\")\nlog.Printf(\"%d-again\", 2)\nprintln(\"end\")"})
	// a script that asks for the interrupt signal itself (bundled os/signal), sends it to its own process and finishes its
	// work: the tool must not end the run underneath it. Expectation stated here (the library run would signal this process).
	{
		script := "os = import(\"os\")\nsignal = import(\"os/signal\")\ntime = import(\"time\")\ninterrupted = make(chan os.Signal, 1)\nsignal.Notify(interrupted, os.Interrupt)\nself, err = os.FindProcess(os.Getpid())\n" +
			"done = 0\nfor done < 3 {\ndone++\nprintln(\"unit\", done)\n}\nself.Signal(os.Interrupt)\nsig = <-interrupted\nprintln(\"received\", sig)\ntime.Sleep(30 * time.Millisecond)\nprintln(\"summary:\", done)"
		path := filepath.Join(tmp, "sigint.ank")
		_ = os.WriteFile(path, []byte(script), 0o644)
		for _, form := range [][]string{{path}, {"-e", script}} {
			cmd := exec.Command(bin, form...)
			var stdout, stderr bytes.Buffer
			cmd.Stdout, cmd.Stderr = &stdout, &stderr
			runErr := cmd.Run()
			exit := 0
			if ee, ok := runErr.(*exec.ExitError); ok {
				exit = ee.ExitCode()
			}
			o.Sum.Evaluations++
			o.Sum.Hist["own-interrupt-handler"]++
			want := "unit 1\nunit 2\nunit 3\nreceived interrupt\nsummary: 3\n"
			if exit != 0 || stdout.String() != want {
				o.Fail(Failure{Oracle: "cli-verdict-agrees", Key: "cli-own-interrupt-handler", Input: fmt.Sprintf("[%s form] %q", map[bool]string{true: "-e", false: "file"}[form[0] == "-e"], script),
					Detail: fmt.Sprintf("vm.Execute lets the script receive its own interrupt and finish (prints %q, no error); the binary exited %d after printing %q", want, exit, stdout.String())})
			}
		}
	}
	cwd0, _ := os.Getwd()
	for k, fc := range fileCases {
		wd := filepath.Join(tmp, fmt.Sprintf("wd%d", k))
		if err := os.MkdirAll(filepath.Join(wd, "scripts"), 0o755); err != nil {
			panic(err)
		}
		_ = os.WriteFile(filepath.Join(wd, "data.txt"), []byte("one\ntwo\nthree\n"), 0o644)
		_ = os.WriteFile(filepath.Join(wd, "lib.ank"), []byte("libv = 41\n"), 0o644)
		_ = os.WriteFile(filepath.Join(wd, "scripts", "x.ank"), []byte(fc.script), 0o644)
		args := []string{"data.txt"}
		// library verdict: the same bytes, the same current directory, the same args
		var libErr error
		_ = os.Chdir(wd)
		libOut := captureStdout(func() {
			e := env.NewEnv()
			_ = e.Define("args", args)
			core.Import(e)
			_, libErr = vm.Execute(e, nil, fc.script)
		})
		_ = os.Chdir(cwd0)
		cmd := exec.Command(bin, "scripts/x.ank", "data.txt")
		cmd.Dir = wd
		var stdout, stderr bytes.Buffer
		cmd.Stdout, cmd.Stderr = &stdout, &stderr
		runErr := cmd.Run()
		exit := 0
		if ee, ok := runErr.(*exec.ExitError); ok {
			exit = ee.ExitCode()
		} else if runErr != nil {
			o.Fail(Failure{Oracle: "cli-run", Key: "cli-exec-failed", Input: fc.script, Detail: runErr.Error()})
			continue
		}
		o.Sum.Evaluations++
		o.Sum.Hist["file-form:"+fc.name]++
		body := stdout.String()
		diag := 0
		if ls := strings.Split(strings.TrimSuffix(body, "\n"), "\n"); body != "" && (strings.HasPrefix(ls[len(ls)-1], "Execute error:") || strings.HasPrefix(ls[len(ls)-1], "ReadFile error:")) {
			diag = 1
			body = strings.Join(ls[:len(ls)-1], "\n")
			if len(ls) > 1 {
				body += "\n"
			}
		}
		desc := fmt.Sprintf("[file form, started in the parent directory as `anko scripts/x.ank data.txt`; case %s] %q", fc.name, fc.script)
		wantExit := 0
		if libErr != nil {
			wantExit = 4
		}
		if exit != wantExit || (libErr != nil) != (diag == 1) {
			o.Fail(Failure{Oracle: "cli-verdict-agrees", Key: "cli-file-verdict:" + fc.name, Input: desc,
				Detail: fmt.Sprintf("binary exit=%d (diagnostic lines %d, stdout %q), vm.Execute on the same bytes in the same directory: error=%v", exit, diag, stdout.String(), libErr)})
		} else if body != libOut {
			o.Fail(Failure{Oracle: "cli-stdout", Key: "cli-file-stdout:" + fc.name, Input: desc, Detail: fmt.Sprintf("binary printed %q, library run printed %q", body, libOut)})
		}
		// what a script writes through the bundled log package goes where Go's default logger writes: standard error
		if fc.name == "log-package" {
			if !strings.Contains(stderr.String(), "to-the-log") || !strings.Contains(stderr.String(), "2-again") || strings.Contains(stdout.String(), "to-the-log") {
				o.Fail(Failure{Oracle: "cli-stdout", Key: "cli-file-log-stream", Input: desc, Detail: fmt.Sprintf("stdout %q, stderr %q", stdout.String(), stderr.String())})
			}
		} else if stderr.Len() != 0 {
			o.Fail(Failure{Oracle: "cli-stderr", Key: "cli-stderr-not-empty", Input: desc, Detail: stderr.String()})
		}
	}
}
