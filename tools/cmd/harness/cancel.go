package main

import (
	"context"
	"encoding/json"
	"fmt"
	"math/rand"
	"strings"
	"sync"
	"time"

	"github.com/mattn/anko/env"
	"github.com/mattn/anko/parser"
	"github.com/mattn/anko/vm"

	"veriftools/internal/astser"
	"veriftools/internal/gen"
	"veriftools/internal/vals"
)

func init() { streams["cancel"] = streamCancel }

// spinning / long-running cores inside fragment F0 (the model can follow them poll by poll)
var spinCores = []string{
	"for {\n}",
	"for true {\nspin = 1\n}",
	"for i = 0; true; i++ {\n}",
	"for {\nprobe(1)\n}",
	"func rec(n) {\nreturn rec(n + 1)\n}\nrec(0)",
	"for {\nfor j = 0; j < 2; j++ {\nprobe(j)\n}\n}",
	"for x in [1, 2, 3, 4, 5, 6, 7, 8] {\nfor {\n}\n}",
}

// wrappers around a core (source templates; %s = core)
var spinWraps = []struct{ name, tmpl string }{
	{"none", "%s"},
	{"func0", "func() {\n%s\n}()"},
	{"func1", "func(a) {\n%s\n}(1)"},
	{"func4", "func(a, b, c, d) {\n%s\n}(1, 2, 3, 4)"},
	{"func5", "func(a, b, c, d, e) {\n%s\n}(1, 2, 3, 4, 5)"},
	{"func6", "func(a, b, c, d, e, f) {\n%s\n}(1, 2, 3, 4, 5, 6)"},
	{"variadic", "func(a, r...) {\n%s\n}(1, 2, 3)"},
	{"try-body", "try {\n%s\n} catch e {\nprobe(\"caught\")\n}\nprobe(\"after\")"},
	{"try-body-in-func", "try {\nfunc() {\n%s\n}()\n} catch e {\nprobe(\"caught\")\n}\nprobe(\"after\")"},
	{"catch-body", "try {\nthrow 1\n} catch e {\n%s\n}\nprobe(\"after\")"},
	{"finally-body", "try {\n} catch e {\n} finally {\n%s\n}\nprobe(\"after\")"},
	{"nilco-left", "x = func() {\n%s\n}() ?? probe(\"rhs\")\nprobe(\"after\")"},
	{"deferred", "func() {\ndefer func() {\n%s\n}()\n}()\nprobe(\"after\")"},
	{"if-cond", "if func() {\n%s\n}() {\nprobe(\"then\")\n}\nprobe(\"after\")"},
	{"switch", "switch 1 {\ncase 1:\n%s\n}\nprobe(\"after\")"},
	{"module", "module mm {\n%s\n}\nprobe(\"after\")"},
	{"arg", "probe2(1, func() {\n%s\n}())\nprobe(\"after\")"},
	// tail positions: nothing follows that would poll the context again
	{"try-empty-catch-tail", "func w() {\n%s\n}\ntry {\nw()\n} catch {\n}"},
	{"try-empty-catch-tail-in-func", "func w() {\n%s\n}\nfunc guarded() {\ntry {\nw()\n} catch {\n}\n}\nprobe(guarded())"},
	{"try-empty-catch-finally-tail", "func w() {\n%s\n}\ntry {\nw()\n} catch e {\n} finally {\n}"},
	{"deferred-after-return", "func w() {\ndefer func() {\n%s\n}()\nreturn 1\n}\nprobe(w())"},
	{"deferred-after-return-tail", "func w(v) {\ndefer func() {\n%s\n}()\nreturn v * 2\n}\nw(21)"},
	{"deferred-named-after-return", "func spin() {\n%s\n}\nfunc w() {\ndefer spin()\nreturn 1\n}\nx = w()"},
	// the core inside an operand of a statement whose own error handling comes afterwards: assignment targets (also of the
	// two-value receive), keys, sizes, bounds, subjects
	{"recv-ok-target", "ch = make(chan int64, 1)\nch <- 1\nm = {}\nv, m[func() {\n%s\n}()] = <-ch\nprobe(\"after\")"},
	{"recv-value-target", "ch = make(chan int64, 1)\nch <- 1\nm = {}\nm[func() {\n%s\n}()], ok = <-ch\nprobe(\"after\")"},
	{"recv-ok-target-undefined-value", "ch = make(chan int64, 1)\nch <- 1\nm = {}\nfresh, m[func() {\n%s\n}()] = <-ch\nprobe(\"after\")"},
	{"index-target", "a = [1]\na[func() {\n%s\n}()] = 2\nprobe(\"after\")"},
	{"multi-target", "a = [1, 2]\nx, a[func() {\n%s\n}()] = 5, 6\nprobe(\"after\")"},
	{"member-target", "m = {}\n{\"k\": m}[func() {\n%s\n}()].x = 1\nprobe(\"after\")"},
	{"delete-key", "m = {}\ndelete(m, func() {\n%s\n}())\nprobe(\"after\")"},
	{"make-size", "s = make([]int64, func() {\n%s\n}())\nprobe(\"after\")"},
	{"slice-bound", "a = [1, 2, 3]\nb = a[func() {\n%s\n}():2]\nprobe(\"after\")"},
	{"map-literal-value", "m = {\"a\": func() {\n%s\n}(), \"b\": probe(\"later\")}\nprobe(\"after\")"},
	{"forin-subject", "for x in func() {\n%s\n}() {\nprobe(x)\n}\nprobe(\"after\")"},
	{"switch-case", "switch 1 {\ncase func() {\n%s\n}():\nprobe(\"hit\")\ndefault:\nprobe(\"default\")\n}\nprobe(\"after\")"},
	{"opassign", "n = 1\nn += func() {\n%s\n}()\nprobe(\"after\")"},
	{"send-value", "c = make(chan interface, 1)\nc <- func() {\n%s\n}()\nprobe(\"after\")"},
	{"close-operand", "close(func() {\n%s\n}())\nprobe(\"after\")"},
	{"len-operand", "len(func() {\n%s\n}())\nprobe(\"after\")"},
	// the core twice: where the cancellation lands, and again in the clean-up that runs afterwards (deferred call, finally, catch)
	{"twice-body-and-deferred", "func w() {\ndefer func() {\n%[1]s\n}()\n%[1]s\n}\nw()"},
	{"twice-top-level-defer", "defer func() {\n%[1]s\n}()\n%[1]s"},
	{"twice-try-and-finally", "try {\n%[1]s\n} catch e {\n} finally {\n%[1]s\n}"},
	{"twice-try-in-func-catch-finally", "func w() {\n%[1]s\n}\ntry {\nw()\n} catch e {\n%[1]s\n} finally {\n%[1]s\n}"},
	{"twice-nested-finally", "func g() {\ntry {\ntry {\n%[1]s\n} catch e1 {\n} finally {\nprobe(\"inner\")\n}\n} catch e2 {\n} finally {\n%[1]s\n}\n}\ng()"},
}

// every wrapper that ends with a probe also as the LAST statement of the script: nothing follows that would poll again, the
// interruption itself must come back
func init() {
	n := len(spinWraps)
	for i := 0; i < n; i++ {
		w := spinWraps[i]
		if strings.HasSuffix(w.tmpl, "\nprobe(\"after\")") && !strings.Contains(w.name, "tail") {
			spinWraps = append(spinWraps, struct{ name, tmpl string }{w.name + "-tail", strings.TrimSuffix(w.tmpl, "\nprobe(\"after\")")})
		}
	}
}

// cores outside F0 (channels) and the callback wrapper: wall-clock oracle only
var blockCores = []string{
	"c = make(chan int64)\n<-c",
	"c = make(chan int64)\nc <- 1",
	"c = make(chan int64)\nfor x in c {\n}",
	"c = make(chan int64)\nv = <- c",
	"c = make(chan int64)\nv, ok = <- c",
	// the forwarding form dst <- src: blocked in its send half (an item was taken, nobody receives) and in its receive half
	"src = make(chan int64, 1)\nsrc <- 1\nout = make(chan int64)\nout <- src",
	"src = make(chan int64)\nout = make(chan int64, 1)\nout <- src",
	"src = make(chan int64, 2)\nsrc <- 1\nsrc <- 2\nout = make(chan int64, 1)\nfor {\nout <- src\n}",
	"c = make(chan int64, 1)\nc <- 1\nc <- <- c\nc <- 2",
	// the blocked receive is the ARGUMENT of a host call (fixed, variadic, typed parameter): the call does not happen
	"c = make(chan int64)\nprobe(<-c)\nprobe(\"after\")",
	"c = make(chan int64)\nvprobe(\"r\", <-c)",
	"c = make(chan int64)\ntyped(<-c)",
	"c = make(chan int64)\nprobe2(1, <-c)\nprobe(\"after\")",
	// operators on operands that would make a host-side loop run (astronomic counts on EMPTY containers, cyclic pointers): the
	// statement loop around them keeps polling
	"a = []\nfor {\nb = a * 4611686018427387904\n}", "a = \"\"\nfor {\nb = a * 4611686018427387904\n}", "a = []\nn = 4611686018427387904\nfor {\nb = a + a\nc = a * n\n}",
	"a = 1\np = &a\n*p = p\nn = 0\nfor {\nif p == 1 {\nn++\n}\n}", "a = 1\np = &a\n*p = p\nfor {\nx = (p in [1, 2])\nswitch p {\ncase 1:\n}\n}", "a = 1\np = &a\n*p = p\nfor {\nx = (p != p)\n}",
	// container stores that re-enter the store path (the first store into a nil map that is itself a map entry / member) before a loop: whatever
	// the interpreter holds while it stores must not keep the run from reaching the loop - and from being cancelled there
	"m = make(map[string]map[string]int64)\nm[\"x\"] = nil\nm[\"x\"][\"y\"] = 1\nfor {\n}", "m = make(map[string]map[string]int64)\nm.x = nil\nm.x.y = 1\nfor {\n}",
	"mm = make(map[string]map[string]map[string]int64)\nmm[\"a\"] = nil\nmm[\"a\"][\"b\"] = nil\nmm[\"a\"][\"b\"][\"c\"] = 1\ndelete(mm[\"a\"], \"b\")\nfor k, v in mm {\nmm[k][\"z\"] = nil\n}\nfor {\n}",
	// spinning without a loop and without a statement list: recursion through functions whose body is one return
	"func fib(n) {\nreturn n < 2 ? n : fib(n - 1) + fib(n - 2)\n}\nfib(60)",
	"func even(n, r...) {\nreturn n == 0 ? true : odd(n - 1, 1)\n}\nfunc odd(n, r...) {\nreturn n == 0 ? false : even(n - 1)\n}\nfunc spin(k) {\nreturn even(2000) == spin(k + 1)\n}\nspin(0)",
}

type cancelReq struct {
	Src     string `json:"src"`
	AfterMs int    `json:"after_ms"`
	NoLate  bool   `json:"no_late"` // skip the late-probe observation (fast repetitions)
	WaitMs  int    `json:"wait_ms"` // how long to wait for RunContext after the cancellation (0 = 1500)
	Prelude string `json:"prelude"` // run first on the same environment with vm.Execute (context.Background): a library loaded earlier
}

// several script goroutines racing on one buffered channel: the cancellation must reach every one of
// them whatever the interleaving (repeated many times; each run is one schedule)
var raceCores = []struct{ name, src string }{
	{"race-send", "c = make(chan int64, 1)\ngo func() {\nfor {\nc <- 1\n}\n}()\ngo func() {\nfor {\n<-c\n}\n}()\nfor {\nc <- 2\n}"},
	{"race-send3", "c = make(chan int64, 2)\ngo func() {\nfor {\nc <- 1\n}\n}()\ngo func() {\nfor {\nc <- 3\n}\n}()\ngo func() {\nfor x in c {\n}\n}()\nfor {\nc <- 2\n}"},
	{"race-recv", "c = make(chan int64, 1)\ngo func() {\nfor {\nc <- 1\n}\n}()\ngo func() {\nfor {\n<-c\n}\n}()\nfor {\nv = <-c\n}"},
	{"race-recv-ok", "c = make(chan int64, 1)\ngo func() {\nfor {\nc <- 1\n}\n}()\ngo func() {\nfor {\nv, ok = <-c\n}\n}()\nfor {\nv, ok = <-c\n}"},
}

type cancelResp struct {
	Returned  bool   `json:"returned"`
	TookMs    int    `json:"took_ms"` // after the cancellation
	Err       string `json:"err"`
	Trace     int    `json:"trace"`      // probes at return
	TraceLate int    `json:"trace_late"` // probes 80 ms after return
	Panic     string `json:"panic"`
}

// cancelInWorker runs in the worker child: real context.WithCancel, cancel after AfterMs.
func cancelInWorker(req cancelReq) cancelResp {
	var resp cancelResp
	stmt, err := parser.ParseSrc(req.Src)
	if err != nil {
		resp.Err = "parse: " + err.Error()
		resp.Returned = true
		return resp
	}
	e := env.NewEnv()
	var mu sync.Mutex
	n := 0
	defineStubs(e, func(interface{}) { mu.Lock(); n++; mu.Unlock() })
	_ = e.Define("callcb", func(f func()) { f() })
	if req.Prelude != "" {
		if _, err := vm.Execute(e, nil, req.Prelude); err != nil {
			resp.Err = "prelude: " + err.Error()
			resp.Returned = true
			return resp
		}
	}
	ctx, cancel := context.WithCancel(context.Background())
	done := make(chan struct{})
	var runErr error
	go func() {
		defer func() {
			if p := recover(); p != nil {
				resp.Panic = fmt.Sprint(p)
			}
			close(done)
		}()
		_, runErr = vm.RunContext(ctx, e, &vm.Options{}, stmt)
	}()
	wait := req.WaitMs
	if wait == 0 {
		wait = 1500
	}
	time.Sleep(time.Duration(req.AfterMs) * time.Millisecond)
	t0 := time.Now()
	cancel()
	select {
	case <-done:
		resp.Returned = true
		resp.TookMs = int(time.Since(t0) / time.Millisecond)
		if runErr != nil {
			resp.Err = runErr.Error()
		}
		mu.Lock()
		resp.Trace = n
		mu.Unlock()
		if req.NoLate {
			resp.TraceLate = resp.Trace
			return resp
		}
		time.Sleep(80 * time.Millisecond)
		mu.Lock()
		resp.TraceLate = n
		mu.Unlock()
	case <-time.After(time.Duration(wait) * time.Millisecond):
		resp.Returned = false
	}
	return resp
}

func streamCancel(o *Out, r *rand.Rand, n int, thorough bool) {
	o.Sum.Rule = "poll-exact cancellation: programs (random F0 programs and spinning cores x 17 wrappers) run under a context that cancels at poll k, for k over " +
		"{0,1,2, mid, last-1, last} (quick) / every k up to 60 (thorough), model run with the same cancelAt; wall-clock oracle: spinning and blocking cores (incl. channels, callbacks) " +
		"x wrappers cancelled after 30 ms through context.WithCancel in a child process; non-trivial = all; distinct by request hash"
	spinIdx := 0 // the fixed cases are noted with negative indices (the random programs use theirs)
	runK := func(src string, k int, tag string) (vmResult, bool) {
		stmt, err := parser.ParseSrc(src)
		if err != nil {
			o.Fail(Failure{Oracle: "cancel-template-parses", Key: "cancel-template-parse", Input: src, Detail: err.Error()})
			return vmResult{}, false
		}
		if tag == "spin" {
			spinIdx--
			o.Current(spinIdx, fmt.Sprintf("[cancel at poll %d] %s", k, src))
		}
		res := runVM(stmt, k, 4*time.Second)
		kk := "_"
		if k >= 0 {
			kk = fmt.Sprint(k)
		}
		o.Case(fmt.Sprintf("(run %d %s %s)", modelFuel, kk, astser.Prog(stmt)), res.line, fmt.Sprintf("[cancel at poll %d] %s", k, src), true)
		o.Sum.Hist["k-class:"+tag]++
		if res.panicked {
			o.Fail(Failure{Oracle: "no-panic", Key: "cancel-panic", Input: src, Detail: fmt.Sprint(res.panicVal)})
			return res, false
		}
		return res, true
	}
	// 1. spinning cores: every landing point of the cancellation among the first polls
	ks := []int{0, 1, 2, 3, 5, 8, 13}
	if thorough {
		ks = nil
		for k := 0; k <= 40; k++ {
			ks = append(ks, k)
		}
	}
	for _, core := range spinCores {
		for _, w := range spinWraps {
			src := fmt.Sprintf(w.tmpl, core)
			for _, k := range ks {
				res, ok := runK(src, k, "spin")
				if !ok {
					continue
				}
				if res.hung {
					o.Fail(Failure{Oracle: "cancel-stops-script", Key: "cancel-not-honoured:" + w.name, Input: fmt.Sprintf("[cancel at poll %d] %s", k, src), Detail: "the script kept running after the context was cancelled"})
					break
				}
				if res.err == nil || res.err.Error() != "execution interrupted" {
					o.Fail(Failure{Oracle: "cancel-error-message", Key: "cancel-swallowed:" + w.name, Input: fmt.Sprintf("[cancel at poll %d] %s", k, src), Detail: fmt.Sprintf("returned value %v, error %v", res.val, res.err)})
				}
				for _, t := range res.trace {
					if t == vals.Encode("after") || t == vals.Encode("rhs") || t == vals.Encode("caught") || t == vals.Encode("then") {
						o.Fail(Failure{Oracle: "cancel-no-further-statements", Key: "cancel-continued:" + w.name, Input: fmt.Sprintf("[cancel at poll %d] %s", k, src), Detail: fmt.Sprintf("probe trace after cancellation: %v", res.trace)})
						break
					}
				}
			}
		}
	}
	// 2. random terminating programs: cancel at chosen polls
	for i := 0; i < n; i++ {
		g := gen.NewProg(r)
		src := g.Program(1+r.Intn(4), 1+r.Intn(3))
		if o.Skipped(i, src) {
			continue
		}
		o.Current(i, src)
		base, ok := runK(src, -1, "none")
		if !ok || base.hung {
			continue
		}
		p := base.polls
		var cand []int
		if thorough {
			for k := 0; k <= p && k <= 60; k++ {
				cand = append(cand, k)
			}
		} else {
			cand = []int{0, 1, p / 2, p - 1, p, r.Intn(p + 1)}
		}
		seen := map[int]bool{}
		for _, k := range cand {
			if k < 0 || seen[k] {
				continue
			}
			seen[k] = true
			res, ok := runK(src, k, "program")
			if !ok || res.hung {
				continue
			}
			if k < p {
				// the cancellation landed while the script was running
				msgOK := res.err != nil && res.err.Error() == "execution interrupted"
				sameFailure := base.err != nil && res.err != nil && base.err.Error() == res.err.Error()
				if !msgOK && !sameFailure {
					o.Fail(Failure{Oracle: "cancel-error-message", Key: "cancel-swallowed:program", Input: fmt.Sprintf("[cancel at poll %d of %d] %s", k, p, src), Detail: fmt.Sprintf("cancelled run returned value %v error %v; uncancelled run error %v", res.val, res.err, base.err)})
				}
			}
		}
	}
	// 3. wall-clock oracle in a child process
	type wc struct{ name, src string }
	var wcs []wc
	for _, core := range append(append([]string{}, spinCores[:4]...), blockCores...) {
		for _, w := range spinWraps {
			wcs = append(wcs, wc{w.name, fmt.Sprintf(w.tmpl, core)})
		}
	}
	for _, core := range []string{"for {\n}", "c = make(chan int64)\n<-c"} {
		wcs = append(wcs, wc{"callback", "callcb(func() {\n" + core + "\n})\nprobe(\"after\")"})
		wcs = append(wcs, wc{"go", "go func() {\n" + core + "\n}()\nfor {\n}"})
	}
	if !thorough {
		// quick: a rotating third of the wall-clock cases
		var sel []wc
		for i, c := range wcs {
			if i%3 == int(o.Sum.Seed%3) || c.name == "callback" || c.name == "nilco-left" || strings.Contains(c.name, "tail") || strings.Contains(c.name, "after-return") || strings.HasPrefix(c.name, "twice") {
				sel = append(sel, c)
			}
		}
		wcs = sel
	}
	// 4. schedule-dependent cases: the same racing program again and again, cancelled after 1-4 ms
	reps := 60
	if thorough {
		reps = 1500
	}
	type wcr struct {
		wc
		after   int
		noLate  bool
		prelude string
	}
	var runs []wcr
	for _, c := range wcs {
		runs = append(runs, wcr{c, 30, false, ""})
	}
	// functions defined by an EARLIER run on the same environment (a library loaded with vm.Execute) run under the context of
	// the run that calls them: every parameter shape, spinning and blocking, directly and through what they call
	libPrelude := "func lib1(a) {\nfor {\nprobe(a)\n}\n}\nfunc lib5(a, b, c, d, e) {\nfor {\nprobe(a)\n}\n}\nfunc libv(xs...) {\nfor {\nprobe(1)\n}\n}\n" +
		"func libblock5(a, b, c, d, e) {\nch = make(chan int64)\n<-ch\n}\nfunc libblockv(xs...) {\nch = make(chan int64)\nch <- 1\n}\n" +
		"func each5(f, a, b, c, d) {\nreturn f(a)\n}\nfunc eachv(f, xs...) {\nreturn f(1)\n}\nfunc spin(a) {\nfor {\nprobe(a)\n}\n}\n" +
		"lit5 = func(a, b, c, d, e) {\nfor {\n}\n}\nlitv = func(xs...) {\nfor {\n}\n}\n"
	for _, call := range []string{"lib1(1)", "lib5(1, 2, 3, 4, 5)", "libv(1, 2)", "libv()", "libv([1, 2]...)", "libblock5(1, 2, 3, 4, 5)", "libblockv(1)", "each5(spin, 1, 2, 3, 4)", "eachv(spin, 1)",
		"each5(func(a) {\nfor {\n}\n}, 1, 2, 3, 4)", "lit5(1, 2, 3, 4, 5)", "litv(1)", "func() {\ndefer libv(1)\n}()", "x = [lib5(1, 2, 3, 4, 5)]"} {
		runs = append(runs, wcr{wc{"library-function", call + "\nprobe(\"after\")"}, 30, false, libPrelude})
	}
	// a goroutine of the script has ENDED WITH AN ERROR before the cancellation, the script is still waiting for it or spinning:
	// the cancelled call reports the interruption, not the goroutine's old error
	for _, src := range []string{
		"results = make(chan int64)\ngo func() {\nthrow \"worker failed\"\n}()\n<-results",
		"go func() {\nx = [1][5]\n}()\nfor {\n}",
		"func w(a, b, c, d, e) {\nthrow \"w failed\"\n}\ngo w(1, 2, 3, 4, 5)\nc = make(chan int64)\n<-c",
		"func wv(xs...) {\nthrow \"wv failed\"\n}\ngo wv(1)\nfor {\nprobe(1)\n}",
		"go boom()\nc = make(chan int64)\nfor x in c {\n}",
		"done = make(chan bool, 1)\ngo func() {\ndefer func() { done <- true }()\nthrow \"worker failed\"\n}()\n<-done\nfor {\n}",
	} {
		runs = append(runs, wcr{wc{"dead-worker", src}, 40, false, ""})
	}
	for i := 0; i < reps; i++ {
		for _, c := range raceCores {
			runs = append(runs, wcr{wc{c.name, c.src}, 1 + i%4, true, ""})
		}
	}
	notHonoured := map[string]int{}
	for _, cr := range runs {
		c := cr.wc
		if notHonoured[c.name] >= 2 {
			continue // already reported; every further hit costs a worker restart
		}
		b, _ := json.Marshal(cancelReq{Src: c.src, AfterMs: cr.after, NoLate: cr.noLate, Prelude: cr.prelude})
		ans := runIsolatedRaw("cancel", string(b), 4*time.Second)
		o.Sum.Evaluations++
		o.Sum.Hist["wallclock:"+c.name]++
		var resp cancelResp
		if err := json.Unmarshal([]byte(ans), &resp); err != nil {
			o.Fail(Failure{Oracle: "cancel-stops-script", Key: "cancel-not-honoured:" + c.name, Input: c.src, Detail: "child process: " + ans})
			continue
		}
		slowLimit := 1000
		if !resp.Returned || (resp.Panic == "" && resp.Err == "execution interrupted" && resp.TookMs > slowLimit) {
			// not back in time: before this counts, once more alone with a generous allowance (a loaded machine can
			// delay a goroutine by more than a second; a script that ignores the cancellation never comes back)
			stopWorker()
			b2, _ := json.Marshal(cancelReq{Src: c.src, AfterMs: cr.after, NoLate: cr.noLate, Prelude: cr.prelude, WaitMs: 8000})
			ans2 := runIsolatedRaw("cancel", string(b2), 12*time.Second)
			var resp2 cancelResp
			if err := json.Unmarshal([]byte(ans2), &resp2); err == nil {
				resp = resp2
				slowLimit = 5000
				o.Sum.Hist["wallclock:second-look"]++
			}
		}
		if !resp.Returned {
			notHonoured[c.name]++
			stopWorker() // the child leaves after a run it could not stop; start a fresh one
		}
		switch {
		case resp.Panic != "":
			o.Fail(Failure{Oracle: "no-panic", Key: "cancel-panic", Input: c.src, Detail: resp.Panic})
		case !resp.Returned:
			o.Fail(Failure{Oracle: "cancel-stops-script", Key: "cancel-not-honoured:" + c.name, Input: c.src, Detail: "RunContext had not returned 1.5 s after the context was cancelled, nor 8 s after it in a second run alone"})
		case resp.Err != "execution interrupted":
			o.Fail(Failure{Oracle: "cancel-error-message", Key: "cancel-swallowed:" + c.name, Input: c.src, Detail: "returned error " + resp.Err})
		case resp.TookMs > slowLimit:
			o.Fail(Failure{Oracle: "cancel-bounded-time", Key: "cancel-slow:" + c.name, Input: c.src, Detail: fmt.Sprintf("returned %d ms after the cancellation", resp.TookMs)})
		case resp.TraceLate != resp.Trace && !strings.Contains(c.src, "go func"):
			o.Fail(Failure{Oracle: "cancel-no-further-statements", Key: "cancel-continued:" + c.name, Input: c.src, Detail: fmt.Sprintf("%d probes at return, %d shortly after", resp.Trace, resp.TraceLate)})
		}
	}
}
