package main

import (
	"fmt"
	"math/rand"
	"net/url"
	"strings"
	"time"

	"github.com/mattn/anko/env"
	"github.com/mattn/anko/parser"

	"veriftools/internal/astser"
	"veriftools/internal/vals"
)

func init() { streams["prov"] = streamProv }

// provenance wrappers: how the operand value reaches the operation (x = inner expression)
var provs = []struct {
	name string
	wrap func(x string) string
	// nilSafe: keeps a nil operand nil
	nilSafe bool
}{
	{"elem", func(x string) string { return "[" + x + "][0]" }, true},
	{"mapent", func(x string) string { return "{\"k\": " + x + "}[\"k\"]" }, true},
	{"member", func(x string) string { return "{\"k\": " + x + "}.k" }, true},
	{"scriptcall", func(x string) string { return "func() { return " + x + " }()" }, true},
	{"scriptarg", func(x string) string { return "func(p) { return p }(" + x + ")" }, true},
	{"gocall", func(x string) string { return "id(" + x + ")" }, true},
	{"paren", func(x string) string { return "(" + x + ")" }, true},
	{"ternary", func(x string) string { return "(true ? " + x + " : 0)" }, true},
	{"nilco", func(x string) string { return "(" + x + " ?? \"dflt\")" }, false},
	{"multiret", func(x string) string { return "func() { return " + x + ", 0 }()[0]" }, true},
	{"variadic", func(x string) string { return "func(r...) { return r[0] }(" + x + ")" }, true},
}

// operation templates over the operand expression X
var provTemplates = []struct {
	name string
	src  string // %s = operand
	f0   bool   // inside the model's fragment
}{
	{"neg", "-%s", true}, {"not", "!%s", true}, {"bitnot", "^%s", true},
	{"add-r", "%s + 1", true}, {"add-l", "1 + %s", true}, {"concat", "%s + \"s\"", true}, {"mul", "%s * 2", true},
	{"div", "%s / 2", true}, {"mod", "%s %% 2", true}, {"shift", "%s << 1", true},
	{"eq", "%s == 1", true}, {"eq-l", "\"ab\" == %s", true}, {"lt", "%s < 2", true}, {"and", "%s && true", true}, {"or", "false || %s", true},
	{"lt-big", "%s < 9007199254740993", true}, {"gt-big", "%s > 9007199254740992", true}, {"le-big-l", "9007199254740993 <= %s", true},
	{"ge-big-l", "9007199254740992 >= %s", true}, {"lt-float", "%s < 2.5", true}, {"ge-str", "%s >= \"ab\"", true},
	{"index", "%s[0]", true}, {"index-by", "[5, 6][%s]", true}, {"slice", "%s[0:1]", true}, {"slice-by", "[5, 6, 7][%s:]", true},
	{"len", "len(%s)", true}, {"in-list", "1 in %s", true}, {"in-item", "%s in [1, \"ab\", true]", true},
	{"call0", "%s()", true}, {"call1", "%s(1)", true},
	{"spread-script", "func(a, b) { return [a, b] }(%s...)", true}, {"spread-go", "probe2(%s...)", true}, {"spread-variadic", "vprobe(%s...)", true},
	{"member", "%s.k", true}, {"forin", "for e in %s { probe(e) }", true},
	{"switch-subject", "switch %s {\ncase 1:\nprobe(\"one\")\ncase \"ab\":\nprobe(\"ab\")\ndefault:\nprobe(\"d\")\n}", true},
	{"switch-case", "switch 3 {\ncase %s:\nprobe(\"hit\")\ndefault:\nprobe(\"d\")\n}", true},
	{"if", "if %s { probe(1) } else { probe(0) }", true}, {"ternary", "%s ? 1 : 2", true}, {"loop-cond", "for %s { probe(1); break }", true},
	{"throw", "throw %s", true}, {"nilco", "%s ?? \"d\"", true},
	{"defer", "func() { defer %s(1) }()", true},
	{"make-len", "len(make([]int64, %s))", false}, {"make-cap", "make([]int64, 0, %s)", false},
	{"delete", "dm = {\"k\": 1}\ndelete(dm, %s)\ndm", false}, {"delete-from", "delete(%s, \"k\")", false},
	// the operand as the name and as the global flag of delete(name, flag), run in a nested scope
	{"delete-global-flag", "gq = 1\nfunc dq() { delete(\"gq\", %s) }\ntry { dq() } catch e { }\ngq ?? \"gone\"", false}, {"delete-name", "gq = 1\ndelete(%s)\ngq ?? \"gone\"", false},
	{"delete-name-global", "gq = 1\nfunc dq() { delete(%s, true) }\ntry { dq() } catch e { }\ngq ?? \"gone\"", false},
	{"assign-elem", "t = %s\nt[0] = 9\nt", false},
	{"send", "%s <- 1", false}, {"recv", "<- %s", false},
	{"forward-from", "fwd = make(chan int64, 1)\nfwd <- %s\n<-fwd", false}, {"forward-from-iface", "fwd = make(chan interface, 1)\nfwd <- %s\n<-fwd", false},
	{"recv-stmt", "rv, rok = <- %s\n[rv, rok]", false}, {"send-value", "sc = make(chan interface, 1)\nsc <- %s\n<-sc", false}, {"close", "close(%s)", false}, {"chan-len", "len(%s)", false},
	{"deref", "*%s", false}, {"go", "go %s(1)", false},
	{"typed-arg", "typed(%s)", true}, {"to-go-string", "import(\"strings\").ToUpper(%s)", false},
	{"var-then-neg", "var t = %s\n-t", true}, {"var-then-index", "var t = %s\nt[0]", true},
	{"forin-elem-neg", "for t in [%s] { probe(-t) }", true},
	// the address of a variable the value was bound to, and a field store into a bound struct value
	{"param-addr", "func(p) {\nq = &p\n*q = 5\nreturn p\n}(%s)", false}, {"var-addr", "var t = %s\nq = &t\n*q = 5\nt", false}, {"paren-addr", "var t = %s\nq = &(t)\n*q = 5\nt", false}, {"param-paren-addr", "func(p) {\nq = &((p))\n*q = 5\nreturn p\n}(%s)", false},
	// ... and so do `??` and `?:` around the variable: the address of such an expression is the address of a copy of its value
	{"coalesce-addr", "var t = %s\nq = &(t ?? 0)\n*q = 5\nt", false}, {"ternary-addr", "var t = %s\nq = &(true ? t : 0)\n*q = 5\nt", false},
	{"param-coalesce-addr", "func(p) {\nq = &(p ?? 0)\n*q = 5\nreturn p\n}(%s)", false},
	{"bound-struct-field-store", "x = %s\nx.A = 2\nx.A", false},
	// the value bound to a variable by every kind of binding, then used as a bare identifier operand
	{"param-add", "func(p) { return p + p }(%s)", true}, {"param-mul", "func(p) { return p * 2 }(%s)", true}, {"param-sub", "func(p) { return p - 1 }(%s)", true},
	{"param-concat", "func(p) { return p + \"s\" }(%s)", true}, {"param-repeat", "func(p) { return \"ab\" * p }(%s)", true}, {"param-append", "func(p) { return p + 3 }(%s)", true},
	{"param-div", "func(p) { return p / 2 }(%s)", true}, {"param-lt", "func(p) { return p < 2 }(%s)", true}, {"param-index", "func(p) { return [5, 6][p] }(%s)", true},
	{"param5-add", "func(p, a, b, c, d) { return p + p }(%s, 1, 2, 3, 4)", true}, {"variadic-add", "func(r...) { t = r[0]; return t + t }(%s)", true},
	{"var-add", "var t = %s\nt + t", true}, {"var-mul", "var t = %s\nt * 2", true}, {"var-sub", "var t = %s\n1 - t", true}, {"var-concat", "var t = %s\n\"s\" + t", true},
	{"multi-add", "t, u = func() { return %s, 1 }()\nt + t", true}, {"multi-mul", "t, u = [%s, 1]\nt * 2", true}, {"multi-var-add", "var t, u = [%s, 1]\nt + t", true},
	{"forin-map-add", "for k, t in {\"k\": %s} { probe(t + t); probe(t * 2) }", false},
	{"go-pointer-param-write", "setp(%s, 5)\n[*vptr, readp(vptr)]", false}, {"go-pointer-param-read", "*vptr = 8\nreadp(%s)", false},
	{"go-pointer-param-twice", "setp(%s, 5)\nsetp(%s, 6)", false},
	{"forin-list-add", "for t in [%s] { probe(t + t); probe(t * 2); probe(t - 1) }", true},
	// one right side spread over several names, by var and by assignment
	{"multi-var-spread", "var t, u = %s\n[t, u]", true}, {"multi-let-spread", "t, u = (%s)\n[t, u]", true}, {"multi-var-spread3", "var t, u, w = %s\nt", true},
	{"multi-var-spread-in-func", "func() {\nvar t, u = %s\nreturn [u, t]\n}()", true},
	// the operand as a map KEY: read, store, literal, delete (an unhashable key is nil / an error whatever its provenance)
	{"key-read", "km = {\"k\": 1}\nkm[%s]", false}, {"key-store", "km = {}\nkm[%s] = 1\nlen(km)", false}, {"key-literal", "km = {%s: 1}\nlen(km)", false},
	{"key-delete", "km = {\"k\": 1}\ndelete(km, %s)\nlen(km)", false}, {"key-typed-store", "km = make(map[interface]int64)\nkm[%s] = 1\nlen(km)", false},
	{"key-comma-ok", "km = {\"k\": 1}\nv, ok = km[%s]\n[v, ok]", false}, {"key-in-func", "func(k) {\nkm = {}\nkm[k] = 1\nreturn len(km)\n}(%s)", false},
	// the two-value map read and what an assignment does with a module value
	{"comma-ok-present-nil", "v, ok = %s[\"k\"]\n[v, ok]", false}, {"comma-ok-list", "v, ok = %s[0]\n[v, ok]", false}, {"comma-ok-missing", "v, ok = %s[\"zz\"]\n[v, ok]", false},
	{"module-copy-let", "c = %s\nc.b = 2\n[vmodule.b, c.b]", false}, {"module-copy-var", "var c = %s\nc.b = 2\n[vmodule.b, c.b]", false},
	{"module-copy-in-func", "func(p) {\nq = p\nq.b = 3\nreturn [p.b, q.b]\n}(%s)", false},
	// methods of Go values whose type is a named non-struct type
	{"method-string", "%s.String()", false}, {"method-get", "%s.Get(\"k\")", false}, {"method-seconds", "%s.Seconds()", false}, {"method-value", "ms = %s.String\nms()", false},
	{"method-encode", "%s.Encode()", false}, {"method-celsius", "%s.F()", false},
}

// provCelsius is a host-defined named non-struct type with a method.
type provCelsius float64

func (c provCelsius) F() float64 { return float64(c)*9/5 + 32 }

func provValues() map[string]interface{} {
	seven := int64(7)
	ch := make(chan int64, 4)
	ch <- 11
	ch <- 12
	return map[string]interface{}{
		"vint": int64(3), "vfloat": 1.5, "vstr": "ab", "vbool": true, "vnil": nil, "vzero": int64(0),
		"vlist": []interface{}{int64(1), int64(2)}, "vmap": map[interface{}]interface{}{"k": int64(1)},
		"vgofn": func(x ...interface{}) int64 { return int64(len(x)) },
		"vchan": ch, "vptr": &seven, "vdur": 1500 * time.Nanosecond, "vurl": url.Values{"k": {"v"}}, "vcel": provCelsius(100), "vmapnil": map[interface{}]interface{}{"k": nil}, "vone": int64(1), "vbig": int64(9007199254740993),
		// typed nil values: nil whatever wrapper they travel in
		"vstruct": struct{ A int64 }{1}, "vnilmapT": map[string]int64(nil), "vnilsliceT": []int64(nil), "vnilptrT": (*int64)(nil), "vnilfuncT": (func())(nil), "vnilchanT": (chan int64)(nil), "vbig0": int64(9007199254740992),
	}
}

func streamProv(o *Out, r *rand.Rand, n int, thorough bool) {
	o.Sum.Rule = "operation templates (unary/binary operators, index, slice, len, in, call, spread, member, for-in, switch, conditions, throw, defer/go, make sizes, " +
		"delete, element assignment, channel ops, deref, conversion to Go parameters) x operand values (int, float, string, bool, nil, list, map, script and Go functions, " +
		"channel, pointer) x provenance chains of length 1-3 (element, map entry, member, script call, script argument, Go call returning interface{}, parentheses, ?:, ??, " +
		"multi-return element, variadic tail); oracle: outcome must equal the same template on the plain variable; F0 templates also through the model; distinct by request hash"
	// a function value reached through an element / a map entry / a call result and called where it is read - on several
	// goroutines at the same time, each through its own operand - is the function that operand evaluated to
	for _, c := range []struct{ name, callee string }{{"element", "fns[k](i)"}, {"map-entry", "fm[k](i)"}, {"call-result", "pick(k)(i)"}, {"member", "mods[k].f(i)"}} {
		src := "fns = []\nfm = {}\nmods = []\nfor j = 0; j < 8; j++ {\nfunc(j) {\nf = func(x) { return x * 10 + j }\nfns += f\nfm[j] = f\nmods += {\"f\": f}\n}(j)\n}\nfunc pick(k) { return fns[k] }\n" +
			"res = make(chan int64, 8)\nfunc worker(k) {\nvar bad = 0\nfor i = 0; i < 15000; i++ {\nif " + c.callee + " != i * 10 + k {\nbad++\n}\n}\nres <- bad\n}\n" +
			"for k = 0; k < 8; k++ {\ngo worker(k)\n}\ntotal = 0\nfor k = 0; k < 8; k++ {\ntotal += <-res\n}\ntotal"
		out := runScript(src, nil, nil)
		o.Sum.Evaluations++
		o.Sum.Hist["concurrent-callee:"+c.name]++
		if out.panicked || out.err != nil || !sameValue(int64(0), out.val) {
			o.Fail(Failure{Oracle: "callee-is-the-operand", Key: "prov-concurrent-callee:" + c.name, Input: src,
				Detail: fmt.Sprintf("calls that reached another function than their operand evaluated to: %v (err %v, panic %v)", out.val, out.err, out.panicVal)})
		}
	}
	valNames := []string{"vint", "vfloat", "vstr", "vbool", "vnil", "vzero", "vlist", "vmap", "vfn", "vgofn", "vchan", "vptr", "vone", "vbig", "vbig0", "vdur", "vurl", "vcel", "vmodule", "vmapnil", "vstruct", "vnilmapT", "vnilsliceT", "vnilptrT", "vnilfuncT", "vnilchanT"}
	run := func(src string) (vmResult, bool) {
		stmt, err := parser.ParseSrc(src)
		if err != nil {
			return vmResult{}, false
		}
		res := runVMWith(stmt, -1, 3*time.Second, func(e *env.Env) {
			for k, v := range provValues() {
				_ = e.Define(k, v)
			}
			// Go functions with pointer parameters: they act on the value the pointer the script holds points to
			_ = e.Define("setp", func(p *int64, v int64) int64 { old := *p; *p = v; return old })
			_ = e.Define("readp", func(p *int64) int64 { return *p })
			// a module value (assignment copies a module: the copy's bindings are its own)
			if m, err := e.NewModule("vmodule"); err == nil {
				_ = m.Define("b", int64(1))
			}
		})
		return res, true
	}
	outcome := func(res vmResult) string {
		switch {
		case res.panicked:
			return fmt.Sprintf("panic %v", res.panicVal)
		case res.err != nil:
			return "err " + res.err.Error()
		}
		return "ok " + vals.Encode(res.val) + " trace=" + strings.Join(res.trace, " ")
	}
	prelude := "vfn = func(a...) { return len(a) }\n"
	chains := func() [][]int {
		var out [][]int
		for i := range provs {
			out = append(out, []int{i})
		}
		extra := 40
		if thorough {
			extra = 400
		}
		for k := 0; k < extra; k++ {
			l := 2 + r.Intn(2)
			c := make([]int, l)
			for j := range c {
				c[j] = r.Intn(len(provs))
			}
			out = append(out, c)
		}
		return out
	}()
	for ti, t := range provTemplates {
		for _, vn := range valNames {
			if strings.HasPrefix(vn, "vbig") && (strings.HasPrefix(t.name, "make-") || t.name == "mul" || t.name == "shift") {
				continue // astronomically large allocations are outside the guarantee (resource class)
			}
			baseSrc := prelude + fillTemplate(t.src, vn)
			base, ok := run(baseSrc)
			if !ok {
				o.Fail(Failure{Oracle: "prov-template-parses", Key: "prov-template-parse:" + t.name, Input: baseSrc, Detail: "does not parse"})
				continue
			}
			if base.hung {
				continue
			}
			want := outcome(base)
			if t.name == "var-concat" && (vn == "vchan" || vn == "vptr" || vn == "vgofn" || vn == "vfn") {
				continue // the text of a channel / pointer / function is its address: differs from run to run
			}
			if strings.Contains(want, "0xc0") || strings.Contains(want, "30786330") {
				continue // the outcome prints an address (text of a module, channel, pointer): differs from run to run
			}
			if base.panicked {
				o.Fail(Failure{Oracle: "no-panic", Key: "prov-panic:" + t.name + "/" + vn, Input: baseSrc, Detail: want})
			}
			for ci, chain := range chains {
				// quick tier: all single wrappers, a rotating sample of the longer chains
				if len(chain) > 1 && !thorough && (ci+ti)%8 != 0 {
					continue
				}
				x := vn
				names := []string{}
				skip := false
				for _, pi := range chain {
					if (vn == "vnil" || strings.HasPrefix(vn, "vnil") && strings.HasSuffix(vn, "T")) && !provs[pi].nilSafe {
						skip = true
					}
					x = provs[pi].wrap(x)
					names = append(names, provs[pi].name)
				}
				if skip {
					continue
				}
				src := prelude + fillTemplate(t.src, x)
				// fresh channel / containers per run are provided by provValues()
				res, ok := run(src)
				if !ok {
					o.Sum.Skipped++
					continue
				}
				if res.hung {
					continue
				}
				got := outcome(res)
				o.Sum.Hist["template:"+t.name]++
				if t.f0 && vn != "vgofn" && vn != "vchan" && vn != "vptr" {
					// the model knows these operands: define them in the program text instead of the environment
					msrc := "vint = 3\nvfloat = 1.5\nvstr = \"ab\"\nvbool = true\nvnil = nil\nvzero = 0\nvlist = [1, 2]\nvmap = {\"k\": 1}\nvone = 1\n" + src
					if mstmt, err := parser.ParseSrc(msrc); err == nil {
						mres := runVM(mstmt, -1, 3*time.Second)
						if !mres.hung {
							o.Case(fmt.Sprintf("(run %d _ %s)", modelFuel, astser.Prog(mstmt)), mres.line, msrc, true)
						}
					}
				} else {
					o.Sum.Evaluations++
				}
				// addresses of channels / pointers in a message are not part of the value
				if strings.HasPrefix(got, "err 0x") && strings.HasPrefix(want, "err 0x") {
					got = want
				}
				if got != want {
					o.Fail(Failure{Oracle: "provenance-invariance", Key: "provenance:" + t.name + "/" + vn + "/" + strings.Join(names, ">"),
						Input: src, Detail: fmt.Sprintf("via %s: %s\nplain variable: %s", strings.Join(names, ">"), got, want)})
				}
			}
		}
	}
}

// fillTemplate puts the operand into every %s of the template (%% is a literal percent sign)
func fillTemplate(t, x string) string {
	t = strings.ReplaceAll(t, "%%", "\x00")
	t = strings.ReplaceAll(t, "%s", x)
	return strings.ReplaceAll(t, "\x00", "%")
}
