package main

import (
	"reflect"
	"unsafe"
)

// unsafePointer gives the address of an unexported field so the harness can read it
// (used only to number the scopes DeepCopy creates).
func unsafePointer(v reflect.Value) unsafe.Pointer { return unsafe.Pointer(v.UnsafeAddr()) }
