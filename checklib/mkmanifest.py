#!/usr/bin/env python3
"""Regenerates MANIFEST.json from checklib/props.py and properties.jsonl (run by hand after editing props)."""
import json, os, sys
HERE = os.path.dirname(os.path.abspath(__file__))
VERIF = os.path.dirname(HERE)
sys.path.insert(0, HERE)
from props import PROPS, MANIFEST_TEXT, NOT_APPLICABLE

ids = [json.loads(l)["id"] for l in open(os.path.join(VERIF, "properties.jsonl"))]
checks = []
for pid in ids:
    if pid not in PROPS:
        continue
    t = dict(MANIFEST_TEXT[pid])
    ties = [g for g in PROPS[pid].get("gens", []) if g.endswith("Flow") or g in ("Grammar", "Inventory", "Operators")]
    if ties:
        t["text"] = t["text"].rstrip() + (" Source ties re-decided by the kernel on every run (`decide +kernel` over facts REGENERATED from /repo): the functions this property is "
                                           "anchored in are, leaf statement by leaf statement, the ones that were audited against the model (" + ", ".join(ties) +
                                           "; own and shared tables, Props/Tie), and nothing was added to the anchored packages (declaration inventory).")
        if "source ties" not in t["technique"]:
            t["technique"] = t["technique"] + " + regenerated literal source ties (flow tables, declaration inventory)"
    checks.append({
        "property_id": pid,
        "quick_cmd": f"./check {pid} quick",
        "thorough_cmd": f"./check {pid} thorough",
        "evidence_file": f"/verif/evidence/{pid}.json",
        "replay_cmd_template": f"./check {pid} quick  # replay file {{path}} lists the failing inputs / broken theorem",
        "engine": "lean4-proof+correspondence",
        "level_claimed": {"category": "proof", "text": t["text"], "design_ref": t["design_ref"]},
        "level_note": t["note"],
        "technique": t["technique"],
    })
na = [{"property_id": pid, "reason": NOT_APPLICABLE.get(pid, "check not built yet in this session; see DESIGN.md section 6 for the planned theorem and tie")}
      for pid in ids if pid not in PROPS]
m = {
    "version": 1,
    "setup_cmd": "./setup.sh",
    "hooks": {
        "guard": "verif",
        "enable": "go build -tags verif (harness module /verif/tools with `replace github.com/mattn/anko => /repo`)",
        "baseline_off_cmd": "cd /repo && go test -vet=off -count=1 ./...",
        "source_commits": [],
        "add_only": True,
    },
    "engines": [
        {"name": "lean4-proof+correspondence", "path": "/verif/check",
         "serves_properties": [c["property_id"] for c in checks],
         "kind_free_text": "Lean 4 theorems over a hand-written executable model plus facts regenerated from /repo by a Go extractor; "
                           "Go harness drives model (lean_exe ankomodel) and implementation with the same inputs and diffs; "
                           "implementation-side oracles search for concrete failing inputs"},
    ],
    "checks": checks,
    "not_applicable": na,
    "notes": "Every check is ./check <id> <tier>; see DESIGN.md. known_findings.json lists recorded / fixed defects.",
}
json.dump(m, open(os.path.join(VERIF, "MANIFEST.json"), "w"), indent=1)
print("wrote MANIFEST.json with", len(checks), "checks and", len(na), "not_applicable")
