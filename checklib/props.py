"""Per-property configuration of ./check (which regenerated facts, theorem file, streams)."""

REFLECT = "Go reflect / runtime semantics as specified in the model (DESIGN.md 3.4)"

PROPS = {
    "C03": {
        "gens": ["Prec", "ParserGen", "Grammar", "LexFlow", "Inventory"],
        "lean": "Anko.Props.C03",
        "streams": [{"name": "parse", "n_quick": 3000, "n_thorough": 60000}],
        "trusted": ["goyacc and its LALR driver (the compiled parser is compared with the table-driven spelling, not modelled)",
                    "strconv.ParseFloat / ParseInt as the reference for literals in the harness"],
        "assumptions": ["the relational precedence-climbing parser PExpr stands for the generated parser on operator expressions: both rebuild the intended tree from the "
                        "same token strings (checked on every generated tree, min and full spelling)"],
        "partial": ["the round-trip, determinism and injectivity theorems are about the precedence-climbing reading of the regenerated table (binary and prefix operators, "
                    "?:, call / index / slice / member forms, any depth); that the generated LALR parser reads the same tree is decided by the metamorphic stream "
                    "(same printer, token for token)", "float literals: differential against strconv only",
                    "float literals aside, string literals are proved at the scanner level (string_literal_denotes_its_text: escape then scan is the identity, any text); raw strings: differential"],
    },
    "C01": {
        "gens": ["Recover", "RunFlow", "ExprFlow", "ContFlow", "ProvFlow", "ConvFlow", "BindFlow", "ToXFlow", "ChanFlow", "SingleStmtFlow", "ImportFlow", "CallFlow", "StmtFlow", "LexFlow", "EnvFlow", "Inventory"],
        "lean": "Anko.Props.C01",
        "streams": [{"name": "nopanic", "n_quick": 1500, "n_thorough": 60000, "model": False}],
        "trusted": ["the specification of when Go's reflect operations panic (Raw.* in lean/Anko/Props/C01.lean)",
                    "the extractor tools/cmd/extract/recover.go (go/ast: which calls count as panicking on behalf of the script, which scopes recover)",
                    "process isolation of the harness: a child process per worker, a dead child = a fault of the host"],
        "assumptions": ["memory and stack exhaustion (fatal 'out of memory', unbounded recursion, endless loops piling up defers) are outside the property and are classified, not reported",
                        "environments: the bindings of tools/cmd/harness/nopanic.go richEnv (values of every script-constructible class + Go functions incl. panicking ones) and core.Import"],
        "partial": ["completeness - that no OTHER operation of the interpreter can panic - is not a theorem: it is searched (whole-grammar generation, mutations, ~230 degenerate forms x 8 "
                    "wrappers, other streams' no-panic oracles); the theorems cover the guard -> precondition implications of the modelled operations and the containment of the listed ones"],
    },
    "C11": {
        "gens": ["ConvFlow", "CallFlow", "BindFlow", "Inventory"],
        "lean": "Anko.Props.C11",
        "streams": [{"name": "goconv", "n_quick": 600, "n_thorough": 12000}],
        "trusted": ["the conversion model lean/Anko/Model/Conv.lean mirrors convertReflectValueToType (validated each run: every value of the pool x every parameter type inside the "
                    "model's universe, received dynamic type + value or error)",
                    "Go's reflect package as the reference for 'the value Go's own conversion to T would produce' (refConvert in tools/cmd/harness/goconv.go)",
                    "reflect.MakeFunc functions of the harness record exactly what the interpreter passes"],
        "assumptions": ["the Lean universe: int64/int32/int8/uint8, string (ASCII for string <-> []int32), bool, interface{}, slices and maps of those; floats, pointers, structs, "
                        "func types are covered by the native oracle only",
                        "functions without parameters ignore their arguments and a spread list longer than the remaining fixed parameters is truncated (both pinned by vm tests): not tested as errors"],
        "partial": ["'exactly the supplied arguments' for the four call shapes is decided by the stream (random signatures x shapes x counts) and, for the spread branches, by the "
                    "spread theorems over the interpreter model; methods, fields, callbacks and identity are oracle-only"],
    },
    "C10": {
        "gens": ["ContFlow", "ProvFlow", "ConvFlow", "Inventory"],
        "lean": "Anko.Props.C10",
        "streams": [{"name": "cont", "n_quick": 1500, "n_thorough": 30000}],
        "trusted": ["the heap model lean/Anko/Model/Cont.lean mirrors the container code paths of vm/*.go (validated each run: every statement result and the final contents, "
                    "capacities and sharing of random histories)",
                    "Go's append growth policy (runtime.growslice): the capacity after a growing append is a parameter of the model operation, taken from the native run",
                    "the native Go reference of the harness (real []interface{} / map[interface{}]interface{} / string values) as the oracle the property names"],
        "assumptions": ["untyped containers in the Lean model; element values are scalars or container references; strings are ASCII",
                        "literal operands of a history are scalars (programs cannot spell references)"],
        "partial": ["typed containers (make / typed literals) and struct fields are decided by the typed part of the cont stream (store = Go conversion or error, content keeps "
                    "the declared type) and by the conversion theorems of C11, not by the heap model"],
    },
    "C16": {
        "gens": ["ChanOps", "ChanFlow", "StmtFlow", "CallFlow", "Inventory"],
        "lean": "Anko.Props.C16",
        "streams": [{"name": "chan", "n_quick": 1200, "n_thorough": 12000}],
        "trusted": ["Go's channel implementation and scheduler realise the FIFO-buffer specification of lean/Anko/Model/Chan.lean (capacity, closed flag, rendezvous for capacity 0)",
                    "the interpreter performs each channel operation as one reflect.Select / Close on the Go channel (the single-goroutine histories compare every result)"],
        "assumptions": ["pipeline stages are the goroutines `for x in in { out <- f(x) }; close(out)`, producer `for v in items { c <- v }; close(c)`, consumer collecting by for-in",
                        "a schedule is an arbitrary list of scheduler choices; disabled choices are skipped"],
        "partial": ["the concurrent theorems are about the channel specification and the pipeline LTS, not about the interpreter's own code between two channel operations "
                    "(that code is sequential and covered by the interpreter model only outside goroutines); 'go evaluates its arguments before it starts' is decided "
                    "by the order stream (C07) and the go-args templates here, not by a theorem",
                    "element conversion on send is checked differentially (templates) only"],
    },
    "C15": {
        "gens": ["ParserGen", "Lexer", "LexFlow", "Grammar", "Inventory"],
        "lean": "Anko.Props.C15",
        "streams": [{"name": "lex", "n_quick": 2500, "n_thorough": 50000}],
        "trusted": ["goyacc and its LALR driver (the generated parser is exercised, not modelled)",
                    "the scanner model lean/Anko/Model/Scanner.lean mirrors parser/lexer.go (validated each run: every token kind, literal, line:column and the first "
                    "error of every generated ASCII text)",
                    "the reflective AST dumper tools/internal/astser/dump.go (all fields + positions)"],
        "assumptions": ["the model reads ASCII texts; unicode.IsLetter on other runes is not modelled (such texts go through the implementation-side oracles only)",
                        "(nil, nil) from ParseSrc is the empty tree; it is accepted only for texts whose tokens are all separators"],
        "partial": ["termination and position theorems are about the scanner; termination of the LALR driver and the shape of trees (concatenation, no carried-over "
                    "value-stack slots) are decided by the oracle stream only"],
    },
    "C13": {
        "gens": ["EnvLocks", "EnvFlow", "Inventory"],
        "lean": "Anko.Props.C13",
        "streams": [{"name": "envconc", "n_quick": 300, "n_thorough": 3000, "model": False, "race": True,
                     "race_n_quick": 60, "race_n_thorough": 600},
                    {"name": "envapi", "n_quick": 300, "n_thorough": 3000}],
        "trusted": ["sync.RWMutex implements the occupancy specification of lean/Anko/Model/Lts.lean (many readers or one writer)",
                    "the lock-region extractor tools/cmd/extract/envlocks.go (statement-order walk of env/*.go; unknown statement shapes are extraction errors)",
                    "Go race detector and scheduler for the stress part"],
        "assumptions": ["operations are region-atomic: their effect on a scope's tables happens inside one locked region (fact 1 + mutual exclusion); "
                        "SetValue/GetValue/DeleteGlobal walking up to a parent are one region per scope visited: the cross-scope composite is covered by the oracle only (after fix fc8a412 DeleteGlobal checks and deletes in one region)",
                        "memory-model level behaviour is the race detector's domain"],
        "partial": ["sequential-consistency theorem is stated at region-atomic granularity; the schedule-by-schedule correspondence with the real code under a controlled "
                    "scheduler (go build -overlay) is not built - real concurrent runs are checked against all sequential orders instead"],
    },
    "C12": {
        "gens": ["EnvFlow", "Inventory"],
        "lean": "Anko.Props.C12",
        "streams": [{"name": "envapi", "n_quick": 1500, "n_thorough": 30000}],
        "trusted": ["the heap-of-scopes model lean/Anko/Model/EnvApi.lean mirrors env/*.go (validated each run: every return value of every call and the full final "
                    "state of random API histories)"],
        "assumptions": ["values are opaque data or module references; Addr is modelled in its error behaviour only (values bound through Define are never addressable)",
                        "DeepCopy is excluded from error_leaves_heap_unchanged (it cannot fail on a heap with valid parent links)"],
    },
    "C20": {
        "gens": ["ProvFlow", "ContFlow", "ExprFlow", "ToXFlow", "CallFlow", "Inventory"],
        "lean": "Anko.Props.C20",
        "streams": [{"name": "prov", "n_quick": 100, "n_thorough": 100},
                    {"name": "ops", "n_quick": 1500, "n_thorough": 30000},
                    # values bound from slots of typed containers / struct fields whose element type is itself a reference kind
                    {"name": "cont", "n_quick": 300, "n_thorough": 3000}],
        "trusted": ["the operator / interpreter model (validated differentially each run, operands in variable, slice-element and literal modes)"],
        "assumptions": ["RV.ity models reflect kind Interface; the model never inspects it except through the unwrap idiom (syntactic fact of lean/Anko/Model/Eval.lean)"],
        "partial": ["the whole-evaluator theorem (interface_flag_is_unobservable) is about the model: two provenance policies through all 28 functions of the evaluator; Go values the model has no constructor for (typed slices, pointers, channels, structs) are covered by the prov stream only"],
    },
    "C14": {
        "gens": ["AstWrites", "ImportFlow", "CallFlow", "ExprFlow", "BindFlow", "RunFlow", "Inventory"],
        "lean": "Anko.Props.C14",
        "streams": [{"name": "isolation", "n_quick": 400, "n_thorough": 6000, "model": False, "race": True,
                     "race_n_quick": 80, "race_n_thorough": 1200},
                    {"name": "vm", "n_quick": 1500, "n_thorough": 20000}],
        "trusted": ["go/types based extractor of writes to AST nodes / package-level variables (tools/cmd/extract/writes.go)",
                    "Go race detector (implementation-side oracle, thorough and quick tiers)"],
        "assumptions": ["hidden state inside host packages offered by import is outside the property",
                        "writes through reflection or unsafe are not seen by the extractor; the reflection dump of the tree before/after every run covers them differentially"],
    },
    "C02": {
        "gens": ["ChanOps", "RunFlow", "SingleStmtFlow", "ChanFlow", "StmtFlow", "CallFlow", "BindFlow", "ConvFlow", "CoreFlow", "Inventory"],
        "lean": "Anko.Props.C02",
        "streams": [{"name": "cancel", "n_quick": 150, "n_thorough": 1500}],
        "trusted": ["the interpreter model mirrors every ctx.Done() poll of vm/*.go on fragment F0 (validated each run: the counting context cancels the real "
                    "interpreter at poll k, the model at cancelAt = k, for every chosen k; result, error, trace, poll count and bindings compared)",
                    "Go's context / select semantics; the counting context of the harness"],
        "assumptions": ["fragment F0 for the poll-exact part; channels, goroutines and callbacks are covered by the wall-clock oracle only",
                        "actual latency and time inside one host Go call are outside the model"],
        "partial": ["callbacks (script function converted to a Go func) run under context.Background(): known finding, excluded from the theorems (outside F0)",
                    "'returns within bounded time' is modelled as: after the cancelled poll no statement starts and no loop iterates (stmt_after_cancel, "
                    "*_iteration_after_cancel, cancel_is_sticky); the remaining work is the expression in progress"],
    },
    "C07": {
        "gens": ["Operators", "CallFlow", "ExprFlow", "ContFlow", "SingleStmtFlow", "BindFlow", "Inventory"],
        "lean": "Anko.Props.C07",
        "streams": [{"name": "order", "n_quick": 2500, "n_thorough": 40000},
                    {"name": "vm", "n_quick": 2000, "n_thorough": 40000}],
        "trusted": ["the interpreter model lean/Anko/Model/Eval.lean mirrors vm/*.go on fragment F0 (validated differentially each run)",
                    "reference evaluator of the order stream (harness, independent of the model)"],
        "assumptions": ["fragment F0; `go` calls are outside the fragment (the argument evaluation of go goes through the same makeCallArgs / fast path code)",
                        "channel send `a <- b` (evaluates b first) is not in the property's list"],
        "partial": ["besides the defining equations of each form (one evalExpr call per operand, in order, cut at the first error) there is a WHOLE-EXPRESSION theorem "
                    "(Proofs/EvalProbe.lean: probe_tree_trace / strict_tree_evaluates_every_leaf_once / ternary_runs_only_the_chosen_branch) for probe-leaf trees of any depth "
                    "over + - unary- [a,b][1] ?: ; for the other forms (calls with their four argument shapes, map literals, slices ...) 'never twice' along whole runs is "
                    "established by the per-form equations plus the correspondence of traces",
                    "x op= e / x++ evaluate the operands of x twice by construction of the parser (documented exception)"],
    },
    "C09": {
        "gens": ["StmtFlow", "SingleStmtFlow", "RunFlow", "BindFlow", "CallFlow", "Inventory"],
        "lean": "Anko.Props.C09",
        "streams": [{"name": "errors", "n_quick": 2500, "n_thorough": 40000},
                    {"name": "vm", "n_quick": 2000, "n_thorough": 40000}],
        "trusted": ["the interpreter model lean/Anko/Model/Eval.lean mirrors vm/*.go on fragment F0 (validated differentially each run)",
                    "reference evaluator of the errors stream (harness, independent of the model)"],
        "assumptions": ["fragment F0", "`return` is not placed inside try blocks (finding #13 belongs to C08)"],
    },
    "C08": {
        "gens": ["StmtFlow", "SingleStmtFlow", "ProvFlow", "ToXFlow", "Inventory"],
        "lean": "Anko.Props.C08",
        "streams": [{"name": "control", "n_quick": 2500, "n_thorough": 40000},
                    {"name": "vm", "n_quick": 2000, "n_thorough": 40000}],
        "trusted": ["the interpreter model lean/Anko/Model/Eval.lean mirrors vm/*.go on fragment F0 (validated differentially each run)",
                    "reference evaluator of the control stream (harness, independent of the model)"],
        "assumptions": ["fragment F0; map iteration order is not modelled (for-in over maps with more than one entry is not generated)"],
        "partial": ["return_ends_invocation and signal propagation are proved for paths without `try` (finding #13: try catches ErrBreak/ErrContinue/ErrReturn, "
                    "pinned by the repository's TestTry; witness theorem try_catches_return_witness)",
                    "cfor_consumes_break_continue: without init, with a var / assignment init (the forms the grammar admits) and with any init that does not itself signal"],
    },
    "C04": {
        "gens": ["ScopeFlow", "BindFlow", "EnvFlow", "StmtFlow", "CallFlow", "SingleStmtFlow", "Inventory"],
        "lean": "Anko.Props.C04",
        "streams": [{"name": "scope", "n_quick": 100, "n_thorough": 100},
                    {"name": "vm", "n_quick": 3000, "n_thorough": 60000}],
        "trusted": ["the interpreter model lean/Anko/Model/Eval.lean mirrors vm/*.go on fragment F0 (validated by the vm and scope streams each run: "
                    "result, error text, probe trace, poll count, final bindings)",
                    "Go stubs bound by the harness = goSig/goRun of the model"],
        "assumptions": ["fragment F0: no element assignment, typed containers, pointers, channels, goroutines (such programs are answered `unsupported` and not compared)",
                        "model fuel: running out of fuel is `unsupported`, never a wrong answer"],
        "partial": ["fresh_scope_per_call is stated for the allocation step (newScope_fresh); along whole runs parent_links_never_change / scope_ids_never_reused / closures_are_immutable (Proofs/EvalMono) are the global theorems"],
    },
    "C19": {
        "gens": ["Packages", "CoreFlow", "ToXFlow", "ContFlow", "Inventory"],
        "lean": "Anko.Props.C19",
        "streams": [{"name": "builtins", "n_quick": 2000, "n_thorough": 40000}],
        "trusted": ["FOps instance of the driver (IEEE binary64)", "strconv outside the model's exact domain is `unsupported`",
                    "that a Go symbol behaves as documented by Go (only the identity of each binding is checked)"],
        "assumptions": ["range is modelled after its arguments were converted to int64 by the call machinery (C11's concern)",
                        "toRune/toChar and the typed-slice forms are checked by the native-Go oracle only (their result types are outside the model's universe)"],
        "partial": ["toRune/toChar/to*Slice: oracle only, no theorem"],
    },
    "C18": {
        "gens": ["Cli", "CliFlow", "CoreFlow", "Inventory"],
        "lean": "Anko.Props.C18",
        "build_cli": True,
        "streams": [{"name": "cli", "n_quick": 250, "n_thorough": 3000}],
        "trusted": ["OS process boundary (exit status, pipes) observed differentially only"],
        "assumptions": ["the decision structure of runNonInteractive has the canonical shape the extractor recognises (else: broken tie)"],
    },
    "C06": {
        "gens": ["EqualFlow", "Inventory", "StmtFlow", "ExprFlow"],
        "lean": "Anko.Props.C06",
        "streams": [{"name": "eq", "n_quick": 3000, "n_thorough": 3000}],
        "trusted": ["FOps instance of the driver = Lean Float = IEEE binary64 = Go float64",
                    "reflect.DeepEqual specialised to the value universe (maps compared by mutual inclusion = Go's rule for maps with unique keys)"],
        "assumptions": ["FEqSymm: float == is symmetric; FEqLeGe: x == y iff x <= y and y <= x (IEEE-754 facts, explicit hypotheses of the theorems)",
                        "strconv.ParseFloat outside the model's exact domain is answered `unsupported` and not compared",
                        "error values and environments as operands of == are outside the model"],
    },
    "C05": {
        "gens": ["Cache", "Operators", "ToXFlow", "ProvFlow", "Inventory"],
        "lean": "Anko.Props.C05",
        "streams": [{"name": "ops", "n_quick": 4000, "n_thorough": 60000}],
        "trusted": ["FOps instance of the driver = Lean Float = IEEE binary64 = Go float64 on amd64",
                    "Go strconv/fmt float formatting and parsing outside the model's exact domain are answered `unsupported` and not compared"],
        "assumptions": ["float operations are abstract (class FOps): theorems state which float operation is applied to which operands",
                        "string*n beyond 64 KiB and float->int64 outside the exactly converted range are outside the model (resource class / implementation-defined in Go)"],
    },
    "C17": {
        "gens": ["AstSchema", "Walker", "Inventory"],
        "lean": "Anko.Props.C17",
        "streams": [{"name": "walk", "n_quick": 1500, "n_thorough": 30000}],
        "trusted": ["reflection-based AST serialiser tools/internal/astser (independent of walker and extractor)"],
        "assumptions": ["a parsed program is a well-formed forest w.r.t. the regenerated schema (checked on every generated tree: wf=true)",
                        "MapExpr.Keys and MapExpr.Values have equal length (parser invariant, part of wf)"],
    },
}

# Texts for MANIFEST.json (level_claimed.text, level_note, technique, design_ref)
MANIFEST_TEXT = {
    "C03": {
        "text": "Machine-checked proofs (Lean 4): the precedence table REGENERATED from parser.go.y is the one the property states (decide), every "
                "binary production stores $1/$3 in LHS/RHS with the operator it was spelled with, and - for ANY table with one associativity "
                "per level, hence for the regenerated one - the precedence-climbing parser reads the minimally parenthesised spelling of "
                "every expression tree (binary and prefix operators, c ? a : b, call / index / slice / member forms, unbounded depth) back to "
                "exactly that tree and the fully parenthesised spelling to the same tree; the parser is a function (a token list has at most "
                "one reading), so different trees never share a spelling; decimal integer numerals below 2^63 denote exactly their value and larger ones are rejected (induction on the "
                "numeral). Correspondence/oracle: thousands of trees incl. unary, ?:, postfix forms in 7 statement positions, spelled both "
                "ways, must be rebuilt exactly by the real parser; the Lean printer is compared token for token with the harness printer; "
                "hex/binary/decimal literals through the Lean toNumber model; floats and strings against strconv / the escape rules.",
        "note": "Trusted: Lean kernel; goyacc (LALR tables not modelled); the grammar extractor (regex over parser.go.y, closed shapes). Follows fix a4e6d85 (-0b literals).",
        "technique": "Lean 4 proof (precedence-climbing round trip by induction on trees, determinism by induction on derivations; decide over regenerated table) + metamorphic parser correspondence",
        "design_ref": "DESIGN.md section 6 (C03)",
    },
    "C01": {
        "text": "Machine-checked (Lean 4): (1) for every operand value, the interpreter's guards imply the precondition of the raw reflect operation "
                "performed next - index (after tryToInt + range check), 2/3-index slicing (bounds accepted by the interpreter are bounds Go "
                "accepts), map stores/deletes (hashability), make (sign/order), plain calls (arity check => legal argument count); (2) `decide` "
                "over facts REGENERATED from vm/*.go on every run: every operation that can panic whatever the guards (calling a function "
                "value, close, type construction, sized allocation) sits under a deferred recover / on goRun's recovering goroutine / in the "
                "func adapter, and the only `go` statements are goRun's. Search (child processes, Debug=false, rich environment incl. panicking "
                "Go functions): programs over the whole grammar, byte/token mutations, statement soups, ~230 degenerate forms x 8 wrappers; "
                "oracle: the call returns and the process survives; memory/stack exhaustion classified as excluded.",
        "note": "Trusted: Lean kernel; Raw.* panic specification; extractor; process isolation. Completeness of the operation list is searched, not proved. "
                "Follows fixes a3f46e9, 5661ee9, 4506a06, 7cfc410, 3d7d0a6, f126bce, 889efda, d412209, abcd5bd, 5fc010c.",
        "technique": "Lean 4 proof (guards imply raw preconditions; decide over regenerated recover/go facts) + isolated generative search over the whole grammar",
        "design_ref": "DESIGN.md section 6 (C01)",
    },
    "C11": {
        "text": "Machine-checked proofs (Lean 4) over a model of the conversion routine (sized integers, string, bool, interface{}, slices and "
                "maps to any nesting depth): type soundness - every successful conversion yields a well-formed value OF THE TARGET TYPE (mutual "
                "induction over values), interface{} targets and same-type values pass unchanged, nil becomes the zero value, integer "
                "conversions wrap into range, element-wise conversion keeps length and order and fails as a whole, no conversion between bool "
                "and numbers/strings; spread calls hand the list over unchanged / fail without calling when too short. Correspondence + oracle: "
                "37 script values x 25 Go parameter types through reflect.MakeFunc functions (received dynamic type + value or error) against "
                "Go's own conversion and the model; random signatures x fixed/variadic x plain/spread x argument counts x 0-3 results; methods "
                "(value / pointer receivers, variadic), field read/write through pointers, callbacks of func types, identity of Go values "
                "through Define/Get, containers, Go and script identity functions.",
        "note": "Trusted: Lean kernel; reflect as conversion reference; model fidelity (differential). Follows fix d412209 (unexported field read).",
        "technique": "Lean 4 proof (type soundness of conversion by mutual structural induction) + differential conversion correspondence + reflective call-shape oracles",
        "design_ref": "DESIGN.md section 6 (C11)",
    },
    "C10": {
        "text": "Machine-checked proofs (Lean 4) over a heap model (slice headers over shared backing arrays, maps by reference, immutable "
                "strings) mirroring the interpreter's index / slice / element-store / append / delete code: in-range reads return exactly the "
                "addressed element, every other index value (negative, >= len, not a number) is an error; a sub-slice reads and writes the "
                "source's storage (aliasing theorems), assignment copies the header only; read-after-write and frame (no other slot, no other "
                "array changes); EVERY failing statement leaves variables, arrays and maps exactly unchanged (all operations, lifted to "
                "histories); maps: store-then-read, other keys untouched, missing and unhashable keys read nil, unhashable key on write/delete "
                "is an error; append: beyond capacity builds a fresh array (old arrays untouched), within capacity writes in place; GLOBAL "
                "invariant: after any history every slice header anywhere points into an existing backing array with room for its capacity and "
                "every map reference is valid (wf_step over all 9 operations, lifted to histories). "
                "Correspondence + oracle: random histories over 5 variables run by the interpreter, by a native Go reference on real slices/maps/"
                "strings and by the model (results, final contents, capacities, sharing).",
        "note": "Trusted: Lean kernel; model fidelity (differential); Go runtime growth policy (parameter). Typed containers / struct fields: stream oracle + C11 conversion theorems.",
        "technique": "Lean 4 proof (heap-model invariants per operation, error-frame theorem over all operations) + differential histories against model and native Go",
        "design_ref": "DESIGN.md section 6 (C10)",
    },
    "C16": {
        "text": "Machine-checked proofs (Lean 4) over the Go channel specification (FIFO buffer, capacity, closed flag, rendezvous): for ANY "
                "interleaving of sends, receives and closes by any number of goroutines, sent = received ++ buffered (exactly once, in order); "
                "closed-and-drained receives yield nil/ok=false, send-on-closed and double close are errors that change nothing. For pipelines "
                "of goroutines - any number of stages, any mix of buffered/unbuffered channels, any items - and EVERY schedule (arbitrary list "
                "of scheduler choices): the total stream is invariant, so at termination the consumer holds exactly the items through all "
                "stages in order; collected output is always a prefix of it; no reachable state is a deadlock; every move lowers a variant "
                "(no infinite runs). Correspondence: single-goroutine channel histories (send/recv/recv-ok/close/for-in, typed and interface "
                "channels) against the model; pipelines run repeatedly under GOMAXPROCS 1/2/4/16 against the expected sequence and the model.",
        "note": "Trusted: Lean kernel; Go runtime channels = the specification; schedules of the real runs are whatever the runtime produces (sampled), the theorems cover all.",
        "technique": "Lean 4 proof (LTS invariants by induction over arbitrary schedules, deadlock freedom, variant) + differential histories + repeated concurrent runs",
        "design_ref": "DESIGN.md section 6 (C16)",
    },
    "C15": {
        "text": "The scanner model's keyword table, character classes and operator switch are REGENERATED from parser/lexer.go on every run (translated expression "
                "by expression) and proved equal to the model's, for every character (keywords_are_the_lexers, character_classes_are_the_lexers, "
                "operator_switch_is_the_lexers, scan_uses_the_operator_table). "
                "Machine-checked proofs (Lean 4) over a function-by-function model of the scanner (lexer.go): for EVERY text no scanning loop "
                "runs out of fuel (each iteration advances the cursor, including the back()-and-retry loop of block comments and the escape "
                "handling of strings), the cursor/line bookkeeping invariant is kept by next() and by every use of back(), every token "
                "other than EOF consumes input, and every position handed to the parser - of a token or of the first error - is a position of "
                "the text: line within the text's lines, column at most one past the end of that line; an error-free run ends with EOF; lex_concat: if two "
                "texts scan without error, the token stream of `a + newline + b` is a's tokens (EOF replaced by the newline token), then b's "
                "tokens with lines shifted by a's line count (locality of every scanner function seen through a window, fuel-independent). "
                "Correspondence: real Scanner vs model token by token (kind, literal, line:column, error) on generated programs, mutations, "
                "token soups. Search/oracle on ParseSrc: panic/timeout guard, error type, position range, same tree on re-parse and under 16 "
                "concurrent parses, concatenation of texts that parse = concatenation of statement lists with shifted positions.",
        "note": "Trusted: Lean kernel; goyacc (not modelled); scanner-model fidelity (differential); AST dumper. Unicode letters outside ASCII are outside the model.",
        "technique": "Lean 4 proof (scanner invariant + progress by induction on fuel) + differential token correspondence + metamorphic parser oracles",
        "design_ref": "DESIGN.md section 6 (C15)",
    },
    "C13": {
        "text": "Machine-checked (Lean 4): (1) `decide` over lock-region facts REGENERATED from env/*.go on every run - every access of an Env "
                "method to the shared tables happens while the scope's RWMutex is held, writes under the write lock; (2) for the RWMutex "
                "occupancy LTS, by induction over arbitrary event sequences (any number of goroutines, any interleaving), a writer is "
                "always alone, so no two conflicting table accesses are ever enabled together, readers share, whoever is inside can "
                "leave; (3) with region-atomic operations every interleaving is a merge executed one at a time, respecting each "
                "goroutine's order; Copy is a consistent snapshot. Search/oracle: 2-3 goroutines x 2-3 operations on a shared scope, "
                "repeated, every observed outcome must equal one of the enumerated sequential orders; stress under the race detector.",
        "note": "Trusted: Lean kernel; RWMutex specification; extractor; Go race detector. Follows fix 7ed1036 (symbol listings read the table length under the lock).",
        "technique": "Lean 4 proof (LTS invariant by induction; decide over regenerated lock regions) + sequential-consistency search and race detection",
        "design_ref": "DESIGN.md section 6 (C13)",
    },
    "C12": {
        "text": "Machine-checked proofs (Lean 4) over a heap-of-scopes model of the whole env API: names with '.' are rejected, every failing "
                "call leaves the heap exactly unchanged (also lifted to arbitrary histories), define/delete/defineType touch only the "
                "addressed scope, set updates exactly the scope owning the nearest binding (which keeps its name set) or fails without "
                "creating one, lookup order own table -> external lookup -> parent -> (types) built-in names last, Copy is an independent "
                "snapshot. Correspondence: random histories of 10-40 calls over all 18 operations on a growing scope tree through the real "
                "env package and the model (every return value + final state); implementation-side oracles (failing call changes "
                "nothing, read-only calls change nothing, writes touch one scope, never panics).",
        "note": "Trusted: Lean kernel; fidelity of the env model (differential). Follows the repaired GetEnvFromPath (fix 437233a).",
        "technique": "Lean 4 proof (invariants per operation, lifted to histories) + differential history correspondence",
        "design_ref": "DESIGN.md section 6 (C12)",
    },
    "C20": {
        "text": "Machine-checked proofs (Lean 4) that every operation of the model - all unary/binary operators, ==/!=, in, switch matching, "
                "conditions, index/slice/make sizes, the nil test of ??, conversion to Go parameters, callee selection - depends on its "
                "operands only through the dynamic value, never on the interface flag that records provenance; and for the WHOLE evaluator: the "
                "model is parametrised by the provenance policy (which flag containers and interface-returning Go functions hand out), and "
                "for every program, fuel and cancellation point the real policy and the flag-free policy give the same trace, error status, "
                "result value, poll count and final bindings (a simulation through all 28 mutually recursive functions of the evaluator, "
                "unbounded programs). Search/oracle (metamorphic, implementation only): 70+ operation templates x 13 operand values (incl. channels, pointers, functions) x provenance "
                "chains of length 1-3 over 11 wrappers must give the same outcome as the plain variable; F0 cases also through the model.",
        "note": "Trusted: Lean kernel; model fidelity (differential). Follows the repaired interpreter (fix commits 46a7c4f, 3e4c598).",
        "technique": "Lean 4 proof (per-operation invariance; whole-evaluator simulation between provenance policies by induction on fuel) + metamorphic provenance correspondence",
        "design_ref": "DESIGN.md section 6 (C20)",
    },
    "C14": {
        "text": "Machine-checked (Lean 4, `decide`) obligations over facts REGENERATED on every run by a go/types pass over vm/, env/ and the "
                "lexer: the list of assignments / SetPosition calls targeting fields of AST nodes not allocated in the writing function is "
                "empty, and the only package-level variables written outside init are the parser's two debug switches; in the model the "
                "evaluator is a pure function of (tree, state). Search/oracle: every generated program is parsed once and executed 3 times "
                "sequentially and from 8 goroutines at once in fresh environments - all runs must agree and a full reflection dump of the "
                "tree (literals, CallExpr.Func, positions) must be unchanged - also under the Go race detector.",
        "note": "Trusted: Lean kernel; the go/types extractor (syntactic notion of 'allocated in the same function'); the race detector.",
        "technique": "Lean 4 `decide` over regenerated write-sets + differential re-execution and race detection",
        "design_ref": "DESIGN.md section 6 (C14)",
    },
    "C02": {
        "text": "Machine-checked proofs (Lean 4) over the interpreter model with an explicit context-poll counter: after the cancelled poll every "
                "statement ends at once with the interrupt and changes nothing (no probe, binding or scope), no loop form iterates again, "
                "cancellation is permanent (induction on fuel over all 28 model functions: cancelAt never changes, polls only grows), try "
                "and ?? cannot swallow the interrupt, a script function called after the cancellation runs no statement of its body and "
                "fails with 'execution interrupted'. WHOLE-RUN no-swallow theorem (Proofs/EvalIntr.lean, induction on fuel through all 28 "
                "evaluator functions): for every program, start state and cancellation point, once ANY poll of the run has observed the "
                "cancellation the error register holds the interrupt or a real error after every statement, expression and invocation "
                "(never 'no error', never break/continue/return), deferred calls that still run put the parked error back, and "
                "RunContext returns an error to the host (program_never_swallows; contrapositive successful_run_polled_before_cancel). Correspondence: a counting context cancels the real interpreter at exactly poll k and "
                "the model at cancelAt=k for spinning cores x 17 wrappers and random programs, every chosen k; wall-clock oracle with "
                "context.WithCancel over spinning and blocking (channel) cores in a child process.",
        "note": "Trusted: Lean kernel; fidelity of the model's poll points (differential at poll granularity); Go runtime for channels/select. "
                "Known finding: callbacks ignore the context.",
        "technique": "Lean 4 proof (induction on fuel, grind) over an executable interpreter model + poll-exact differential correspondence",
        "design_ref": "DESIGN.md section 6 (C02)",
    },
    "C07": {
        "text": "Machine-checked proofs (Lean 4) over the interpreter model of the evaluation-order equations of every strict form (operand "
                "lists of literals / returns / multi-assignment / fast-path calls, fixed and variadic argument lists incl. conversion for Go "
                "parameters, binary operators, index, map literal: head first, then the tail in the state the head left, an error cuts the "
                "rest) and every lazy form (&& || ?: ??), and that a call rejected for its argument count - or a callee without parameters "
                "- evaluates no argument at all; and, for expression trees of ANY depth with probe leaves over + - unary- [a,b][1] ?: (induction on the tree): the "
                "trace is exactly the selected leaves in source order, each once, the skipped branch of ?: contributes nothing, nothing else of the state changes. Correspondence: thousands of probe-leaf expression trees over all call shapes through "
                "model and interpreter (trace compared); oracle: independent reference evaluator predicting the probe order.",
        "note": "Trusted: Lean kernel; fidelity of the interpreter model (differential, 0 disagreements required); harness reference evaluator.",
        "technique": "Lean 4 proof (defining equations of the evaluator, induction on expression trees; decide +kernel over the regenerated operand preamble of the operators) + differential trace correspondence",
        "design_ref": "DESIGN.md section 6 (C07)",
    },
    "C09": {
        "text": "Machine-checked proofs (Lean 4) over the interpreter model: try/catch/finally sequencing (success skips catch and runs "
                "finally; an ordinary error is cleared, bound to the catch variable and handled; a failing catch skips finally; the "
                "interruption is never caught), an uncaught error aborts the statement list, defer captures function and arguments at the "
                "defer statement, runDefers takes each registered call exactly once in LIFO order, keeps the invocation's result "
                "(induction over the defer list) and lets a deferred error surface only if the body did not fail, every exit of an "
                "invocation and of the top level goes through runDefers. Correspondence: thousands of try/throw/defer programs through "
                "model and interpreter; oracle: independent reference evaluator predicting probe trace and final error.",
        "note": "Trusted: Lean kernel; fidelity of the interpreter model (differential, 0 disagreements required); the harness reference "
                "evaluator; fragment F0.",
        "technique": "Lean 4 proof (unfolding lemmas + induction over the defer list) over an executable interpreter model + differential correspondence + regenerated control flow of try / catch / finally and runDefers (decide +kernel)",
        "design_ref": "DESIGN.md section 6 (C09)",
    },
    "C08": {
        "text": "Machine-checked proofs (Lean 4) over the interpreter model: by induction on fuel, expressions (incl. calls) never yield a "
                "break/continue/return sentinel, and each of the four loop forms consumes break/continue of its body whatever the body is "
                "(so a signal can only reach the innermost enclosing loop); statement lists stop at the first signal/error; return ends the "
                "invocation with exactly the returned value; if/else-if/switch run the first matching branch only; for-in visits in index "
                "order; the C-style loop runs its post expression after continue; truthiness table. Stated for paths without `try` "
                "(known finding #13, witness theorem proved). Correspondence: thousands of structured programs through model and "
                "interpreter; oracle: an independent reference evaluator in the harness predicts the probe trace.",
        "note": "Trusted: Lean kernel; fidelity of the interpreter model (differential, 0 disagreements required); the harness reference "
                "evaluator; fragment F0.",
        "technique": "Lean 4 proof (induction on fuel, grind) over an executable interpreter model + differential correspondence + regenerated control flow of the branch and loop functions (decide +kernel)",
        "design_ref": "DESIGN.md section 6 (C08)",
    },
    "C04": {
        "text": "Machine-checked proof (Lean 4, mutual induction on fuel over all 28 functions of the interpreter model) that EVERY statement and "
                "expression restores the scope pointer on EVERY exit path (normal, break/continue/return, errors caught or not, interruption) - "
                "for all programs of fragment F0, unbounded in size and nesting; plus: lookups depend only on the parent chain (non-ancestor "
                "scopes are invisible), nearest binding wins, assignment updates the nearest binding else defines here, define touches only "
                "the addressed scope, every invocation gets a freshly allocated scope under the captured one. Correspondence: 700 scope "
                "templates (24 wrappers x actions x exit paths) and thousands of random programs through model and interpreter; oracle: "
                "expected bindings computed from the template.",
        "note": "Trusted: Lean kernel; fidelity of the hand-written interpreter model (checked differentially on every run, 0 disagreements "
                "required); fragment F0 only.",
        "technique": "Lean 4 proof (induction on fuel, grind) over an executable interpreter model + differential correspondence",
        "design_ref": "DESIGN.md section 6 (C04)",
    },
    "C19": {
        "text": "Machine-checked proofs (Lean 4): for ALL int64 start/stop/step the range loop (mirrored from core.go, with the overflow "
                "guard of fix b27c448) terminates, yields the progression from start with every element strictly before stop, is maximal, "
                "is empty when the step points away, never wraps; zero step / bad arity are errors; conversion laws of toInt/toFloat/"
                "toString/typeOf/kindOf/keys on the universe; and `decide` over the 595 package-table entries REGENERATED from packages/*.go: "
                "each is the Go symbol it is listed under, from the package it is offered in (2 audited exceptions). Correspondence: ~7000 "
                "range triples + every conversion builtin over the value pool through model and interpreter; oracle: big-integer reference "
                "progression, strconv/fmt/reflect natively, misuse => error never panic.",
        "note": "Trusted: Lean kernel; packages extractor (closed entry shapes, anything else is an extraction error); abstract float ops; "
                "behaviour of the bound Go symbols themselves is Go's.",
        "technique": "Lean 4 proof (induction on fuel + omega; decide over regenerated table) + differential correspondence",
        "design_ref": "DESIGN.md section 6 (C19)",
    },
    "C18": {
        "text": "Machine-checked proofs (Lean 4) over the decision table of the anko command whose constants and structure are REGENERATED "
                "from anko.go on every run: exit 0 iff source obtained and vm.Execute returned no error, 4 on parse/run error, 2 on an "
                "unreadable file, exactly one diagnostic line iff failure, prepared environment (args, core builtins, bundled packages) is "
                "what vm.Execute receives. Correspondence: generated scripts through the binary built from the working tree (file + "
                "trailing args, -e, unreadable path) vs the table; oracle: vm.Execute in an equally prepared environment (verdict and stdout).",
        "note": "Trusted: Lean kernel; the anko.go extractor (closed shape); OS process boundary and stdout buffering are observed, not modelled.",
        "technique": "Lean 4 proof over a regenerated decision table + differential run of the built binary",
        "design_ref": "DESIGN.md section 6 (C18)",
    },
    "C06": {
        "text": "Machine-checked proofs (Lean 4) over the model of vm.equal + reflect.DeepEqual on the whole value universe (nil, bool, int64, "
                "float64, strings, nested slices and maps, functions): == is symmetric for every pair (induction on DeepEqual fuel, under the "
                "explicit IEEE hypothesis that float == is symmetric), != is its negation, `in` and switch use the same relation, same-type "
                "primitives compare as Go ==, int vs float is exactly <= and >=, nil equals only nil, string vs number is the decimal-numeral "
                "rule. Correspondence: all ordered pairs of a 101-value pool in all four syntactic uses through model and interpreter; "
                "implementation-side algebraic oracle (a==b vs b==a, != vs !(==), in, switch, <= && >=).",
        "note": "Trusted: Lean kernel; FEqSymm / FEqLeGe hypotheses about IEEE floats; the model mirrors vm.equal (validated by the "
                "correspondence each run). Model follows the repaired equal (fix commit 41294bd).",
        "technique": "Lean 4 proof (structural case analysis + fuel induction; decide +kernel over the regenerated decision structure of equal and its call sites) + differential correspondence",
        "design_ref": "DESIGN.md section 6 (C06)",
    },
    "C05": {
        "text": "Machine-checked proofs (Lean 4) over an operator model mirrored from vmOperator.go/vmToX.go: for ALL int64 operand pairs "
                "+ - * & | are the BitVec-64 (wrapping) operations, % is Go's truncated remainder with an error exactly for 0, shift counts "
                "are unsigned (>=64 gives 0 / sign fill), comparisons are exact signed comparisons; / is always the float64 quotient; one "
                "float operand makes + - * and orderings float; string concatenation / repeat laws; and over cache facts REGENERATED from "
                "vm.go: the small-int cache guard only admits in-range indices whose slot was initialised with exactly that value. "
                "Correspondence: ~50k operator applications (all operators x all pairs of the boundary pool, trees, mixed kinds) through model "
                "and interpreter; oracle: native Go int64/float64 arithmetic.",
        "note": "Trusted: Lean kernel; that the model's functions mirror the Go code (validated by the correspondence on every run); "
                "abstract float ops (FOps) instantiated by IEEE binary64 in the driver; the cache extractor (closed shapes).",
        "technique": "Lean 4 proof (BitVec algebra, omega) + regenerated cache facts and operator arms (decide +kernel against the tables next to the model) + differential correspondence",
        "design_ref": "DESIGN.md section 6 (C05)",
    },
    "C17": {
        "text": "Machine-checked proof (Lean 4) that a walker driven by a complete arm table presents every node of every "
                "well-formed tree, parent before children, with no error unless the callback errs and stopping at the first "
                "callback error - unbounded in tree size and depth. The arm table and AST schema are regenerated from "
                "walk.go and ast/*.go on every run and completeness is re-decided by the kernel (gen_table_complete), so a "
                "dropped walkExpr call or a new node kind breaks the obligation. Correspondence: real Walk vs the model on "
                "generated programs; implementation-side oracle by reflection.",
        "note": "Trusted: Lean kernel; the go/ast extractor (closed set of canonical arm shapes, anything else is flagged "
                "non-canonical and fails completeness); the reflection serialiser; that parsed trees are well-formed w.r.t. the "
                "schema (checked per generated tree).",
        "technique": "Lean 4 proof over regenerated tables + differential correspondence",
        "design_ref": "DESIGN.md section 6 (C17)",
    },
}

NOT_APPLICABLE = {}
