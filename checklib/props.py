"""Per-property configuration of ./check (which regenerated facts, theorem file, streams)."""

REFLECT = "Go reflect / runtime semantics as specified in the model (DESIGN.md 3.4)"

PROPS = {
    "C17": {
        "gens": ["AstSchema", "Walker"],
        "lean": "Anko.Props.C17",
        "streams": [{"name": "walk", "n_quick": 1500, "n_thorough": 30000}],
        "trusted": ["reflection-based AST serialiser tools/internal/astser (independent of walker and extractor)"],
        "assumptions": ["a parsed program is a well-formed forest w.r.t. the regenerated schema (checked on every generated tree: wf=true)",
                        "MapExpr.Keys and MapExpr.Values have equal length (parser invariant, part of wf)"],
    },
}

# Texts for MANIFEST.json (level_claimed.text, level_note, technique, design_ref)
MANIFEST_TEXT = {
    "C17": {
        "text": "Machine-checked proof (Lean 4) that a walker driven by a complete arm table presents every node of every "
                "well-formed tree, parent before children, with no error unless the callback errs and stopping at the first "
                "callback error - unbounded in tree size and depth. The arm table and AST schema are regenerated from "
                "walk.go and ast/*.go on every run and completeness is re-decided by the kernel (gen_table_complete), so a "
                "dropped walkExpr call or a new node kind breaks the obligation. Correspondence: real Walk vs the model on "
                "generated programs; implementation-side oracle by reflection.",
        "note": "Trusted: Lean kernel; the go/ast extractor (closed set of canonical arm shapes, anything else is flagged "
                "non-canonical and fails completeness); the reflection serialiser; that parsed trees are well-formed w.r.t. the "
                "schema (checked per generated tree).",
        "technique": "Lean 4 proof over regenerated tables + differential correspondence",
        "design_ref": "DESIGN.md section 6 (C17)",
    },
}

NOT_APPLICABLE = {}
