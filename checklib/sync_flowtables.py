#!/usr/bin/env python3
"""Rewrite the literal flow tables kept in lean/Anko/Props from the tables regenerated in lean/Anko/Gen.
NEVER run by a check. It is the last step of an AUDIT: after a deliberate change of /repo (a `fix:` commit) the changed
functions are re-read against the model, the model is updated where needed, and only then the pinned table is refreshed
with this tool (usage: checklib/sync_flowtables.py <Name> [...] | --all)."""
import os, re, sys
ROOT = os.path.dirname(os.path.dirname(os.path.abspath(__file__)))
GEN = os.path.join(ROOT, "lean", "Anko", "Gen")
PROPS = os.path.join(ROOT, "lean", "Anko", "Props")

# name -> (table file, def name, header comment) for tables that have a file of their own
OWN = {
    "CallFlow": ("CallFlowTable.lean", "callFlow"), "EnvFlow": ("EnvFlowTable.lean", "envFlow"),
    "ExprFlow": ("ExprFlowTable.lean", "exprFlow"), "ContFlow": ("ContFlowTable.lean", "contFlow"),
    "ProvFlow": ("ProvFlowTable.lean", "provFlow"), "ConvFlow": ("ConvFlowTable.lean", "convFlow"),
    "BindFlow": ("BindFlowTable.lean", "bindFlow"), "ToXFlow": ("ToXFlowTable.lean", "toXFlow"),
    "CoreFlow": ("CoreFlowTable.lean", "coreFlow"), "RunFlow": ("RunFlowTable.lean", "runFlow"),
    "ChanFlow": ("ChanFlowTable.lean", "chanFlow"), "SingleStmtFlow": ("SingleStmtFlowTable.lean", "singleStmtFlow"),
    "ImportFlow": ("ImportFlowTable.lean", "importFlow"), "LexFlow": ("LexFlowTable.lean", "lexFlow"),
    "CliFlow": ("CliFlowTable.lean", "cliFlow"), "Grammar": ("GrammarTable.lean", "grammar"),
    "StmtFlow": ("StmtFlowTable.lean", "stmtFlow"), "Inventory": ("InventoryTable.lean", "inventory"),
}
# tables written inside a property file: (file, def name, predicate on the function name)
INLINE = {
    "StmtFlow": [("C08.lean", "branchAndLoopFlow", lambda f: f not in ("runTryStmt", "runDefers")),
                 ("C09.lean", "tryAndDeferFlow", lambda f: f in ("runTryStmt", "runDefers"))],
}

ROWTYPE = {"Inventory": "String × String × String"}
DEFNAME = {"Inventory": "decls"}

def rows(name):
    txt = open(os.path.join(GEN, name + ".lean")).read()
    body = txt[txt.index("def " + DEFNAME.get(name, "leaves")):]
    body = body[body.index("[\n") + 2: body.rindex("\n]")]
    return [l.rstrip(",") for l in body.split("\n") if l.strip()]

def fn_of(row):
    return re.match(r'\s*\("((?:[^"\\]|\\.)*)"', row).group(1)

def write_own(name):
    fname, dname = OWN[name]
    path = os.path.join(PROPS, fname)
    head = None
    if os.path.exists(path):
        old = open(path).read()
        head = old[: old.index("namespace Anko.Tables")]
    if head is None:
        head = f"/-\nThe functions of the source that Gen/{name} writes down, leaf statement by leaf statement, as they were read against the model when this\ntable was last audited. Kept by hand next to the model; compared on every run with the table regenerated from the source (Gen).\n-/\n"
    r = rows(name)
    open(path, "w").write(head + "namespace Anko.Tables\n\ndef " + dname + " : List (" + ROWTYPE.get(name, "String × String") + ") := [\n" + ",\n".join(r) + "\n]\n\nend Anko.Tables\n")
    print(name, "->", fname, len(r), "rows")

def write_inline(name):
    r = rows(name)
    for fname, dname, pred in INLINE[name]:
        path = os.path.join(PROPS, fname)
        txt = open(path).read()
        start = txt.index(f"def {dname} : List (String × String) := [\n")
        end = txt.index("\n]\n", start)
        sel = [x for x in r if pred(fn_of(x))]
        txt = txt[:start] + f"def {dname} : List (String × String) := [\n" + ",\n".join(sel) + txt[end:]
        open(path, "w").write(txt)
        print(name, "->", fname, dname, len(sel), "rows")

names = sys.argv[1:]
if names == ["--all"]:
    names = list(dict.fromkeys(list(OWN) + list(INLINE)))
for n in names:
    if n not in OWN and n not in INLINE: sys.exit("unknown table " + n)
    if n in OWN: write_own(n)
    if n in INLINE: write_inline(n)
